// Package model is an executable reading of the documented mapping from Go
// values to the data model (gotype/tags.go, README): the oracle of C12 and
// the value-level comparator of C11/C13.  It shares no code with the library.
package model

import (
	"errors"
	"fmt"
	"reflect"
	"strings"
	"unicode"
	"unicode/utf8"

	"verif/harness/gen"
	"verif/harness/val"
	"verif/harness/zoo"
)

var ErrUnsupported = errors.New("model: type not representable")

// Config carries the custom folders registered with gotype.Folders.
type Config struct {
	Registered map[reflect.Type]func(reflect.Value) val.V
}

var modelerType = reflect.TypeOf((*zoo.Modeler)(nil)).Elem()

// Fold returns the value the documented rules assign to v.
func Fold(v reflect.Value, cfg *Config) (val.V, error) {
	if !v.IsValid() {
		return val.VNil(), nil
	}
	t := v.Type()
	if cfg != nil && cfg.Registered != nil {
		if f := cfg.Registered[t]; f != nil {
			return f(v), nil
		}
	}
	// implemented custom folders (value or pointer receiver)
	if t.Implements(modelerType) {
		if t.Kind() == reflect.Interface && v.IsNil() {
			return val.VNil(), nil
		}
		if t.Kind() == reflect.Ptr && v.IsNil() && t.Elem().Implements(modelerType) {
			// value receiver: a nil pointer folds as null
			return val.VNil(), nil
		}
		return v.Interface().(zoo.Modeler).ModelV(), nil
	}
	if t.Kind() != reflect.Ptr && t.Kind() != reflect.Interface && reflect.PtrTo(t).Implements(modelerType) {
		p := reflect.New(t)
		p.Elem().Set(v)
		return p.Interface().(zoo.Modeler).ModelV(), nil
	}
	switch t.Kind() {
	case reflect.Bool:
		return val.VBool(v.Bool()), nil
	case reflect.String:
		return val.VStr(v.String()), nil
	case reflect.Int, reflect.Int8, reflect.Int16, reflect.Int32, reflect.Int64:
		return val.VInt(v.Int()), nil
	case reflect.Uint, reflect.Uint8, reflect.Uint16, reflect.Uint32, reflect.Uint64:
		return val.VUint(v.Uint()), nil
	case reflect.Float32:
		return val.VF32(float32(v.Float())), nil
	case reflect.Float64:
		return val.VF64(v.Float()), nil
	case reflect.Ptr, reflect.Interface:
		if v.IsNil() {
			return val.VNil(), nil
		}
		return Fold(v.Elem(), cfg)
	case reflect.Slice, reflect.Array:
		out := val.V{K: val.Arr}
		for i := 0; i < v.Len(); i++ {
			e, err := Fold(v.Index(i), cfg)
			if err != nil {
				return out, err
			}
			out.A = append(out.A, e)
		}
		return out, nil
	case reflect.Map:
		if t.Key().Kind() != reflect.String {
			return val.V{}, ErrUnsupported
		}
		out := val.V{K: val.Obj, Unordered: true}
		for _, k := range v.MapKeys() {
			e, err := Fold(v.MapIndex(k), cfg)
			if err != nil {
				return out, err
			}
			out.Keys = append(out.Keys, k.String())
			out.A = append(out.A, e)
		}
		return out, nil
	case reflect.Struct:
		out := val.V{K: val.Obj, IsStruct: true}
		if err := members(v, cfg, &out); err != nil {
			return out, err
		}
		return out, nil
	}
	return val.V{}, ErrUnsupported
}

func exported(name string) bool {
	r, _ := utf8.DecodeRuneInString(name)
	return unicode.IsUpper(r)
}

// members appends the members struct v contributes to out.
func members(v reflect.Value, cfg *Config, out *val.V) error {
	t := v.Type()
	for i := 0; i < t.NumField(); i++ {
		f := t.Field(i)
		if !exported(f.Name) {
			continue
		}
		tag := gen.ParseFieldTag(f)
		if tag.Omit {
			continue
		}
		fv := v.Field(i)
		if tag.Inline {
			if tag.OmitEmpty {
				return fmt.Errorf("model: inline and omitempty on one field")
			}
			if err := inlineMembers(fv, cfg, out); err != nil {
				return err
			}
			continue
		}
		name := tag.Name
		if name == "" {
			name = strings.ToLower(f.Name)
		}
		if tag.OmitEmpty && Empty(fv) {
			continue
		}
		e, err := Fold(fv, cfg)
		if err != nil {
			return err
		}
		out.Keys = append(out.Keys, name)
		out.A = append(out.A, e)
	}
	return nil
}

// inlineMembers: an inline field is replaced by the members of its struct,
// map or interface content; nil contributes nothing.
func inlineMembers(fv reflect.Value, cfg *Config, out *val.V) error {
	for fv.Kind() == reflect.Ptr {
		if fv.IsNil() {
			return nil
		}
		// a registered or implemented folder on the pointer type itself wins
		if hasCustom(fv.Type(), cfg) {
			break
		}
		fv = fv.Elem()
	}
	if fv.Kind() == reflect.Interface {
		if fv.IsNil() {
			return nil
		}
		fv = fv.Elem()
		for fv.Kind() == reflect.Ptr && !hasCustom(fv.Type(), cfg) {
			if fv.IsNil() {
				return fmt.Errorf("model: inline interface holds a nil pointer")
			}
			fv = fv.Elem()
		}
	}
	if hasCustom(fv.Type(), cfg) {
		o, err := Fold(fv, cfg)
		if err != nil {
			return err
		}
		if o.K != val.Obj {
			return fmt.Errorf("model: inline custom folder does not emit an object")
		}
		out.Keys = append(out.Keys, o.Keys...)
		out.A = append(out.A, o.A...)
		if o.Unordered {
			out.Unordered = true
		}
		return nil
	}
	switch fv.Kind() {
	case reflect.Struct:
		return members(fv, cfg, out)
	case reflect.Map:
		if fv.Type().Key().Kind() != reflect.String {
			return ErrUnsupported
		}
		out.Unordered = true
		for _, k := range fv.MapKeys() {
			e, err := Fold(fv.MapIndex(k), cfg)
			if err != nil {
				return err
			}
			out.Keys = append(out.Keys, k.String())
			out.A = append(out.A, e)
		}
		return nil
	}
	return fmt.Errorf("model: inline needs an object, got %s", fv.Kind())
}

func hasCustom(t reflect.Type, cfg *Config) bool {
	if cfg != nil && cfg.Registered != nil && cfg.Registered[t] != nil {
		return true
	}
	if t.Implements(modelerType) {
		return true
	}
	return t.Kind() != reflect.Ptr && t.Kind() != reflect.Interface && reflect.PtrTo(t).Implements(modelerType)
}

type isZeroer interface{ IsZero() bool }

var isZeroerType = reflect.TypeOf((*isZeroer)(nil)).Elem()

// Empty implements the omitempty rule: zero-length string/slice/array/map,
// nil pointer or interface (evaluated after following pointers and
// interfaces), IsZero()==true.
func Empty(v reflect.Value) bool {
	for {
		switch v.Kind() {
		case reflect.Ptr, reflect.Interface:
			if v.IsNil() {
				return true
			}
			v = v.Elem()
			continue
		case reflect.String, reflect.Slice, reflect.Array, reflect.Map:
			if v.Len() == 0 {
				return true
			}
			// not zero-length: a custom IsZero still decides (gotype/tags.go:
			// "If the IsZero method is true and omitempty has been set, the
			// field will be ignored")
		}
		break
	}
	t := v.Type()
	if t.Implements(isZeroerType) {
		return v.Interface().(isZeroer).IsZero()
	}
	if reflect.PtrTo(t).Implements(isZeroerType) {
		p := reflect.New(t)
		p.Elem().Set(v)
		return p.Interface().(isZeroer).IsZero()
	}
	return false
}

// HasCycle reports whether the type graph reachable from t contains a cycle
// (self-referential type).
func HasCycle(t reflect.Type) bool {
	return cyc(t, map[reflect.Type]bool{})
}

func cyc(t reflect.Type, path map[reflect.Type]bool) bool {
	switch t.Kind() {
	case reflect.Ptr, reflect.Slice, reflect.Array, reflect.Map:
		return cyc(t.Elem(), path)
	case reflect.Struct:
		if path[t] {
			return true
		}
		path[t] = true
		defer delete(path, t)
		for i := 0; i < t.NumField(); i++ {
			if cyc(t.Field(i).Type, path) {
				return true
			}
		}
	}
	return false
}

// Features lists structural features of a type (used for tags / coverage).
func Features(t reflect.Type) map[string]bool {
	out := map[string]bool{}
	feat(t, out, map[reflect.Type]bool{}, 0)
	return out
}

func feat(t reflect.Type, out map[string]bool, seen map[reflect.Type]bool, ptrs int) {
	if seen[t] {
		out["recursive"] = true
		return
	}
	switch t.Kind() {
	case reflect.Ptr:
		out["ptr"] = true
		if ptrs+1 >= 2 {
			out["ptr-chain>=2"] = true
			_, bt := base(t)
			switch bt.Kind() {
			case reflect.Struct, reflect.Map, reflect.Slice, reflect.Interface:
				out["ptr-chain>=2-to-container"] = true
			}
		}
		feat(t.Elem(), out, seen, ptrs+1)
	case reflect.Slice:
		out["slice"] = true
		feat(t.Elem(), out, seen, 0)
	case reflect.Array:
		out["array"] = true
		feat(t.Elem(), out, seen, 0)
	case reflect.Map:
		out["map"] = true
		if t.Key().Kind() != reflect.String {
			out["non-string-key"] = true
		}
		feat(t.Elem(), out, seen, 0)
	case reflect.Interface:
		out["interface"] = true
		if t.NumMethod() > 0 {
			out["non-empty-interface"] = true
		}
	case reflect.Struct:
		out["struct"] = true
		seen[t] = true
		for i := 0; i < t.NumField(); i++ {
			f := t.Field(i)
			tag := gen.ParseFieldTag(f)
			if !exported(f.Name) {
				out["unexported"] = true
				continue
			}
			switch {
			case tag.Omit:
				out["tag-omit"] = true
				continue
			case tag.Inline:
				out["tag-inline"] = true
				_, bt := base(f.Type)
				if f.Type.Kind() != reflect.Struct {
					out["inline-non-struct"] = true
				}
				if f.Type.Kind() == reflect.Ptr && bt.Kind() == reflect.Struct {
					out["inline-ptr-struct"] = true
				}
			case tag.OmitEmpty:
				out["tag-omitempty"] = true
			}
			if tag.Name != "" {
				out["tag-name"] = true
			}
			if f.Anonymous {
				out["embedded"] = true
			}
			feat(f.Type, out, seen, 0)
		}
		delete(seen, t)
	case reflect.Chan, reflect.Func, reflect.Complex64, reflect.Complex128, reflect.UnsafePointer, reflect.Uintptr:
		out["unsupported-kind"] = true
	}
}

func base(t reflect.Type) (int, reflect.Type) {
	n := 0
	for t.Kind() == reflect.Ptr {
		t = t.Elem()
		n++
	}
	return n, t
}
