// Package run is the check framework: suites of deterministic cases, worker
// processes with journals, death handling, known-finding matching, evidence.
package run

import (
	"encoding/json"
	"fmt"
	"os"
	"runtime"
	"runtime/debug"
	"sort"
	"strings"
	"sync/atomic"
	"syscall"
	"time"

	"verif/harness/gen"
)

// Suite is a list of N(tier) deterministic cases.
type Suite struct {
	Name string
	// Build selects the binary the workers run: "" (plain), "race", "asan", "386" (GOARCH=386: 32-bit int).
	Build string
	// Env is added to the worker environment.
	Env []string
	// N returns the number of cases for a tier ("quick"/"thorough").
	N func(tier string) int
	// Case executes one case.
	Case func(c *C)
	// Workers caps the number of parallel workers (0 = all cores).
	Workers int
	// Require lists observation counters that must be > 0 over the whole
	// suite, otherwise the run is inconclusive (monitors observed nothing).
	Require []string
	// CPUSeconds is the per-case CPU budget of the hang watchdog (default 20).
	CPUSeconds int
	// Serial: all cases of the suite run in one worker, in order.
	Serial bool
	// Batch, if > 0, fixes the number of cases per worker process (1 = every
	// case in a process of its own: for cases expected to kill the process).
	Batch int
}

// Check is everything that decides one property.
type Check struct {
	ID          string
	Level       string // evidence level
	Rule        string
	Assumptions []string
	Suites      []*Suite
}

var registry = map[string]*Check{}

func Register(c *Check) { registry[c.ID] = c }

func Lookup(id string) *Check { return registry[id] }

func IDs() []string {
	var ids []string
	for id := range registry {
		ids = append(ids, id)
	}
	sort.Strings(ids)
	return ids
}

// Violation is one observed refutation.
type Violation struct {
	Property string      `json:"property"`
	Suite    string      `json:"suite"`
	Idx      int         `json:"idx"`
	Seed     int64       `json:"seed"`
	Tier     string      `json:"tier"`
	Class    string      `json:"class"`          // failure class, e.g. "panic", "mismatch", "hang", "death"
	Sig      string      `json:"sig"`            // dedupe signature
	Tags     []string    `json:"tags,omitempty"` // named predicates that hold for the case
	Detail   string      `json:"detail"`
	Case     json.RawMessage `json:"case,omitempty"`
}

// C is the context of one running case.
type C struct {
	Prop  string
	Suite string
	Idx   int
	Seed  int64
	Tier  string
	R     *gen.Rand

	w      *worker
	tags   []string
	desc   interface{}
	nviol  int
	Replay bool // running from a replay file
}

func (c *C) Thorough() bool { return c.Tier == "thorough" }

// Begin records the generated case in the journal before library code runs.
func (c *C) Begin(desc interface{}) {
	c.desc = desc
	c.w.journalDesc(c.Idx, desc)
}

// Tag declares that a named predicate holds for this case (known-finding
// matching).
func (c *C) Tag(t string) { c.tags = append(c.tags, t) }

// HasTag reports whether the tag has been set on this case.
func (c *C) HasTag(t string) bool {
	for _, x := range c.tags {
		if x == t {
			return true
		}
	}
	return false
}

func (c *C) Violation(class, sig, detail string) {
	c.nviol++
	if len(detail) > 6000 {
		detail = detail[:6000] + "…"
	}
	v := Violation{Property: c.Prop, Suite: c.Suite, Idx: c.Idx, Seed: c.Seed, Tier: c.Tier,
		Class: class, Sig: sig, Tags: append([]string(nil), c.tags...), Detail: detail, Case: rawJSON(c.desc)}
	c.w.addViolation(v)
}

func (c *C) Violationf(class, sig, format string, args ...interface{}) {
	c.Violation(class, sig, fmt.Sprintf(format, args...))
}

func rawJSON(v interface{}) json.RawMessage {
	if v == nil {
		return nil
	}
	if r, ok := v.(json.RawMessage); ok {
		return r
	}
	b, err := json.Marshal(v)
	if err != nil {
		b, _ = json.Marshal(fmt.Sprintf("%v", v))
	}
	if len(b) > 1<<20 {
		b, _ = json.Marshal("case too large")
	}
	return b
}

// Failed reports whether this case has raised a violation so far.
func (c *C) Failed() bool { return c.nviol > 0 }

func (c *C) Observe(key string, n int) { c.w.res.Observed[key] += int64(n) }
func (c *C) ObserveMax(key string, n int) {
	if int64(n) > c.w.res.Max[key] {
		c.w.res.Max[key] = int64(n)
	}
}

// Nontrivial marks this case as non-trivial by the check's rule; h
// identifies it for distinct counting.
func (c *C) Nontrivial(h uint64) { c.w.hashes[h] = struct{}{} }

// Sample offers a written-out case for the evidence file.
func (c *C) Sample(kind string, desc interface{}) {
	if c.w.sampleKinds[kind] >= 2 || len(c.w.res.Samples) >= 12 {
		return
	}
	c.w.sampleKinds[kind]++
	c.w.res.Samples = append(c.w.res.Samples, map[string]interface{}{"suite": c.Suite, "idx": c.Idx, "kind": kind, "case": desc})
}

// Guard runs f and converts a panic into a violation of class "panic".
// It returns false if f panicked.
func (c *C) Guard(what string, f func()) (ok bool) {
	defer func() {
		if r := recover(); r != nil {
			ok = false
			if h, is := r.(interface{ HangString() string }); is {
				c.Violation("hang", "hang:"+what, what+": "+h.HangString())
				return
			}
			st := string(debug.Stack())
			c.Violation("panic", "panic:"+what+":"+panicSite(st), fmt.Sprintf("%s panicked: %v\n%s", what, r, trimStack(st)))
		}
	}()
	f()
	return true
}

// panicSite extracts the first library frame of a stack for de-duplication.
func panicSite(st string) string {
	lines := strings.Split(st, "\n")
	for _, l := range lines {
		l = strings.TrimSpace(l)
		if strings.HasPrefix(l, "github.com/elastic/go-structform") {
			if i := strings.LastIndex(l, "("); i > 0 {
				l = l[:i]
			}
			return strings.TrimPrefix(l, "github.com/elastic/go-structform")
		}
	}
	return "?"
}

func trimStack(st string) string {
	lines := strings.Split(st, "\n")
	if len(lines) > 40 {
		lines = lines[:40]
	}
	return strings.Join(lines, "\n")
}

// ---------------------------------------------------------------------------

type workerResult struct {
	Evaluations int64                    `json:"evaluations"`
	Observed    map[string]int64         `json:"observed"`
	Max         map[string]int64         `json:"max"`
	Samples     []map[string]interface{} `json:"samples"`
	Violations  []Violation              `json:"violations"`
	Done        bool                     `json:"done"`
	Last        int                      `json:"last"` // last completed idx
}

type worker struct {
	res         workerResult
	hashes      map[uint64]struct{}
	sampleKinds map[string]int
	journal     []byte // mmap'ed slot file: survives the death of the process without a syscall per case
	violSigs    map[string]int

	curIdx   atomic.Int64
	curStart atomic.Int64 // process CPU ns at case start
}

func cpuNanos() int64 {
	var ru syscall.Rusage
	if err := syscall.Getrusage(syscall.RUSAGE_SELF, &ru); err != nil {
		return 0
	}
	return ru.Utime.Nano() + ru.Stime.Nano()
}

// Journal slot layout (little endian): [0:8] index of the case in flight
// (-1 = none), [8:16] hang flag, [16:24] length of the description,
// [24:] description (JSON).  The file is a MAP_SHARED mapping, so whatever was
// stored is in the page cache when the process dies, however it dies.
const journalSize = 2 << 20

func put64(b []byte, v int64) {
	for i := 0; i < 8; i++ {
		b[i] = byte(uint64(v) >> (8 * i))
	}
}

func get64(b []byte) int64 {
	var v uint64
	for i := 0; i < 8; i++ {
		v |= uint64(b[i]) << (8 * i)
	}
	return int64(v)
}

func (w *worker) journalStart(idx int) {
	if w.journal == nil {
		return
	}
	put64(w.journal[16:], 0)
	put64(w.journal[0:], int64(idx))
}

func (w *worker) journalEnd() {
	if w.journal == nil {
		return
	}
	put64(w.journal[0:], -1)
}

func (w *worker) journalDesc(idx int, desc interface{}) {
	if w.journal == nil {
		return
	}
	b, err := json.Marshal(desc)
	if err != nil {
		b = []byte(fmt.Sprintf("%q", fmt.Sprintf("%v", desc)))
	}
	if len(b) > journalSize-64 {
		b = []byte(fmt.Sprintf("%q", "case too large for journal"))
	}
	put64(w.journal[16:], 0)
	copy(w.journal[24:], b)
	put64(w.journal[16:], int64(len(b)))
}

func (w *worker) addViolation(v Violation) {
	w.violSigs[v.Class+"|"+v.Sig]++
	if w.violSigs[v.Class+"|"+v.Sig] > 2 || len(w.res.Violations) >= 200 {
		w.res.Observed["violations_suppressed_duplicates"]++
		return
	}
	w.res.Violations = append(w.res.Violations, v)
}

// WorkerMain runs cases [from,to) of a suite in this process.
func WorkerMain(prop, suite string, from, to int, seed int64, tier, outDir string, replay bool) int {
	chk := Lookup(prop)
	if chk == nil {
		fmt.Fprintln(os.Stderr, "unknown property", prop)
		return 2
	}
	var s *Suite
	for _, x := range chk.Suites {
		if x.Name == suite {
			s = x
		}
	}
	if s == nil {
		fmt.Fprintln(os.Stderr, "unknown suite", suite)
		return 2
	}
	w := &worker{hashes: map[uint64]struct{}{}, sampleKinds: map[string]int{}, violSigs: map[string]int{}}
	w.res.Observed = map[string]int64{}
	w.res.Max = map[string]int64{}
	w.res.Last = from - 1
	if outDir != "" {
		j, err := os.OpenFile(outDir+"/journal", os.O_CREATE|os.O_RDWR, 0o644)
		if err != nil {
			fmt.Fprintln(os.Stderr, err)
			return 2
		}
		if err := j.Truncate(journalSize); err != nil {
			fmt.Fprintln(os.Stderr, err)
			return 2
		}
		m, err := syscall.Mmap(int(j.Fd()), 0, journalSize, syscall.PROT_READ|syscall.PROT_WRITE, syscall.MAP_SHARED)
		if err != nil {
			fmt.Fprintln(os.Stderr, "mmap journal:", err)
			return 2
		}
		w.journal = m
		put64(w.journal[0:], -1)
	}
	// address-space limit for non-race builds: a runaway allocation kills the
	// worker, not the sandbox.
	if s.Build == "" {
		lim := syscall.Rlimit{Cur: 24 << 30, Max: 24 << 30}
		_ = syscall.Setrlimit(syscall.RLIMIT_AS, &lim)
	}
	cpuBudget := int64(s.CPUSeconds)
	if cpuBudget == 0 {
		// Termination in time proportional to the input is what C03 (and the
		// chunking / pull-decoder properties C02, C18) state: 20 CPU seconds per
		// case there.  Elsewhere the watchdog only has to end a case that
		// never returns; a slower but correct implementation must not trip
		// it, so the budget is 120 CPU seconds.
		cpuBudget = 120
		switch prop {
		case "C02", "C03", "C18":
			cpuBudget = 20
		}
	}
	if s.Build != "" {
		cpuBudget *= 8
	}
	w.curIdx.Store(-1)
	go func() { // hang watchdog on CPU time
		for {
			time.Sleep(250 * time.Millisecond)
			idx := w.curIdx.Load()
			if idx < 0 {
				continue
			}
			if cpuNanos()-w.curStart.Load() > cpuBudget*1e9 && w.curIdx.Load() == idx {
				if w.journal != nil {
					put64(w.journal[8:], 1)
				}
				fmt.Fprintf(os.Stderr, "verif: case %d exceeded %d CPU seconds\n", idx, cpuBudget)
				os.Exit(97)
			}
		}
	}()

	for idx := from; idx < to; idx++ {
		w.journalStart(idx)
		c := &C{Prop: prop, Suite: suite, Idx: idx, Seed: seed, Tier: tier, w: w, Replay: replay,
			R: gen.New(gen.Mix(uint64(seed), gen.HashString(prop+"/"+suite), uint64(idx)))}
		w.curStart.Store(cpuNanos())
		w.curIdx.Store(int64(idx))
		c.Guard("case", func() { s.Case(c) })
		w.curIdx.Store(-1)
		w.res.Evaluations++
		w.res.Last = idx
		w.journalEnd()
	}
	w.res.Done = true
	if outDir == "" {
		b, _ := json.MarshalIndent(w.res, "", " ")
		fmt.Println(string(b))
		if len(w.res.Violations) > 0 {
			return 1
		}
		return 0
	}
	// hashes
	hb := make([]byte, 0, 8*len(w.hashes))
	for h := range w.hashes {
		for i := 0; i < 8; i++ {
			hb = append(hb, byte(h>>(8*i)))
		}
	}
	if err := os.WriteFile(outDir+"/hashes", hb, 0o644); err != nil {
		fmt.Fprintln(os.Stderr, err)
		return 2
	}
	b, _ := json.Marshal(w.res)
	if err := os.WriteFile(outDir+"/result.json", b, 0o644); err != nil {
		fmt.Fprintln(os.Stderr, err)
		return 2
	}
	runtime.KeepAlive(w)
	return 0
}
