package run

import (
	"crypto/sha256"
	"encoding/json"
	"fmt"
	"os"
	"os/exec"
	"path/filepath"
	"regexp"
	"runtime"
	"sort"
	"strconv"
	"strings"
	"sync"
	"time"
)

// Root is /verif (directory holding MANIFEST.json).
func Root() string {
	if r := os.Getenv("VERIF_ROOT"); r != "" {
		return r
	}
	exe, err := os.Executable()
	if err == nil {
		d := filepath.Dir(filepath.Dir(exe))
		if _, err := os.Stat(filepath.Join(d, "properties.jsonl")); err == nil {
			return d
		}
	}
	return "/verif"
}

// Finding is an entry of known_findings.json.
type Finding struct {
	ID       string `json:"id"`
	Property string `json:"property"`
	Status   string `json:"status"` // "known" | "fixed"
	Class    string `json:"class,omitempty"`
	Tag      string `json:"tag,omitempty"`
	Sig      string `json:"sig,omitempty"`
	Commit   string `json:"commit,omitempty"`
	What     string `json:"what"`
	Witness  string `json:"witness,omitempty"`
}

type findingsFile struct {
	Comment  string    `json:"comment"`
	Findings []Finding `json:"findings"`
	Fixed    []string  `json:"fixed"`
}

func loadFindings(root string) []Finding {
	b, err := os.ReadFile(filepath.Join(root, "known_findings.json"))
	if err != nil {
		return nil
	}
	var f findingsFile
	if err := json.Unmarshal(b, &f); err != nil {
		fmt.Fprintln(os.Stderr, "known_findings.json:", err)
		return nil
	}
	return f.Findings
}

func (f Finding) matches(v Violation) bool {
	if f.Status != "known" || f.Property != v.Property || f.Class != v.Class {
		return false
	}
	if f.Tag != "" {
		ok := false
		for _, t := range v.Tags {
			if t == f.Tag {
				ok = true
			}
		}
		if !ok {
			return false
		}
	}
	if f.Sig != "" && !strings.Contains(v.Sig, f.Sig) {
		return false
	}
	return true
}

type job struct {
	suite    *Suite
	from, to int
	confirm  bool // single-case confirmation run
}

type suiteStats struct {
	N           int   `json:"cases"`
	Evaluations int64 `json:"evaluations"`
	Build       string `json:"build,omitempty"`
}

type parent struct {
	chk    *Check
	tier   string
	seed   int64
	root   string
	work   string
	mu     sync.Mutex
	jobSeq int

	evaluations int64
	observed    map[string]int64
	max         map[string]int64
	samples     []map[string]interface{}
	hashes      map[uint64]struct{}
	violations  []Violation
	suites      map[string]*suiteStats
	inconcl     []string
	deaths      int
	bins        map[string]string
}

// outDir is where binaries, work files, replays and evidence go: Root(),
// unless VERIF_OUT redirects them (self-validation runs against scratch copies
// of the repository must not overwrite the real evidence).
func outDir(root string) string {
	if o := os.Getenv("VERIF_OUT"); o != "" {
		return o
	}
	return root
}

func binPath(root, build string) string {
	root = outDir(root)
	switch build {
	case "race":
		return filepath.Join(root, "bin", "vcheck-race")
	case "asan":
		return filepath.Join(root, "bin", "vcheck-asan")
	case "386":
		return filepath.Join(root, "bin", "vcheck-386")
	}
	return filepath.Join(root, "bin", "vcheck")
}

// buildVariant builds the worker binary for a sanitizer build from the
// current /repo working tree.
func buildVariant(root, build string) error {
	args := []string{"build"}
	if mf := os.Getenv("VERIF_MODFILE"); mf != "" {
		args = append(args, "-modfile="+mf)
	}
	tags := os.Getenv("VERIF_TAGS")
	if tags == "" {
		tags = "verif"
	}
	if tags != "none" {
		args = append(args, "-tags", tags)
	}
	switch build {
	case "race":
		args = append(args, "-race")
	case "asan":
		args = append(args, "-asan")
	}
	args = append(args, "-o", binPath(root, build), "./cmd/vcheck")
	cmd := exec.Command("go", args...)
	cmd.Dir = filepath.Join(root, "harness")
	cmd.Env = append(os.Environ(), "GOFLAGS=-mod=mod", "GOPROXY=off", "GOSUMDB=off", "GOTOOLCHAIN=local")
	if build == "asan" {
		cmd.Env = append(cmd.Env, "CC=clang", "CGO_ENABLED=1")
	}
	if build == "386" {
		// 32-bit int: the same suites with lengths that do not fit an int
		cmd.Env = append(cmd.Env, "GOARCH=386", "CGO_ENABLED=0")
	}
	out, err := cmd.CombinedOutput()
	if err != nil {
		return fmt.Errorf("go build (%s) failed: %v\n%s", build, err, out)
	}
	return nil
}

// ParentMain runs a whole check and writes the evidence file.
func ParentMain(prop, tier string, seed int64, only string) int {
	chk := Lookup(prop)
	if chk == nil {
		fmt.Fprintln(os.Stderr, "unknown property", prop)
		return 2
	}
	start := time.Now()
	root := Root()
	p := &parent{chk: chk, tier: tier, seed: seed, root: root,
		observed: map[string]int64{}, max: map[string]int64{}, hashes: map[uint64]struct{}{},
		suites: map[string]*suiteStats{}, bins: map[string]string{}}
	p.work = filepath.Join(outDir(root), "work", fmt.Sprintf("%s-%s-%d", prop, tier, os.Getpid()))
	os.RemoveAll(p.work)
	if err := os.MkdirAll(p.work, 0o755); err != nil {
		fmt.Fprintln(os.Stderr, err)
		return 2
	}
	defer os.RemoveAll(p.work)

	// builds needed
	var jobs []job
	for _, s := range chk.Suites {
		if only != "" && s.Name != only {
			continue
		}
		n := s.N(tier)
		if n <= 0 {
			continue
		}
		if s.Build != "" {
			if _, ok := p.bins[s.Build]; !ok {
				t0 := time.Now()
				if err := buildVariant(root, s.Build); err != nil {
					fmt.Fprintln(os.Stderr, err)
					p.inconcl = append(p.inconcl, fmt.Sprintf("build %s failed", s.Build))
					continue
				}
				p.bins[s.Build] = binPath(root, s.Build)
				fmt.Fprintf(os.Stderr, "[%s] built %s binary in %.1fs\n", prop, s.Build, time.Since(t0).Seconds())
			}
		}
		p.suites[s.Name] = &suiteStats{N: n, Build: s.Build}
		w := runtime.NumCPU()
		if s.Workers > 0 && s.Workers < w {
			w = s.Workers
		}
		if s.Serial {
			jobs = append(jobs, job{suite: s, from: 0, to: n})
			continue
		}
		per := (n + w*3 - 1) / (w * 3)
		if per < 1 {
			per = 1
		}
		if s.Batch > 0 {
			per = s.Batch
		}
		for a := 0; a < n; a += per {
			b := a + per
			if b > n {
				b = n
			}
			jobs = append(jobs, job{suite: s, from: a, to: b})
		}
	}

	// worker pool
	jobCh := make(chan job, 1<<16)
	var wg sync.WaitGroup
	var pending sync.WaitGroup
	for _, j := range jobs {
		pending.Add(1)
		jobCh <- j
	}
	nw := runtime.NumCPU()
	for i := 0; i < nw; i++ {
		wg.Add(1)
		go func() {
			defer wg.Done()
			for j := range jobCh {
				for _, nj := range p.runJob(j) {
					pending.Add(1)
					jobCh <- nj
				}
				pending.Done()
			}
		}()
	}
	pending.Wait()
	close(jobCh)
	wg.Wait()

	// required observations
	for _, s := range chk.Suites {
		if p.suites[s.Name] == nil {
			continue
		}
		for _, k := range s.Require {
			if p.observed[k] == 0 {
				p.inconcl = append(p.inconcl, fmt.Sprintf("suite %s observed nothing for %q", s.Name, k))
			}
		}
	}

	// known findings
	findings := loadFindings(root)
	matched := map[string]int{}
	var unlisted []Violation
	for _, v := range p.violations {
		hit := false
		for _, f := range findings {
			if f.matches(v) {
				matched[f.ID]++
				hit = true
				break
			}
		}
		if !hit {
			unlisted = append(unlisted, v)
		}
	}
	var matchedIDs []string
	for _, f := range findings {
		if matched[f.ID] > 0 {
			fmt.Printf("KNOWN-FINDING: property=%s %s: %s (matched %d cases)\n", f.Property, f.ID, f.What, matched[f.ID])
			matchedIDs = append(matchedIDs, f.ID)
		}
	}

	// distinct violations -> replay files
	seen := map[string]bool{}
	nprinted := 0
	sort.SliceStable(unlisted, func(i, j int) bool {
		if unlisted[i].Suite != unlisted[j].Suite {
			return unlisted[i].Suite < unlisted[j].Suite
		}
		return unlisted[i].Idx < unlisted[j].Idx
	})
	for _, v := range unlisted {
		key := v.Class + "|" + v.Sig
		if seen[key] {
			continue
		}
		seen[key] = true
		if nprinted >= 12 {
			continue
		}
		nprinted++
		b, _ := json.MarshalIndent(v, "", " ")
		sum := sha256.Sum256(b)
		os.MkdirAll(filepath.Join(outDir(root), "replays"), 0o755)
		path := filepath.Join(outDir(root), "replays", fmt.Sprintf("%s-%x.json", prop, sum[:6]))
		os.WriteFile(path, b, 0o644)
		fmt.Printf("VIOLATION property=%s replay=%s\n", prop, path)
		fmt.Printf("  suite=%s idx=%d class=%s sig=%s\n  %s\n", v.Suite, v.Idx, v.Class, v.Sig, firstLines(v.Detail, 6))
	}

	// evidence
	p.writeEvidence(start, len(unlisted), len(seen), matchedIDs)

	if len(unlisted) > 0 {
		fmt.Printf("[%s] %d violating cases, %d distinct signatures\n", prop, len(unlisted), len(seen))
		return 1
	}
	if len(p.inconcl) > 0 {
		for _, r := range p.inconcl {
			fmt.Printf("INCONCLUSIVE property=%s %s\n", prop, r)
		}
		return 3
	}
	fmt.Printf("[%s] held on %d executions (%d distinct non-trivial) tier=%s seed=%d in %.1fs\n",
		prop, p.evaluations, len(p.hashes), tier, seed, time.Since(start).Seconds())
	return 0
}

func firstLines(s string, n int) string {
	lines := strings.Split(s, "\n")
	if len(lines) > n {
		lines = lines[:n]
	}
	return strings.Join(lines, "\n  ")
}

var raceRe = regexp.MustCompile(`(?m)^WARNING: DATA RACE`)

// runJob executes one worker process; it returns follow-up jobs.
func (p *parent) runJob(j job) []job {
	p.mu.Lock()
	p.jobSeq++
	dir := filepath.Join(p.work, fmt.Sprintf("j%05d", p.jobSeq))
	p.mu.Unlock()
	os.MkdirAll(dir, 0o755)
	defer os.RemoveAll(dir)

	bin := binPath(p.root, j.suite.Build)
	args := []string{"worker", "-prop", p.chk.ID, "-suite", j.suite.Name, "-from", strconv.Itoa(j.from), "-to", strconv.Itoa(j.to),
		"-seed", strconv.FormatInt(p.seed, 10), "-tier", p.tier, "-out", dir}
	cmd := exec.Command(bin, args...)
	cmd.Env = append(os.Environ(), j.suite.Env...)
	cmd.Env = append(cmd.Env, "GOTRACEBACK=single")
	if j.suite.Build == "race" {
		cmd.Env = append(cmd.Env, "GORACE=halt_on_error=0 log_path="+filepath.Join(dir, "race"))
	}
	if j.suite.Build == "asan" {
		cmd.Env = append(cmd.Env, "ASAN_OPTIONS=detect_leaks=0:halt_on_error=1:abort_on_error=0")
	}
	stderrF, _ := os.Create(filepath.Join(dir, "stderr"))
	stdoutF, _ := os.Create(filepath.Join(dir, "stdout"))
	cmd.Stderr, cmd.Stdout = stderrF, stdoutF
	// wall-clock watchdog: generous; firing means inconclusive.
	wall := 45 * time.Minute
	if p.tier == "thorough" {
		wall = 4 * time.Hour
	}
	done := make(chan error, 1)
	if err := cmd.Start(); err != nil {
		p.mu.Lock()
		p.inconcl = append(p.inconcl, "cannot start worker: "+err.Error())
		p.mu.Unlock()
		return nil
	}
	go func() { done <- cmd.Wait() }()
	var werr error
	timedOut := false
	select {
	case werr = <-done:
	case <-time.After(wall):
		timedOut = true
		cmd.Process.Signal(os.Interrupt)
		time.Sleep(time.Second)
		cmd.Process.Kill()
		<-done
	}
	stderrF.Close()
	stdoutF.Close()

	// race reports
	if j.suite.Build == "race" {
		files, _ := filepath.Glob(filepath.Join(dir, "race.*"))
		p.mu.Lock()
		p.observed["race_detector_worker_processes"]++
		p.observed["race_detector_reports"] += 0
		p.mu.Unlock()
		for _, f := range files {
			b, _ := os.ReadFile(f)
			for _, blk := range splitRaceBlocks(string(b)) {
				p.mu.Lock()
				p.observed["race_detector_reports"]++
				p.mu.Unlock()
				v := Violation{Property: p.chk.ID, Suite: j.suite.Name, Idx: j.from, Seed: p.seed, Tier: p.tier,
					Class: "race", Sig: raceSig(blk), Detail: blk, Case: rawJSON(map[string]int{"from": j.from, "to": j.to})}
				p.mu.Lock()
				p.violations = append(p.violations, v)
				p.mu.Unlock()
			}
		}
	}

	var res workerResult
	rb, rerr := os.ReadFile(filepath.Join(dir, "result.json"))
	if rerr == nil {
		rerr = json.Unmarshal(rb, &res)
	}
	if timedOut {
		p.mu.Lock()
		p.inconcl = append(p.inconcl, fmt.Sprintf("wall-clock watchdog fired for suite %s [%d,%d)", j.suite.Name, j.from, j.to))
		p.mu.Unlock()
		return nil
	}
	if rerr == nil && res.Done {
		p.merge(j, &res, dir)
		return nil
	}

	// the worker died
	idx, desc, hang := readJournal(filepath.Join(dir, "journal"))
	stderrB, _ := os.ReadFile(filepath.Join(dir, "stderr"))
	class, sig := classifyDeath(string(stderrB), hang)
	if idx < 0 {
		p.mu.Lock()
		p.inconcl = append(p.inconcl, fmt.Sprintf("worker for suite %s [%d,%d) died before its first case: %v: %s", j.suite.Name, j.from, j.to, werr, tail(string(stderrB), 600)))
		p.mu.Unlock()
		return nil
	}
	if j.confirm || j.to-j.from == 1 {
		v := Violation{Property: p.chk.ID, Suite: j.suite.Name, Idx: idx, Seed: p.seed, Tier: p.tier,
			Class: class, Sig: sig, Detail: headTail(string(stderrB), 2500, 1500), Case: desc, Tags: tagsFromDesc(desc)}
		p.mu.Lock()
		p.violations = append(p.violations, v)
		p.deaths++
		p.suites[j.suite.Name].Evaluations++
		p.evaluations++
		p.mu.Unlock()
		return nil
	}
	// confirm the witness alone, redo the part before it and resume after it
	var next []job
	if idx > j.from {
		next = append(next, job{suite: j.suite, from: j.from, to: idx})
	}
	next = append(next, job{suite: j.suite, from: idx, to: idx + 1, confirm: true})
	if idx+1 < j.to {
		next = append(next, job{suite: j.suite, from: idx + 1, to: j.to})
	}
	return next
}

// tagsFromDesc lets a case pre-declare tags inside its journaled description
// ({"tags":[...]}) so that a process death can still be attributed.
func tagsFromDesc(desc json.RawMessage) []string {
	var m map[string]interface{}
	if json.Unmarshal(desc, &m) != nil {
		return nil
	}
	raw, ok := m["tags"].([]interface{})
	if !ok {
		return nil
	}
	var out []string
	for _, t := range raw {
		if s, ok := t.(string); ok {
			out = append(out, s)
		}
	}
	return out
}

func tail(s string, n int) string {
	if len(s) > n {
		return "…" + s[len(s)-n:]
	}
	return s
}

func head(s string, n int) string {
	if len(s) > n {
		return s[:n] + "…"
	}
	return s
}

// headTail keeps the first h and the last t bytes of a worker's stderr: a Go
// runtime fatal error names its cause and the faulting frames at the top and
// dumps every other goroutine after it.
func headTail(s string, h, t int) string {
	if len(s) <= h+t {
		return s
	}
	return s[:h] + "\n…\n" + s[len(s)-t:]
}

func classifyDeath(stderr string, hang bool) (class, sig string) {
	if hang {
		return "hang", "hang"
	}
	for _, l := range strings.Split(stderr, "\n") {
		l = strings.TrimSpace(l)
		switch {
		case strings.HasPrefix(l, "fatal error: checkptr"):
			return "checkptr", l
		case strings.HasPrefix(l, "fatal error:"):
			return "fatal", l
		case strings.Contains(l, "AddressSanitizer"):
			return "asan", head(l, 120)
		case strings.HasPrefix(l, "panic:"):
			return "fatal", head(l, 120)
		case strings.HasPrefix(l, "runtime: goroutine stack exceeds"):
			return "fatal", "fatal error: stack overflow"
		}
	}
	return "death", "worker died: " + head(strings.TrimSpace(stderr), 80)
}

// readJournal returns the index of the case in flight when the worker died
// (see the slot layout in run.go).
func readJournal(path string) (idx int, desc json.RawMessage, hang bool) {
	idx = -1
	b, err := os.ReadFile(path)
	if err != nil || len(b) < 24 {
		return
	}
	idx = int(get64(b[0:]))
	hang = get64(b[8:]) != 0
	n := int(get64(b[16:]))
	if idx >= 0 && n > 0 && 24+n <= len(b) {
		d := b[24 : 24+n]
		if json.Valid(d) {
			desc = append(json.RawMessage(nil), d...)
		}
	}
	return
}

func splitRaceBlocks(s string) []string {
	var out []string
	parts := strings.Split(s, "==================")
	for _, p := range parts {
		if strings.Contains(p, "WARNING: DATA RACE") {
			out = append(out, strings.TrimSpace(p))
		}
	}
	return out
}

var frameRe = regexp.MustCompile(`(?m)^\s+(github\.com/elastic/go-structform[^\s(]*)`)

func raceSig(blk string) string {
	m := frameRe.FindAllStringSubmatch(blk, -1)
	var fr []string
	for _, x := range m {
		fr = append(fr, strings.TrimPrefix(x[1], "github.com/elastic/go-structform"))
		if len(fr) == 2 {
			break
		}
	}
	if len(fr) == 0 {
		return "race:" + head(blk, 60)
	}
	return "race:" + strings.Join(fr, "|")
}

func (p *parent) merge(j job, res *workerResult, dir string) {
	hb, _ := os.ReadFile(filepath.Join(dir, "hashes"))
	p.mu.Lock()
	defer p.mu.Unlock()
	p.evaluations += res.Evaluations
	p.suites[j.suite.Name].Evaluations += res.Evaluations
	for k, v := range res.Observed {
		p.observed[k] += v
	}
	for k, v := range res.Max {
		if v > p.max[k] {
			p.max[k] = v
		}
	}
	for i := 0; i+8 <= len(hb); i += 8 {
		var h uint64
		for b := 0; b < 8; b++ {
			h |= uint64(hb[i+b]) << (8 * b)
		}
		p.hashes[h] = struct{}{}
	}
	for _, s := range res.Samples {
		if len(p.samples) < 10 {
			p.samples = append(p.samples, s)
		}
	}
	p.violations = append(p.violations, res.Violations...)
}

func (p *parent) writeEvidence(start time.Time, nviol, nsig int, matched []string) {
	cov := map[string]interface{}{
		"evaluations":         p.evaluations,
		"distinct_nontrivial": len(p.hashes),
		"rule":                p.chk.Rule,
		"samples":             p.samples,
		"observed":            p.observed,
		"observed_max":        p.max,
		"suites":              p.suites,
		"worker_deaths":       p.deaths,
	}
	if len(matched) > 0 {
		cov["known_findings_matched"] = matched
	}
	if len(p.inconcl) > 0 {
		cov["inconclusive"] = p.inconcl
	}
	if p.samples == nil {
		cov["samples"] = []interface{}{}
	}
	ev := map[string]interface{}{
		"property_id": p.chk.ID,
		"tier":        p.tier,
		"seed":        p.seed,
		"level":       p.chk.Level,
		"coverage":    cov,
		"assumptions": p.chk.Assumptions,
		"wall_s":      time.Since(start).Seconds(),
		"violations":  nviol,
	}
	b, _ := json.MarshalIndent(ev, "", " ")
	os.MkdirAll(filepath.Join(outDir(p.root), "evidence"), 0o755)
	os.WriteFile(filepath.Join(outDir(p.root), "evidence", p.chk.ID+".json"), append(b, '\n'), 0o644)
}

// ReplayMain re-executes the case of a replay file.
func ReplayMain(path string) int {
	b, err := os.ReadFile(path)
	if err != nil {
		fmt.Fprintln(os.Stderr, err)
		return 2
	}
	var v Violation
	if err := json.Unmarshal(b, &v); err != nil {
		fmt.Fprintln(os.Stderr, err)
		return 2
	}
	chk := Lookup(v.Property)
	if chk == nil {
		fmt.Fprintln(os.Stderr, "unknown property", v.Property)
		return 2
	}
	var s *Suite
	for _, x := range chk.Suites {
		if x.Name == v.Suite {
			s = x
		}
	}
	if s == nil {
		fmt.Fprintln(os.Stderr, "unknown suite", v.Suite)
		return 2
	}
	root := Root()
	if s.Build != "" {
		if err := buildVariant(root, s.Build); err != nil {
			fmt.Fprintln(os.Stderr, err)
			return 2
		}
	}
	cmd := exec.Command(binPath(root, s.Build), "worker", "-prop", v.Property, "-suite", v.Suite,
		"-from", strconv.Itoa(v.Idx), "-to", strconv.Itoa(v.Idx+1), "-seed", strconv.FormatInt(v.Seed, 10), "-tier", v.Tier, "-replay")
	cmd.Env = append(os.Environ(), s.Env...)
	cmd.Stdout, cmd.Stderr = os.Stdout, os.Stderr
	if err := cmd.Run(); err != nil {
		fmt.Printf("VIOLATION property=%s replay=%s\n", v.Property, path)
		return 1
	}
	fmt.Println("replay: case no longer violates the property")
	return 0
}
