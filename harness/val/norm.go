package val

import (
	"math"
	"strconv"
	"strings"
	"unicode/utf8"
)

// FixUTF8 replaces every invalid byte by U+FFFD (Go []rune semantics), which
// is what C01 allows the JSON encoder to do.
func FixUTF8(s string) string {
	if utf8.ValidString(s) {
		return s
	}
	var sb strings.Builder
	for i := 0; i < len(s); {
		r, sz := utf8.DecodeRuneInString(s[i:])
		if r == utf8.RuneError && sz == 1 {
			sb.WriteString("�")
			i++
			continue
		}
		sb.WriteString(s[i : i+sz])
		i += sz
	}
	return sb.String()
}

// HasNonFinite reports whether v contains NaN or ±Inf.
func HasNonFinite(v V) bool {
	switch v.K {
	case F32, F64:
		f := v.Float64()
		return math.IsNaN(f) || math.IsInf(f, 0)
	}
	for _, e := range v.A {
		if HasNonFinite(e) {
			return true
		}
	}
	return false
}

// NormJSON applies the representation changes C01 documents for JSON:
// invalid UTF-8 becomes U+FFFD; with nullNonFinite non-finite floats become
// null.  Numbers are then compared in NumJSON mode.
func NormJSON(v V, nullNonFinite bool) V {
	return Map(v, func(n V) V {
		switch n.K {
		case Str:
			n.S = FixUTF8(n.S)
		case Obj:
			for i := range n.Keys {
				n.Keys[i] = FixUTF8(n.Keys[i])
			}
		case F32, F64:
			f := n.Float64()
			if nullNonFinite && (math.IsNaN(f) || math.IsInf(f, 0)) {
				return VNil()
			}
		}
		return n
	})
}

// NormUBJSON: unsigned integers above MaxInt64 travel as high-precision
// decimal strings.
func NormUBJSON(v V) V {
	return Map(v, func(n V) V {
		if n.K == Int && !n.Neg && n.Mag > math.MaxInt64 {
			return VStr(strconv.FormatUint(n.Mag, 10))
		}
		return n
	})
}

// NormCBOR: nothing changes at value level.
func NormCBOR(v V) V { return v }

// Norm dispatches on the codec name.
func Norm(codec string, v V, nullNonFinite bool) V {
	switch codec {
	case "json":
		return NormJSON(v, nullNonFinite)
	case "ubjson":
		return NormUBJSON(v)
	}
	return v
}

// Mode returns the number comparison mode of a codec.
func Mode(codec string) NumMode {
	if codec == "json" {
		return NumJSON
	}
	return NumExact
}
