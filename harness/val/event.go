package val

import (
	"encoding/json"
	"fmt"
	"math"
	"reflect"
	"sort"
	"strings"

	structform "github.com/elastic/go-structform"
)

type Kind uint8

const (
	EObjStart Kind = iota
	EObjEnd
	EKey
	EArrStart
	EArrEnd
	ENil
	EBool
	EString
	EInt8
	EInt16
	EInt32
	EInt64
	EInt
	EByte
	EUint8
	EUint16
	EUint32
	EUint64
	EUint
	EFloat32
	EFloat64
	EStringRef
	EKeyRef
	// extended: typed arrays
	EBoolArray
	EStringArray
	EInt8Array
	EInt16Array
	EInt32Array
	EInt64Array
	EIntArray
	EBytes
	EUint8Array
	EUint16Array
	EUint32Array
	EUint64Array
	EUintArray
	EFloat32Array
	EFloat64Array
	// extended: typed maps
	EBoolObject
	EStringObject
	EInt8Object
	EInt16Object
	EInt32Object
	EInt64Object
	EIntObject
	EUint8Object
	EUint16Object
	EUint32Object
	EUint64Object
	EUintObject
	EFloat32Object
	EFloat64Object
	NumKinds
)

var kindNames = [...]string{"ObjStart", "ObjEnd", "Key", "ArrStart", "ArrEnd", "Nil", "Bool", "String",
	"Int8", "Int16", "Int32", "Int64", "Int", "Byte", "Uint8", "Uint16", "Uint32", "Uint64", "Uint", "Float32", "Float64",
	"StringRef", "KeyRef",
	"BoolArray", "StringArray", "Int8Array", "Int16Array", "Int32Array", "Int64Array", "IntArray", "Bytes", "Uint8Array",
	"Uint16Array", "Uint32Array", "Uint64Array", "UintArray", "Float32Array", "Float64Array",
	"BoolObject", "StringObject", "Int8Object", "Int16Object", "Int32Object", "Int64Object", "IntObject", "Uint8Object",
	"Uint16Object", "Uint32Object", "Uint64Object", "UintObject", "Float32Object", "Float64Object"}

func (k Kind) String() string {
	if int(k) < len(kindNames) {
		return kindNames[k]
	}
	return fmt.Sprintf("Kind(%d)", k)
}

func (k Kind) IsExtArray() bool  { return k >= EBoolArray && k <= EFloat64Array }
func (k Kind) IsExtObject() bool { return k >= EBoolObject && k <= EFloat64Object }
func (k Kind) IsExtended() bool  { return k >= EStringRef }
func (k Kind) IsKey() bool       { return k == EKey || k == EKeyRef }
func (k Kind) IsScalar() bool    { return (k >= ENil && k <= EFloat64) || k == EStringRef }

// Event is one call on a Visitor.
type Event struct {
	K  Kind
	N  int                 // announced length (starts)
	BT structform.BaseType // announced base type (starts)
	B  bool
	I  int64
	U  uint64
	F  uint64 // float bits
	S  string // strings, keys and by-reference bytes
	X  interface{}
}

type Stream []Event

func (e Event) String() string {
	switch e.K {
	case EObjStart, EArrStart:
		return fmt.Sprintf("%s(%d,%s)", e.K, e.N, e.BT)
	case EObjEnd, EArrEnd, ENil:
		return e.K.String()
	case EBool:
		return fmt.Sprintf("Bool(%v)", e.B)
	case EKey, EString, EStringRef, EKeyRef:
		return fmt.Sprintf("%s(%q)", e.K, clip(e.S))
	case EInt8, EInt16, EInt32, EInt64, EInt:
		return fmt.Sprintf("%s(%d)", e.K, e.I)
	case EByte, EUint8, EUint16, EUint32, EUint64, EUint:
		return fmt.Sprintf("%s(%d)", e.K, e.U)
	case EFloat32:
		return fmt.Sprintf("Float32(%v/%#x)", math.Float32frombits(uint32(e.F)), uint32(e.F))
	case EFloat64:
		return fmt.Sprintf("Float64(%v/%#x)", math.Float64frombits(e.F), e.F)
	}
	return fmt.Sprintf("%s(%s)", e.K, clip(fmt.Sprintf("%v", e.X)))
}

func (s Stream) String() string {
	var sb strings.Builder
	for i, e := range s {
		if i > 0 {
			sb.WriteByte(' ')
		}
		if sb.Len() > 3000 {
			fmt.Fprintf(&sb, "…(+%d events)", len(s)-i)
			break
		}
		sb.WriteString(e.String())
	}
	return sb.String()
}

// jsonEvent is the serialised form used in journals and replay files.
type jsonEvent struct {
	K  string          `json:"k"`
	N  int             `json:"n,omitempty"`
	BT uint8           `json:"bt,omitempty"`
	B  bool            `json:"b,omitempty"`
	I  int64           `json:"i,omitempty"`
	U  uint64          `json:"u,omitempty"`
	F  uint64          `json:"f,omitempty"`
	S  []byte          `json:"s,omitempty"`
	X  json.RawMessage `json:"x,omitempty"`
}

func (s Stream) MarshalJSON() ([]byte, error) {
	out := make([]jsonEvent, len(s))
	for i, e := range s {
		j := jsonEvent{K: e.K.String(), N: e.N, BT: uint8(e.BT), B: e.B, I: e.I, U: e.U, F: e.F, S: []byte(e.S)}
		if e.X != nil {
			j.X = marshalX(e.X)
		}
		out[i] = j
	}
	return json.Marshal(out)
}

// marshalX stores typed payloads losslessly (floats as bit patterns).
func marshalX(x interface{}) json.RawMessage {
	rv := reflect.ValueOf(x)
	conv := func(v reflect.Value) interface{} {
		switch v.Kind() {
		case reflect.Float32:
			return uint64(math.Float32bits(float32(v.Float())))
		case reflect.Float64:
			return math.Float64bits(v.Float())
		case reflect.String:
			return []byte(v.String())
		case reflect.Bool:
			return v.Bool()
		case reflect.Int, reflect.Int8, reflect.Int16, reflect.Int32, reflect.Int64:
			return v.Int()
		default:
			return v.Uint()
		}
	}
	switch rv.Kind() {
	case reflect.Slice:
		out := make([]interface{}, rv.Len())
		for i := range out {
			out[i] = conv(rv.Index(i))
		}
		b, _ := json.Marshal(out)
		return b
	case reflect.Map:
		keys := rv.MapKeys()
		sort.Slice(keys, func(i, j int) bool { return keys[i].String() < keys[j].String() })
		type kv struct {
			K []byte      `json:"k"`
			V interface{} `json:"v"`
		}
		out := make([]kv, len(keys))
		for i, k := range keys {
			out[i] = kv{[]byte(k.String()), conv(rv.MapIndex(k))}
		}
		b, _ := json.Marshal(out)
		return b
	}
	return nil
}

func (s *Stream) UnmarshalJSON(b []byte) error {
	var in []jsonEvent
	if err := json.Unmarshal(b, &in); err != nil {
		return err
	}
	out := make(Stream, len(in))
	for i, j := range in {
		k := Kind(255)
		for n, name := range kindNames {
			if name == j.K {
				k = Kind(n)
			}
		}
		if k == 255 {
			return fmt.Errorf("unknown event kind %q", j.K)
		}
		e := Event{K: k, N: j.N, BT: structform.BaseType(j.BT), B: j.B, I: j.I, U: j.U, F: j.F, S: string(j.S)}
		if k.IsExtArray() || k.IsExtObject() {
			x, err := unmarshalX(k, j.X)
			if err != nil {
				return err
			}
			e.X = x
		}
		out[i] = e
	}
	*s = out
	return nil
}

// ElemType returns the Go element type of an extended event kind.
func ElemType(k Kind) reflect.Type {
	switch k {
	case EBoolArray, EBoolObject:
		return reflect.TypeOf(false)
	case EStringArray, EStringObject:
		return reflect.TypeOf("")
	case EInt8Array, EInt8Object:
		return reflect.TypeOf(int8(0))
	case EInt16Array, EInt16Object:
		return reflect.TypeOf(int16(0))
	case EInt32Array, EInt32Object:
		return reflect.TypeOf(int32(0))
	case EInt64Array, EInt64Object:
		return reflect.TypeOf(int64(0))
	case EIntArray, EIntObject:
		return reflect.TypeOf(int(0))
	case EBytes, EUint8Array, EUint8Object:
		return reflect.TypeOf(uint8(0))
	case EUint16Array, EUint16Object:
		return reflect.TypeOf(uint16(0))
	case EUint32Array, EUint32Object:
		return reflect.TypeOf(uint32(0))
	case EUint64Array, EUint64Object:
		return reflect.TypeOf(uint64(0))
	case EUintArray, EUintObject:
		return reflect.TypeOf(uint(0))
	case EFloat32Array, EFloat32Object:
		return reflect.TypeOf(float32(0))
	case EFloat64Array, EFloat64Object:
		return reflect.TypeOf(float64(0))
	}
	return nil
}

func unmarshalX(k Kind, raw json.RawMessage) (interface{}, error) {
	et := ElemType(k)
	set := func(dst reflect.Value, raw json.RawMessage) error {
		switch et.Kind() {
		case reflect.Bool:
			var b bool
			if err := json.Unmarshal(raw, &b); err != nil {
				return err
			}
			dst.SetBool(b)
		case reflect.String:
			var s []byte
			if err := json.Unmarshal(raw, &s); err != nil {
				return err
			}
			dst.SetString(string(s))
		case reflect.Float32:
			var u uint64
			if err := json.Unmarshal(raw, &u); err != nil {
				return err
			}
			dst.SetFloat(float64(math.Float32frombits(uint32(u))))
		case reflect.Float64:
			var u uint64
			if err := json.Unmarshal(raw, &u); err != nil {
				return err
			}
			dst.SetFloat(math.Float64frombits(u))
		case reflect.Int, reflect.Int8, reflect.Int16, reflect.Int32, reflect.Int64:
			var i int64
			if err := json.Unmarshal(raw, &i); err != nil {
				return err
			}
			dst.SetInt(i)
		default:
			var u uint64
			if err := json.Unmarshal(raw, &u); err != nil {
				return err
			}
			dst.SetUint(u)
		}
		return nil
	}
	if k.IsExtArray() {
		var items []json.RawMessage
		if err := json.Unmarshal(raw, &items); err != nil {
			return nil, err
		}
		sl := reflect.MakeSlice(reflect.SliceOf(et), len(items), len(items))
		for i, it := range items {
			if err := set(sl.Index(i), it); err != nil {
				return nil, err
			}
		}
		return sl.Interface(), nil
	}
	var items []struct {
		K []byte          `json:"k"`
		V json.RawMessage `json:"v"`
	}
	if err := json.Unmarshal(raw, &items); err != nil {
		return nil, err
	}
	m := reflect.MakeMapWithSize(reflect.MapOf(reflect.TypeOf(""), et), len(items))
	for _, it := range items {
		ev := reflect.New(et).Elem()
		if err := set(ev, it.V); err != nil {
			return nil, err
		}
		m.SetMapIndex(reflect.ValueOf(string(it.K)), ev)
	}
	return m.Interface(), nil
}

// ScalarValue returns the V of a scalar event.
func (e Event) ScalarValue() V {
	switch e.K {
	case ENil:
		return VNil()
	case EBool:
		return VBool(e.B)
	case EString, EStringRef:
		return VStr(e.S)
	case EInt8, EInt16, EInt32, EInt64, EInt:
		return VInt(e.I)
	case EByte, EUint8, EUint16, EUint32, EUint64, EUint:
		return VUint(e.U)
	case EFloat32:
		return V{K: F32, Bits: e.F}
	case EFloat64:
		return V{K: F64, Bits: e.F}
	}
	panic("not a scalar event: " + e.K.String())
}

func scalarOf(rv reflect.Value) V {
	switch rv.Kind() {
	case reflect.Bool:
		return VBool(rv.Bool())
	case reflect.String:
		return VStr(rv.String())
	case reflect.Float32:
		return VF32(float32(rv.Float()))
	case reflect.Float64:
		return VF64(rv.Float())
	case reflect.Int, reflect.Int8, reflect.Int16, reflect.Int32, reflect.Int64:
		return VInt(rv.Int())
	default:
		return VUint(rv.Uint())
	}
}

// ExtValue returns the V of an extended array/object event.
func (e Event) ExtValue() V {
	rv := reflect.ValueOf(e.X)
	if e.K.IsExtArray() {
		out := V{K: Arr, A: make([]V, rv.Len())}
		for i := range out.A {
			out.A[i] = scalarOf(rv.Index(i))
		}
		return out
	}
	keys := rv.MapKeys()
	sort.Slice(keys, func(i, j int) bool { return keys[i].String() < keys[j].String() })
	out := V{K: Obj, Unordered: true}
	for _, k := range keys {
		out.Keys = append(out.Keys, k.String())
		out.A = append(out.A, scalarOf(rv.MapIndex(k)))
	}
	return out
}

// Values builds the sequence of top-level values a well-formed stream
// describes.  It returns an error for a malformed stream (harness bug).
func (s Stream) Values() ([]V, error) {
	type frame struct {
		v      V
		key    string
		hasKey bool
	}
	var stack []frame
	var out []V
	add := func(v V) error {
		if len(stack) == 0 {
			out = append(out, v)
			return nil
		}
		top := &stack[len(stack)-1]
		if top.v.K == Obj {
			if !top.hasKey {
				return fmt.Errorf("value without key")
			}
			top.v.Keys = append(top.v.Keys, top.key)
			top.hasKey = false
		}
		top.v.A = append(top.v.A, v)
		return nil
	}
	for i, e := range s {
		var err error
		switch {
		case e.K == EObjStart:
			stack = append(stack, frame{v: V{K: Obj}})
		case e.K == EArrStart:
			stack = append(stack, frame{v: V{K: Arr}})
		case e.K == EObjEnd || e.K == EArrEnd:
			if len(stack) == 0 {
				return nil, fmt.Errorf("event %d: finish without start", i)
			}
			top := stack[len(stack)-1]
			stack = stack[:len(stack)-1]
			if (top.v.K == Obj) != (e.K == EObjEnd) || top.hasKey {
				return nil, fmt.Errorf("event %d: bad finish", i)
			}
			err = add(top.v)
		case e.K.IsKey():
			if len(stack) == 0 || stack[len(stack)-1].v.K != Obj || stack[len(stack)-1].hasKey {
				return nil, fmt.Errorf("event %d: misplaced key", i)
			}
			stack[len(stack)-1].key, stack[len(stack)-1].hasKey = e.S, true
		case e.K.IsScalar():
			err = add(e.ScalarValue())
		case e.K.IsExtArray() || e.K.IsExtObject():
			err = add(e.ExtValue())
		default:
			err = fmt.Errorf("unknown event kind")
		}
		if err != nil {
			return nil, fmt.Errorf("event %d: %v", i, err)
		}
	}
	if len(stack) != 0 {
		return nil, fmt.Errorf("unterminated stream")
	}
	return out, nil
}

// Value is Values for a stream describing exactly one value.
func (s Stream) Value() V {
	vs, err := s.Values()
	if err != nil || len(vs) != 1 {
		panic(fmt.Sprintf("harness: stream is not one value: %v (%d values): %s", err, len(vs), s))
	}
	return vs[0]
}

// Expand replaces extended array/object events by their basic expansion
// (ref events stay as they are unless refs is true, then they become
// String/Key).
func (s Stream) Expand(refs bool) Stream {
	out := make(Stream, 0, len(s))
	for _, e := range s {
		switch {
		case e.K.IsExtArray():
			rv := reflect.ValueOf(e.X)
			out = append(out, Event{K: EArrStart, N: rv.Len(), BT: BaseTypeOf(e.K)})
			for i := 0; i < rv.Len(); i++ {
				out = append(out, ScalarEvent(e.K, rv.Index(i)))
			}
			out = append(out, Event{K: EArrEnd})
		case e.K.IsExtObject():
			rv := reflect.ValueOf(e.X)
			keys := rv.MapKeys()
			sort.Slice(keys, func(i, j int) bool { return keys[i].String() < keys[j].String() })
			out = append(out, Event{K: EObjStart, N: rv.Len(), BT: BaseTypeOf(e.K)})
			for _, k := range keys {
				out = append(out, Event{K: EKey, S: k.String()})
				out = append(out, ScalarEvent(e.K, rv.MapIndex(k)))
			}
			out = append(out, Event{K: EObjEnd})
		case refs && e.K == EStringRef:
			out = append(out, Event{K: EString, S: e.S})
		case refs && e.K == EKeyRef:
			out = append(out, Event{K: EKey, S: e.S})
		default:
			out = append(out, e)
		}
	}
	return out
}

// BaseTypeOf gives the structform base type an extended event implies.
func BaseTypeOf(k Kind) structform.BaseType {
	switch k {
	case EBoolArray, EBoolObject:
		return structform.BoolType
	case EStringArray, EStringObject:
		return structform.StringType
	case EInt8Array, EInt8Object:
		return structform.Int8Type
	case EInt16Array, EInt16Object:
		return structform.Int16Type
	case EInt32Array, EInt32Object:
		return structform.Int32Type
	case EInt64Array, EInt64Object:
		return structform.Int64Type
	case EIntArray, EIntObject:
		return structform.IntType
	case EBytes:
		return structform.ByteType
	case EUint8Array, EUint8Object:
		return structform.Uint8Type
	case EUint16Array, EUint16Object:
		return structform.Uint16Type
	case EUint32Array, EUint32Object:
		return structform.Uint32Type
	case EUint64Array, EUint64Object:
		return structform.Uint64Type
	case EUintArray, EUintObject:
		return structform.UintType
	case EFloat32Array, EFloat32Object:
		return structform.Float32Type
	case EFloat64Array, EFloat64Object:
		return structform.Float64Type
	}
	return structform.AnyType
}

// ScalarEvent builds the basic element event for one element of an extended
// event of kind k.
func ScalarEvent(k Kind, rv reflect.Value) Event {
	switch rv.Kind() {
	case reflect.Bool:
		return Event{K: EBool, B: rv.Bool()}
	case reflect.String:
		return Event{K: EString, S: rv.String()}
	case reflect.Float32:
		return Event{K: EFloat32, F: uint64(math.Float32bits(float32(rv.Float())))}
	case reflect.Float64:
		return Event{K: EFloat64, F: math.Float64bits(rv.Float())}
	case reflect.Int8:
		return Event{K: EInt8, I: rv.Int()}
	case reflect.Int16:
		return Event{K: EInt16, I: rv.Int()}
	case reflect.Int32:
		return Event{K: EInt32, I: rv.Int()}
	case reflect.Int64:
		return Event{K: EInt64, I: rv.Int()}
	case reflect.Int:
		return Event{K: EInt, I: rv.Int()}
	case reflect.Uint8:
		if k == EBytes {
			return Event{K: EByte, U: rv.Uint()}
		}
		return Event{K: EUint8, U: rv.Uint()}
	case reflect.Uint16:
		return Event{K: EUint16, U: rv.Uint()}
	case reflect.Uint32:
		return Event{K: EUint32, U: rv.Uint()}
	case reflect.Uint64:
		return Event{K: EUint64, U: rv.Uint()}
	case reflect.Uint:
		return Event{K: EUint, U: rv.Uint()}
	}
	panic("bad element kind")
}

// FromValue emits a canonical basic stream for v (unknown lengths, widest
// number events).  Used to replay reference values into encoders.
func FromValue(v V, announce bool) Stream {
	var out Stream
	var rec func(v V)
	rec = func(v V) {
		switch v.K {
		case Nil:
			out = append(out, Event{K: ENil})
		case Bool:
			out = append(out, Event{K: EBool, B: v.B})
		case Int:
			if v.Neg {
				out = append(out, Event{K: EInt64, I: v.Int64()})
			} else {
				out = append(out, Event{K: EUint64, U: v.Mag})
			}
		case F32:
			out = append(out, Event{K: EFloat32, F: v.Bits})
		case F64:
			out = append(out, Event{K: EFloat64, F: v.Bits})
		case Str:
			out = append(out, Event{K: EString, S: v.S})
		case Arr:
			n := -1
			if announce {
				n = len(v.A)
			}
			out = append(out, Event{K: EArrStart, N: n})
			for _, e := range v.A {
				rec(e)
			}
			out = append(out, Event{K: EArrEnd})
		case Obj:
			n := -1
			if announce {
				n = len(v.A)
			}
			out = append(out, Event{K: EObjStart, N: n})
			for i, e := range v.A {
				out = append(out, Event{K: EKey, S: v.Keys[i]})
				rec(e)
			}
			out = append(out, Event{K: EObjEnd})
		}
	}
	rec(v)
	return out
}
