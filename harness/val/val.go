// Package val holds the harness' own value model and event model.  Nothing in
// here calls into the library: expected values are built by the harness from
// what the generators decided to emit.
package val

import (
	"fmt"
	"math"
	"sort"
	"strconv"
	"strings"
)

type VK uint8

const (
	Nil VK = iota
	Bool
	Int
	F32
	F64
	Str
	Arr
	Obj
)

func (k VK) String() string {
	return [...]string{"nil", "bool", "int", "f32", "f64", "str", "arr", "obj"}[k]
}

// V is one value.  Integers are sign+magnitude so that the whole range
// -2^64 .. 2^64-1 is representable (Neg && Mag==0 means -2^64).
type V struct {
	K         VK
	B         bool
	Neg       bool
	Mag       uint64
	Bits      uint64 // F32: low 32 bits; F64: all
	S         string
	A         []V      // Arr elements / Obj member values
	Keys      []string // Obj member names (parallel to A)
	Unordered bool     // Obj produced from a Go map: member order is not significant
	IsStruct  bool     // Obj produced from a Go struct (annotation only, never compared)
}

func VNil() V          { return V{K: Nil} }
func VBool(b bool) V   { return V{K: Bool, B: b} }
func VStr(s string) V  { return V{K: Str, S: s} }
func VArr(a ...V) V    { return V{K: Arr, A: a} }
func VF32(f float32) V { return V{K: F32, Bits: uint64(math.Float32bits(f))} }
func VF64(f float64) V { return V{K: F64, Bits: math.Float64bits(f)} }
func VInt(i int64) V {
	if i < 0 {
		return V{K: Int, Neg: true, Mag: uint64(-(i + 1)) + 1}
	}
	return V{K: Int, Mag: uint64(i)}
}
func VUint(u uint64) V { return V{K: Int, Mag: u} }

// VNegMag is -(mag) ; mag==0 means -2^64.
func VNegMag(mag uint64) V { return V{K: Int, Neg: true, Mag: mag} }

func (v V) Float64() float64 {
	if v.K == F32 {
		return float64(math.Float32frombits(uint32(v.Bits)))
	}
	return math.Float64frombits(v.Bits)
}

func (v V) IsIntInInt64() bool {
	if v.K != Int {
		return false
	}
	if v.Neg {
		return v.Mag != 0 && v.Mag <= 1<<63
	}
	return v.Mag <= math.MaxInt64
}

func (v V) Int64() int64 {
	if v.Neg {
		return -int64(v.Mag-1) - 1
	}
	return int64(v.Mag)
}

func (v V) String() string {
	var sb strings.Builder
	v.write(&sb, 0)
	return sb.String()
}

func (v V) write(sb *strings.Builder, depth int) {
	if sb.Len() > 4096 {
		sb.WriteString("…")
		return
	}
	switch v.K {
	case Nil:
		sb.WriteString("nil")
	case Bool:
		fmt.Fprintf(sb, "%v", v.B)
	case Int:
		if v.Neg {
			if v.Mag == 0 {
				sb.WriteString("-18446744073709551616")
			} else {
				sb.WriteString("-" + strconv.FormatUint(v.Mag, 10))
			}
		} else {
			sb.WriteString(strconv.FormatUint(v.Mag, 10))
		}
	case F32:
		fmt.Fprintf(sb, "f32(%v/%#x)", math.Float32frombits(uint32(v.Bits)), uint32(v.Bits))
	case F64:
		fmt.Fprintf(sb, "f64(%v/%#x)", math.Float64frombits(v.Bits), v.Bits)
	case Str:
		fmt.Fprintf(sb, "%q", v.S)
	case Arr:
		sb.WriteByte('[')
		for i, e := range v.A {
			if i > 0 {
				sb.WriteByte(',')
			}
			e.write(sb, depth+1)
		}
		sb.WriteByte(']')
	case Obj:
		sb.WriteByte('{')
		if v.Unordered {
			sb.WriteByte('~')
		}
		for i, e := range v.A {
			if i > 0 {
				sb.WriteByte(',')
			}
			fmt.Fprintf(sb, "%q:", v.Keys[i])
			e.write(sb, depth+1)
		}
		sb.WriteByte('}')
	}
}

// NumMode says how strictly numbers are compared.
type NumMode uint8

const (
	// NumExact: ints exact; floats bit-exact (f32 may widen to f64 with the
	// identical numeric value; NaN matches NaN of the same width bit-exactly,
	// across widths any NaN).  Int never equals Float.
	NumExact NumMode = iota
	// NumJSON: what a decimal text can preserve: an integral float may come
	// back as an integer and vice versa (if exactly equal); f32 expected values
	// are compared after rounding the observed number to float32; -0 == 0.
	NumJSON
	// NumLoose: Go-side conversions (used by gotype round trips): any numeric
	// kinds are equal when they denote the same real number.
	NumLoose
)

// Equal compares expected e with observed o.  The returned string locates the
// first difference ("" = equal).
func Equal(e, o V, m NumMode) string {
	return equalAt(e, o, m, "$")
}

func isNum(k VK) bool { return k == Int || k == F32 || k == F64 }

func equalAt(e, o V, m NumMode, path string) string {
	if isNum(e.K) && isNum(o.K) {
		if numEq(e, o, m) {
			return ""
		}
		return fmt.Sprintf("%s: number %s != %s", path, e, o)
	}
	if e.K != o.K {
		return fmt.Sprintf("%s: kind %s (%s) != %s (%s)", path, e.K, clip(e.String()), o.K, clip(o.String()))
	}
	switch e.K {
	case Nil:
		return ""
	case Bool:
		if e.B != o.B {
			return fmt.Sprintf("%s: bool %v != %v", path, e.B, o.B)
		}
	case Str:
		if e.S != o.S {
			return fmt.Sprintf("%s: string %q != %q", path, clip(e.S), clip(o.S))
		}
	case Arr:
		if len(e.A) != len(o.A) {
			return fmt.Sprintf("%s: array len %d != %d", path, len(e.A), len(o.A))
		}
		for i := range e.A {
			if d := equalAt(e.A[i], o.A[i], m, fmt.Sprintf("%s[%d]", path, i)); d != "" {
				return d
			}
		}
	case Obj:
		if len(e.A) != len(o.A) {
			return fmt.Sprintf("%s: object size %d != %d (%s vs %s)", path, len(e.A), len(o.A), clip(e.String()), clip(o.String()))
		}
		if e.Unordered || o.Unordered {
			ei, oi := sortedIdx(e), sortedIdx(o)
			for n := 0; n < len(ei); {
				// group of equal keys (normalisation may merge distinct map keys)
				k := e.Keys[ei[n]]
				end := n
				for end < len(ei) && e.Keys[ei[end]] == k {
					end++
				}
				for x := n; x < end; x++ {
					if o.Keys[oi[x]] != k {
						return fmt.Sprintf("%s: key set differs: %q vs %q", path, k, o.Keys[oi[x]])
					}
				}
				used := make([]bool, end-n)
				for x := n; x < end; x++ {
					found, first := false, ""
					for y := n; y < end; y++ {
						if used[y-n] {
							continue
						}
						d := equalAt(e.A[ei[x]], o.A[oi[y]], m, fmt.Sprintf("%s.%q", path, k))
						if d == "" {
							used[y-n], found = true, true
							break
						}
						if first == "" {
							first = d
						}
					}
					if !found {
						return first
					}
				}
				n = end
			}
			return ""
		}
		for i := range e.A {
			if e.Keys[i] != o.Keys[i] {
				return fmt.Sprintf("%s: key #%d %q != %q", path, i, clip(e.Keys[i]), clip(o.Keys[i]))
			}
			if d := equalAt(e.A[i], o.A[i], m, fmt.Sprintf("%s.%q", path, clip(e.Keys[i]))); d != "" {
				return d
			}
		}
	}
	return ""
}

func sortedIdx(v V) []int {
	idx := make([]int, len(v.Keys))
	for i := range idx {
		idx[i] = i
	}
	sort.SliceStable(idx, func(a, b int) bool { return v.Keys[idx[a]] < v.Keys[idx[b]] })
	return idx
}

func clip(s string) string {
	if len(s) > 200 {
		return s[:200] + "…"
	}
	return s
}

func numEq(e, o V, m NumMode) bool {
	switch {
	case e.K == Int && o.K == Int:
		return e.Neg == o.Neg && e.Mag == o.Mag || (e.Mag == 0 && o.Mag == 0 && !e.Neg && !o.Neg)
	case e.K != Int && o.K != Int:
		ef, of := e.Float64(), o.Float64()
		if m == NumExact {
			if e.K == o.K {
				return e.Bits == o.Bits
			}
			if math.IsNaN(ef) && math.IsNaN(of) {
				return true
			}
			return math.Float64bits(ef) == math.Float64bits(of)
		}
		if math.IsNaN(ef) || math.IsNaN(of) {
			return math.IsNaN(ef) && math.IsNaN(of)
		}
		if e.K == F32 {
			return float32(of) == float32(ef)
		}
		return ef == of
	}
	if m == NumExact {
		return false
	}
	// one Int, one float
	iv, fv := e, o
	if e.K != Int {
		iv, fv = o, e
	}
	f := fv.Float64()
	if math.IsNaN(f) || math.IsInf(f, 0) || f != math.Trunc(f) {
		return false
	}
	// exact comparison of integer iv with integral float f
	if f == 0 {
		return iv.Mag == 0 && !iv.Neg
	}
	if (f < 0) != iv.Neg {
		return false
	}
	af := math.Abs(f)
	if iv.Neg && iv.Mag == 0 { // -2^64
		return af == 18446744073709551616.0
	}
	if af >= 18446744073709551616.0 {
		return false
	}
	if uint64(af) != iv.Mag {
		return false
	}
	if e.K == F32 && m != NumLoose {
		// expected a float32: the observed integer must round to it
		return true
	}
	return true
}

// Map applies f bottom-up to every node (used by the per-codec normalisers).
func Map(v V, f func(V) V) V {
	switch v.K {
	case Arr, Obj:
		n := v
		n.A = make([]V, len(v.A))
		for i := range v.A {
			n.A[i] = Map(v.A[i], f)
		}
		if v.K == Obj {
			n.Keys = append([]string(nil), v.Keys...)
		}
		return f(n)
	}
	return f(v)
}

// Depth returns the nesting depth (scalar = 0).
func Depth(v V) int {
	d := 0
	for _, e := range v.A {
		if x := Depth(e); x > d {
			d = x
		}
	}
	if v.K == Arr || v.K == Obj {
		return d + 1
	}
	return 0
}

// Count returns the number of nodes.
func Count(v V) int {
	n := 1
	for _, e := range v.A {
		n += Count(e)
	}
	return n
}
