// Package codec gives the three codecs one shape.
package codec

import (
	"io"
	"sync/atomic"

	structform "github.com/elastic/go-structform"
	"github.com/elastic/go-structform/cborl"
	"github.com/elastic/go-structform/json"
	"github.com/elastic/go-structform/ubjson"
)

// Parser is the push parser surface common to the three codecs.
type Parser interface {
	io.Writer
	Parse(b []byte) error
	ParseString(s string) error
}

// Decoder is the pull decoder surface.
type Decoder interface {
	Next() error
}

// JSONOpts are the encoder options of the JSON visitor.
type JSONOpts struct {
	EscapeHTML         bool
	ExplicitRadixPoint bool
	IgnoreInvalidFloat bool
}

func (o JSONOpts) Index() int {
	i := 0
	if o.EscapeHTML {
		i |= 1
	}
	if o.ExplicitRadixPoint {
		i |= 2
	}
	if o.IgnoreInvalidFloat {
		i |= 4
	}
	return i
}

func JSONOptsFromIndex(i int) JSONOpts {
	return JSONOpts{EscapeHTML: i&1 != 0, ExplicitRadixPoint: i&2 != 0, IgnoreInvalidFloat: i&4 != 0}
}

type Codec struct {
	Name            string
	NewVisitor      func(w io.Writer, o JSONOpts) structform.Visitor
	Parse           func(b []byte, v structform.Visitor) error
	ParseString     func(s string, v structform.Visitor) error
	ParseReader     func(r io.Reader, v structform.Visitor) (int64, error)
	NewParser       func(v structform.Visitor) Parser
	NewDecoder      func(r io.Reader, buf int, v structform.Visitor) Decoder
	NewBytesDecoder func(b []byte, v structform.Visitor) Decoder
}

var jsonVisitors uint32

var JSON = &Codec{
	Name: "json",
	NewVisitor: func(w io.Writer, o JSONOpts) structform.Visitor {
		v := json.NewVisitor(w)
		// Defaults (escapeHTML on, the other two off) are left to the
		// constructor on every other call, as a caller who wants the
		// defaults would; and a second, unrelated visitor in the same
		// process is given the opposite options afterwards: instances share
		// no configuration.
		n := atomic.AddUint32(&jsonVisitors, 1)
		if n%2 == 0 || !o.EscapeHTML {
			v.SetEscapeHTML(o.EscapeHTML)
		}
		if n%2 == 0 || o.ExplicitRadixPoint {
			v.SetExplicitRadixPoint(o.ExplicitRadixPoint)
		}
		if n%2 == 0 || o.IgnoreInvalidFloat {
			v.SetIgnoreInvalidFloat(o.IgnoreInvalidFloat)
		}
		by := json.NewVisitor(io.Discard)
		by.SetEscapeHTML(!o.EscapeHTML)
		by.SetExplicitRadixPoint(!o.ExplicitRadixPoint)
		by.SetIgnoreInvalidFloat(!o.IgnoreInvalidFloat)
		return v
	},
	Parse:           json.Parse,
	ParseString:     json.ParseString,
	ParseReader:     json.ParseReader,
	NewParser:       func(v structform.Visitor) Parser { return json.NewParser(v) },
	NewDecoder:      func(r io.Reader, buf int, v structform.Visitor) Decoder { return json.NewDecoder(r, buf, v) },
	NewBytesDecoder: func(b []byte, v structform.Visitor) Decoder { return json.NewBytesDecoder(b, v) },
}

var UBJSON = &Codec{
	Name:            "ubjson",
	NewVisitor:      func(w io.Writer, _ JSONOpts) structform.Visitor { return ubjson.NewVisitor(w) },
	Parse:           ubjson.Parse,
	ParseString:     ubjson.ParseString,
	ParseReader:     ubjson.ParseReader,
	NewParser:       func(v structform.Visitor) Parser { return ubjson.NewParser(v) },
	NewDecoder:      func(r io.Reader, buf int, v structform.Visitor) Decoder { return ubjson.NewDecoder(r, buf, v) },
	NewBytesDecoder: func(b []byte, v structform.Visitor) Decoder { return ubjson.NewBytesDecoder(b, v) },
}

var CBOR = &Codec{
	Name:            "cborl",
	NewVisitor:      func(w io.Writer, _ JSONOpts) structform.Visitor { return cborl.NewVisitor(w) },
	Parse:           cborl.Parse,
	ParseString:     cborl.ParseString,
	ParseReader:     cborl.ParseReader,
	NewParser:       func(v structform.Visitor) Parser { return cborl.NewParser(v) },
	NewDecoder:      func(r io.Reader, buf int, v structform.Visitor) Decoder { return cborl.NewDecoder(r, buf, v) },
	NewBytesDecoder: func(b []byte, v structform.Visitor) Decoder { return cborl.NewBytesDecoder(b, v) },
}

var All = []*Codec{JSON, UBJSON, CBOR}

func ByName(n string) *Codec {
	for _, c := range All {
		if c.Name == n {
			return c
		}
	}
	return nil
}
