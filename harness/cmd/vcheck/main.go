// vcheck: one binary, sub-command per role.
//
//	vcheck run <property> <quick|thorough> [-suite name]   parent: runs all suites in worker processes
//	vcheck worker -prop .. -suite .. -from .. -to ..       worker
//	vcheck replay <file>                                   re-executes the case of a replay file
//	vcheck list                                            lists properties and suites
package main

import (
	"flag"
	"fmt"
	"os"
	"strconv"

	_ "verif/harness/props"
	"verif/harness/run"
)

func main() {
	if len(os.Args) < 2 {
		fmt.Fprintln(os.Stderr, "usage: vcheck run|worker|replay|list ...")
		os.Exit(2)
	}
	switch os.Args[1] {
	case "run":
		fs := flag.NewFlagSet("run", flag.ExitOnError)
		suite := fs.String("suite", "", "run only this suite")
		if len(os.Args) < 4 {
			fmt.Fprintln(os.Stderr, "usage: vcheck run <property> <tier>")
			os.Exit(2)
		}
		fs.Parse(os.Args[4:])
		seed := int64(1)
		if s := os.Getenv("VERIF_SEED"); s != "" {
			if v, err := strconv.ParseInt(s, 10, 64); err == nil {
				seed = v
			}
		}
		tier := os.Args[3]
		if t := os.Getenv("VERIF_TIER"); t == "quick" || t == "thorough" {
			tier = t
		}
		os.Exit(run.ParentMain(os.Args[2], tier, seed, *suite))
	case "worker":
		fs := flag.NewFlagSet("worker", flag.ExitOnError)
		prop := fs.String("prop", "", "")
		suite := fs.String("suite", "", "")
		from := fs.Int("from", 0, "")
		to := fs.Int("to", 0, "")
		seed := fs.Int64("seed", 1, "")
		tier := fs.String("tier", "quick", "")
		out := fs.String("out", "", "")
		replay := fs.Bool("replay", false, "")
		fs.Parse(os.Args[2:])
		os.Exit(run.WorkerMain(*prop, *suite, *from, *to, *seed, *tier, *out, *replay))
	case "replay":
		os.Exit(run.ReplayMain(os.Args[2]))
	case "list":
		for _, id := range run.IDs() {
			c := run.Lookup(id)
			for _, s := range c.Suites {
				fmt.Printf("%s %s build=%q quick=%d thorough=%d\n", id, s.Name, s.Build, s.N("quick"), s.N("thorough"))
			}
		}
	default:
		fmt.Fprintln(os.Stderr, "unknown command", os.Args[1])
		os.Exit(2)
	}
}
