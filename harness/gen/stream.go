package gen

import (
	"math"
	"reflect"

	structform "github.com/elastic/go-structform"

	"verif/harness/val"
)

// StreamOpts steers the event-stream generator.
type StreamOpts struct {
	MaxDepth   int  // maximum nesting
	MaxNodes   int  // soft cap on number of values
	Extended   bool // typed array / typed map events
	Refs       bool // OnStringRef / OnKeyRef
	BadUTF8    bool // strings with invalid UTF-8
	SpecialF   bool // NaN / Inf
	Container  bool // top-level value must be an array or object
	NoDupKeys  bool // never repeat a key inside one object
	NoEmptyKey bool
	TypedBasic bool // announce element types on homogeneous basic arrays
	Deep       bool // occasionally build chains deeper than the pre-allocated stacks
}

type streamGen struct {
	r     *Rand
	o     StreamOpts
	nodes int
	out   val.Stream
}

// Stream generates one well-formed value.
func Stream(r *Rand, o StreamOpts) val.Stream {
	if o.MaxDepth == 0 {
		o.MaxDepth = 5
	}
	if o.MaxNodes == 0 {
		o.MaxNodes = 40
	}
	g := &streamGen{r: r, o: o}
	if o.Deep && r.P(1, 25) {
		g.deepChain(r.Range(30, 90))
		return g.out
	}
	if o.Container {
		g.container(0)
	} else {
		g.value(0)
	}
	return g.out
}

func (g *streamGen) emit(e val.Event) { g.out = append(g.out, e) }

func (g *streamGen) deepChain(depth int) {
	kinds := make([]bool, depth)
	for i := range kinds {
		kinds[i] = g.r.Bool()
		n := -1
		if g.r.Bool() {
			n = 1
		}
		if kinds[i] {
			g.emit(val.Event{K: val.EObjStart, N: n})
			g.emit(val.Event{K: val.EKey, S: Key(g.r, false)})
		} else {
			g.emit(val.Event{K: val.EArrStart, N: n})
		}
	}
	g.scalar()
	for i := depth - 1; i >= 0; i-- {
		if kinds[i] {
			g.emit(val.Event{K: val.EObjEnd})
		} else {
			g.emit(val.Event{K: val.EArrEnd})
		}
	}
}

func (g *streamGen) value(depth int) {
	g.nodes++
	r := g.r
	if depth < g.o.MaxDepth && g.nodes < g.o.MaxNodes && r.P(2, 5) {
		g.container(depth)
		return
	}
	if g.o.Extended && r.P(1, 6) {
		g.extended()
		return
	}
	g.scalar()
}

func (g *streamGen) scalar() {
	r := g.r
	switch r.Intn(10) {
	case 0:
		g.emit(val.Event{K: val.ENil})
	case 1:
		g.emit(val.Event{K: val.EBool, B: r.Bool()})
	case 2, 3:
		s := String(r, g.o.BadUTF8)
		if g.o.Refs && r.Bool() {
			g.emit(val.Event{K: val.EStringRef, S: s})
		} else {
			g.emit(val.Event{K: val.EString, S: s})
		}
	case 4, 5, 6:
		g.emit(IntEvent(r))
	case 7:
		g.emit(val.Event{K: val.EFloat32, F: uint64(Float32Bits(r, g.o.SpecialF))})
	default:
		g.emit(val.Event{K: val.EFloat64, F: Float64Bits(r, g.o.SpecialF)})
	}
}

func (g *streamGen) container(depth int) {
	r := g.r
	n := r.Intn(5)
	if r.P(1, 10) {
		n = r.Range(5, 30)
	}
	if r.P(1, 6) {
		n = 0
	}
	announced := -1
	if r.Bool() {
		announced = n
	}
	if r.Bool() {
		// array
		if g.o.TypedBasic && r.P(1, 4) && n > 0 {
			g.typedBasicArray(n, announced)
			return
		}
		g.emit(val.Event{K: val.EArrStart, N: announced})
		for i := 0; i < n; i++ {
			g.value(depth + 1)
		}
		g.emit(val.Event{K: val.EArrEnd})
		return
	}
	g.emit(val.Event{K: val.EObjStart, N: announced})
	used := map[string]bool{}
	for i := 0; i < n; i++ {
		k := Key(r, g.o.BadUTF8)
		if g.o.NoEmptyKey && k == "" {
			k = "e"
		}
		if g.o.NoDupKeys {
			for used[k] {
				k += "_"
			}
			used[k] = true
		} else if i > 0 && r.P(1, 15) {
			// deliberate duplicate
			for j := len(g.out) - 1; j >= 0; j-- {
				if g.out[j].K.IsKey() {
					k = g.out[j].S
					break
				}
			}
		}
		if g.o.Refs && r.P(1, 3) {
			g.emit(val.Event{K: val.EKeyRef, S: k})
		} else {
			g.emit(val.Event{K: val.EKey, S: k})
		}
		g.value(depth + 1)
	}
	g.emit(val.Event{K: val.EObjEnd})
}

var typedBasic = []struct {
	bt structform.BaseType
	k  val.Kind
}{
	{structform.Int8Type, val.EInt8}, {structform.Int16Type, val.EInt16}, {structform.Int32Type, val.EInt32},
	{structform.Int64Type, val.EInt64}, {structform.IntType, val.EInt}, {structform.ByteType, val.EByte},
	{structform.Uint8Type, val.EUint8}, {structform.Uint16Type, val.EUint16}, {structform.Uint32Type, val.EUint32},
	{structform.Uint64Type, val.EUint64}, {structform.UintType, val.EUint}, {structform.StringType, val.EString},
	{structform.BoolType, val.EBool}, {structform.Float32Type, val.EFloat32}, {structform.Float64Type, val.EFloat64},
}

func (g *streamGen) typedBasicArray(n, announced int) {
	r := g.r
	t := typedBasic[r.Intn(len(typedBasic))]
	g.emit(val.Event{K: val.EArrStart, N: announced, BT: t.bt})
	for i := 0; i < n; i++ {
		g.nodes++
		switch t.k {
		case val.EString:
			g.emit(val.Event{K: val.EString, S: String(r, g.o.BadUTF8)})
		case val.EBool:
			g.emit(val.Event{K: val.EBool, B: r.Bool()})
		case val.EFloat32:
			g.emit(val.Event{K: val.EFloat32, F: uint64(Float32Bits(r, g.o.SpecialF))})
		case val.EFloat64:
			g.emit(val.Event{K: val.EFloat64, F: Float64Bits(r, g.o.SpecialF)})
		default:
			g.emit(IntEventOf(r, t.k))
		}
	}
	g.emit(val.Event{K: val.EArrEnd})
}

// ExtKinds lists all extended array and map event kinds.
var ExtArrayKinds = []val.Kind{val.EBoolArray, val.EStringArray, val.EInt8Array, val.EInt16Array, val.EInt32Array,
	val.EInt64Array, val.EIntArray, val.EBytes, val.EUint8Array, val.EUint16Array, val.EUint32Array, val.EUint64Array,
	val.EUintArray, val.EFloat32Array, val.EFloat64Array}
var ExtObjectKinds = []val.Kind{val.EBoolObject, val.EStringObject, val.EInt8Object, val.EInt16Object, val.EInt32Object,
	val.EInt64Object, val.EIntObject, val.EUint8Object, val.EUint16Object, val.EUint32Object, val.EUint64Object,
	val.EUintObject, val.EFloat32Object, val.EFloat64Object}

func (g *streamGen) extended() {
	r := g.r
	var k val.Kind
	if r.Bool() {
		k = Pick(r, ExtArrayKinds)
	} else {
		k = Pick(r, ExtObjectKinds)
	}
	g.emit(ExtEvent(r, k, -1, g.o.BadUTF8, g.o.SpecialF))
}

// ExtEvent builds an extended event of kind k with n elements (n<0: random
// size incl. empty and nil).
func ExtEvent(r *Rand, k val.Kind, n int, bad, special bool) val.Event {
	nilPayload := false
	if n < 0 && r.P(1, 24) {
		// element counts at the boundaries of the length encodings (1-byte
		// signed / unsigned, 2-byte), rarely the 16-bit ones
		n = Pick(r, []int{23, 24, 25, 127, 128, 129, 200, 255, 256, 257, 78, 93, 125, 35, 36, 91, 123, 334})
		if r.P(1, 12) {
			n = Pick(r, []int{32767, 32768, 65535, 65536})
		}
	}
	if n < 0 {
		switch r.Intn(6) {
		case 0:
			n = 0
			nilPayload = r.Bool()
		case 1:
			n = 1
		case 2:
			n = r.Range(5, 20)
		default:
			n = r.Range(1, 5)
		}
	}
	et := val.ElemType(k)
	mk := func() reflect.Value {
		v := reflect.New(et).Elem()
		switch et.Kind() {
		case reflect.Bool:
			v.SetBool(r.Bool())
		case reflect.String:
			v.SetString(String(r, bad))
		case reflect.Float32:
			v.SetFloat(float64(math.Float32frombits(Float32Bits(r, special))))
		case reflect.Float64:
			v.SetFloat(math.Float64frombits(Float64Bits(r, special)))
		case reflect.Int8:
			v.SetInt(IntEventOf(r, val.EInt8).I)
		case reflect.Int16:
			v.SetInt(IntEventOf(r, val.EInt16).I)
		case reflect.Int32:
			v.SetInt(IntEventOf(r, val.EInt32).I)
		case reflect.Int64, reflect.Int:
			v.SetInt(IntEventOf(r, val.EInt64).I)
		case reflect.Uint8:
			v.SetUint(IntEventOf(r, val.EUint8).U)
		case reflect.Uint16:
			v.SetUint(IntEventOf(r, val.EUint16).U)
		case reflect.Uint32:
			v.SetUint(IntEventOf(r, val.EUint32).U)
		default:
			v.SetUint(IntEventOf(r, val.EUint64).U)
		}
		return v
	}
	if k.IsExtArray() {
		st := reflect.SliceOf(et)
		if nilPayload {
			return val.Event{K: k, X: reflect.Zero(st).Interface()}
		}
		sl := reflect.MakeSlice(st, n, n)
		for i := 0; i < n; i++ {
			sl.Index(i).Set(mk())
		}
		return val.Event{K: k, X: sl.Interface()}
	}
	mt := reflect.MapOf(reflect.TypeOf(""), et)
	if nilPayload {
		return val.Event{K: k, X: reflect.Zero(mt).Interface()}
	}
	m := reflect.MakeMapWithSize(mt, n)
	for i := 0; m.Len() < n && i < 10*n+10; i++ {
		key := Key(r, bad)
		if i > 3*n {
			key += string(rune('a' + r.Intn(26)))
		}
		m.SetMapIndex(reflect.ValueOf(key), mk())
	}
	return val.Event{K: k, X: m.Interface()}
}

// ShortStreams enumerates well-formed one-value streams of at most 3 events
// over a small alphabet with tiny payloads (exhaustive sub-space used as
// prefixes and probes).
func ShortStreams() []val.Stream {
	scalars := []val.Event{
		{K: val.ENil}, {K: val.EBool, B: true}, {K: val.EString, S: "s"}, {K: val.EString, S: ""}, {K: val.EStringRef, S: "r"},
		{K: val.EInt8, I: -3}, {K: val.EInt16, I: 300}, {K: val.EInt32, I: -70000}, {K: val.EInt64, I: 1 << 40}, {K: val.EInt, I: 7},
		{K: val.EByte, U: 9}, {K: val.EUint8, U: 200}, {K: val.EUint16, U: 60000}, {K: val.EUint32, U: 1 << 31}, {K: val.EUint64, U: 1 << 50}, {K: val.EUint, U: 5},
		{K: val.EFloat32, F: uint64(math.Float32bits(1.5))}, {K: val.EFloat64, F: math.Float64bits(-2.25)},
	}
	var ext []val.Event
	for _, k := range ExtArrayKinds {
		et := val.ElemType(k)
		st := reflect.SliceOf(et)
		ext = append(ext, val.Event{K: k, X: reflect.MakeSlice(st, 0, 0).Interface()})
		one := reflect.MakeSlice(st, 2, 2)
		setSmall(one.Index(0), 1)
		setSmall(one.Index(1), 2)
		ext = append(ext, val.Event{K: k, X: one.Interface()})
	}
	for _, k := range ExtObjectKinds {
		et := val.ElemType(k)
		mt := reflect.MapOf(reflect.TypeOf(""), et)
		ext = append(ext, val.Event{K: k, X: reflect.MakeMap(mt).Interface()})
		m := reflect.MakeMap(mt)
		e := reflect.New(et).Elem()
		setSmall(e, 1)
		m.SetMapIndex(reflect.ValueOf("k"), e)
		ext = append(ext, val.Event{K: k, X: m.Interface()})
	}
	var out []val.Stream
	vals := append(append([]val.Event{}, scalars...), ext...)
	for _, v := range vals {
		out = append(out, val.Stream{v})
	}
	for _, n := range []int{-1, 0} {
		out = append(out, val.Stream{{K: val.EArrStart, N: n}, {K: val.EArrEnd}})
		out = append(out, val.Stream{{K: val.EObjStart, N: n}, {K: val.EObjEnd}})
	}
	for _, v := range vals {
		for _, n := range []int{-1, 1} {
			out = append(out, val.Stream{{K: val.EArrStart, N: n}, v, {K: val.EArrEnd}})
		}
	}
	return out
}

func setSmall(v reflect.Value, n int) {
	switch v.Kind() {
	case reflect.Bool:
		v.SetBool(n%2 == 1)
	case reflect.String:
		v.SetString(string(rune('a' + n)))
	case reflect.Float32, reflect.Float64:
		v.SetFloat(float64(n) + 0.5)
	case reflect.Int, reflect.Int8, reflect.Int16, reflect.Int32, reflect.Int64:
		v.SetInt(int64(n))
	default:
		v.SetUint(uint64(n))
	}
}

// WrapDeep nests the value of s below `levels` further containers (objects,
// arrays or alternating), sometimes with siblings before and after the nested
// entry, with known or unknown lengths.
func WrapDeep(r *Rand, s val.Stream, levels int) val.Stream {
	shape := r.Intn(3)
	for i := 0; i < levels; i++ {
		obj := shape == 0 || (shape == 2 && i%2 == 0)
		before, after := r.P(1, 3), r.P(1, 3)
		n := 1
		if before {
			n++
		}
		if after {
			n++
		}
		l := -1
		if r.Bool() {
			l = n
		}
		var out val.Stream
		if obj {
			out = append(out, val.Event{K: val.EObjStart, N: l})
			if before {
				out = append(out, val.Event{K: val.EKey, S: "a_before"}, val.Event{K: val.EInt64, I: int64(i)})
			}
			kk := val.EKey
			if r.Bool() {
				kk = val.EKeyRef
			}
			out = append(out, val.Event{K: kk, S: "n"})
			out = append(out, s...)
			if after {
				out = append(out, val.Event{K: val.EKey, S: "z_after"}, val.Event{K: val.EString, S: "after"})
			}
			out = append(out, val.Event{K: val.EObjEnd})
		} else {
			out = append(out, val.Event{K: val.EArrStart, N: l})
			if before {
				out = append(out, val.Event{K: val.EInt64, I: int64(i)})
			}
			out = append(out, s...)
			if after {
				out = append(out, val.Event{K: val.EString, S: "after"})
			}
			out = append(out, val.Event{K: val.EArrEnd})
		}
		s = out
	}
	return s
}
