package gen

import (
	"strconv"

	"verif/harness/val"
)

// Spines: a generated document is wrapped into D further containers, each
// holding the inner document among 0..2 small siblings before and after it.
// The parsers keep their nesting in pre-allocated stacks of 32 / 64 entries;
// a spine of 20..100 levels whose outer levels still have elements to come
// after the deep child drives the growth of those stacks while every level
// below is still open.

// SpineDepth draws a nesting depth around the 32- and 64-entry boundaries.
func SpineDepth(r *Rand) int {
	switch r.Intn(4) {
	case 0:
		return r.Range(28, 36)
	case 1:
		return r.Range(60, 68)
	default:
		return r.Range(20, 100)
	}
}

func spineKey(i int) string { return string(rune('a' + i)) }

// CBORSpine wraps a well-formed CBOR item (supported subset) into depth
// definite or indefinite arrays and maps.
func CBORSpine(r *Rand, doc []byte, v val.V, depth int) ([]byte, val.V) {
	for d := 0; d < depth; d++ {
		pre, post := r.Intn(3), r.Intn(3)
		n := pre + post + 1
		obj, indef := r.P(1, 3), r.P(1, 3)
		var b []byte
		major := byte(0x80)
		if obj {
			major = 0xa0
		}
		if indef {
			b = append(b, major|0x1f)
		} else {
			b = append(b, major|byte(n))
		}
		out := val.V{K: val.Arr}
		if obj {
			out.K = val.Obj
		}
		for i := 0; i < n; i++ {
			if obj {
				b = append(b, 0x61, byte('a'+i))
				out.Keys = append(out.Keys, spineKey(i))
			}
			if i == pre {
				b = append(b, doc...)
				out.A = append(out.A, v)
			} else {
				b = append(b, byte(i+d%20)) // small unsigned int 0..23
				out.A = append(out.A, val.VUint(uint64(i+d%20)))
			}
		}
		if indef {
			b = append(b, 0xff)
		}
		doc, v = b, out
	}
	return doc, v
}

// UBJSONSpine wraps a UBJSON value (with its marker) into depth plain or
// counted arrays and objects.
func UBJSONSpine(r *Rand, doc []byte, v val.V, depth int) ([]byte, val.V) {
	for d := 0; d < depth; d++ {
		pre, post := r.Intn(3), r.Intn(3)
		n := pre + post + 1
		obj, counted := r.P(1, 3), r.P(1, 3)
		var b []byte
		if obj {
			b = append(b, '{')
		} else {
			b = append(b, '[')
		}
		if counted {
			b = append(b, '#', 'i', byte(n))
		}
		out := val.V{K: val.Arr}
		if obj {
			out.K = val.Obj
		}
		for i := 0; i < n; i++ {
			if obj {
				b = append(b, 'i', 1, byte('a'+i))
				out.Keys = append(out.Keys, spineKey(i))
			}
			if i == pre {
				b = append(b, doc...)
				out.A = append(out.A, v)
			} else {
				b = append(b, 'i', byte(i+d%20))
				out.A = append(out.A, val.VInt(int64(i+d%20)))
			}
		}
		if !counted {
			if obj {
				b = append(b, '}')
			} else {
				b = append(b, ']')
			}
		}
		doc, v = b, out
	}
	return doc, v
}

// JSONSpine wraps a JSON text into depth arrays and objects.
func JSONSpine(r *Rand, text string, v val.V, depth int) (string, val.V) {
	for d := 0; d < depth; d++ {
		pre, post := r.Intn(3), r.Intn(3)
		n := pre + post + 1
		obj := r.P(1, 3)
		sp := ""
		if r.P(1, 4) {
			sp = " "
		}
		b := "["
		out := val.V{K: val.Arr}
		if obj {
			b = "{"
			out.K = val.Obj
		}
		for i := 0; i < n; i++ {
			if i > 0 {
				b += "," + sp
			}
			if obj {
				b += `"` + spineKey(i) + `":` + sp
				out.Keys = append(out.Keys, spineKey(i))
			}
			if i == pre {
				b += text
				out.A = append(out.A, v)
			} else {
				b += strconv.Itoa(i + d%20)
				out.A = append(out.A, val.VInt(int64(i+d%20)))
			}
		}
		if obj {
			b += sp + "}"
		} else {
			b += sp + "]"
		}
		text, v = b, out
	}
	return text, v
}
