package gen

import (
	"verif/harness/val"
)

// Doc is one document of some format together with what the harness knows
// about it.
type Doc struct {
	Codec  string
	Bytes  []byte
	Values []val.V  // expected top-level values (nil if unknown / invalid)
	Tokens [][2]int // byte ranges of multi-byte tokens (foreign docs only)
	Origin string   // "foreign", "own", "hostile:…"
}

// ForeignDoc generates a valid document of the given format with the
// foreign-encoder generators.
func ForeignDoc(r *Rand, codec string, maxDepth, maxNodes int, container bool) Doc {
	d := foreignDoc(r, codec, maxDepth, maxNodes, container)
	if maxDepth >= 4 && r.P(1, 40) {
		return deepWrap(r, d, r.Range(30, 100))
	}
	return d
}

// deepWrap nests a document inside n levels of arrays / single-member
// objects: deeper than the 32/64-entry stacks the parsers pre-allocate.
func deepWrap(r *Rand, d Doc, n int) Doc {
	var pre, post []byte
	for i := 0; i < n; i++ {
		obj := r.Bool()
		switch d.Codec {
		case "json":
			if obj {
				pre = append(pre, []byte(`{"w":`)...)
				post = append([]byte{'}'}, post...)
			} else {
				pre = append(pre, '[')
				post = append([]byte{']'}, post...)
			}
		case "cborl":
			indef := r.Bool()
			switch {
			case obj && indef:
				pre = append(pre, 0xbf, 0x61, 'w')
				post = append([]byte{0xff}, post...)
			case obj:
				pre = append(pre, 0xa1, 0x61, 'w')
			case indef:
				pre = append(pre, 0x9f)
				post = append([]byte{0xff}, post...)
			default:
				pre = append(pre, 0x81)
			}
		default:
			counted := r.Bool()
			switch {
			case obj && counted:
				pre = append(pre, '{', '#', 'i', 1, 'i', 1, 'w')
			case obj:
				pre = append(pre, '{', 'i', 1, 'w')
				post = append([]byte{'}'}, post...)
			case counted:
				pre = append(pre, '[', '#', 'U', 1)
			default:
				pre = append(pre, '[')
				post = append([]byte{']'}, post...)
			}
		}
		_ = obj
	}
	// build the value inside-out is order dependent: wrap in reverse order of pre
	// (the first wrapper written is the outermost); recompute by re-parsing the
	// wrapper kinds from pre is overkill — track kinds instead
	return deepValue(d, pre, post, n)
}

func deepValue(d Doc, pre, post []byte, n int) Doc {
	// kinds are recoverable from pre per codec: scan it
	var kinds []bool // true = object
	switch d.Codec {
	case "json":
		for i := 0; i < len(pre); i++ {
			if pre[i] == '{' {
				kinds = append(kinds, true)
				i += 4
			} else {
				kinds = append(kinds, false)
			}
		}
	case "cborl":
		for i := 0; i < len(pre); i++ {
			if pre[i] == 0xbf || pre[i] == 0xa1 {
				kinds = append(kinds, true)
				i += 2
			} else {
				kinds = append(kinds, false)
			}
		}
	default:
		for i := 0; i < len(pre); i++ {
			switch {
			case pre[i] == '{' && pre[i+1] == '#':
				kinds = append(kinds, true)
				i += 6
			case pre[i] == '{':
				kinds = append(kinds, true)
				i += 3
			case pre[i] == '[' && i+1 < len(pre) && pre[i+1] == '#':
				kinds = append(kinds, false)
				i += 3
			default:
				kinds = append(kinds, false)
			}
		}
	}
	v := d.Values[0]
	for i := len(kinds) - 1; i >= 0; i-- {
		if kinds[i] {
			v = val.V{K: val.Obj, Keys: []string{"w"}, A: []val.V{v}}
		} else {
			v = val.V{K: val.Arr, A: []val.V{v}}
		}
	}
	b := append(append(append([]byte{}, pre...), d.Bytes...), post...)
	return Doc{Codec: d.Codec, Bytes: b, Values: []val.V{v}, Origin: d.Origin + "+deep"}
}

func foreignDoc(r *Rand, codec string, maxDepth, maxNodes int, container bool) Doc {
	switch codec {
	case "json":
		s, v, toks := JSONText(r, JSONTextOpts{MaxDepth: maxDepth, MaxNodes: maxNodes, Container: container, Compact: r.P(1, 3)})
		return Doc{Codec: codec, Bytes: []byte(s), Values: []val.V{v}, Tokens: toks, Origin: "foreign"}
	case "cborl":
		b, v, _, toks := CBORItem(r, CBOROpts{MaxDepth: maxDepth, MaxNodes: maxNodes, Container: container, NonMinimal: true})
		return Doc{Codec: codec, Bytes: b, Values: []val.V{v}, Tokens: toks, Origin: "foreign"}
	default:
		b, v, toks := UBJSONValue(r, UBJSONOpts{MaxDepth: maxDepth, MaxNodes: maxNodes, Container: container, Noops: r.P(1, 4)})
		return Doc{Codec: codec, Bytes: b, Values: []val.V{v}, Tokens: toks, Origin: "foreign"}
	}
}

// ShortForeignDoc tries to produce a document of at most maxLen bytes that
// still contains a multi-byte token.
func ShortForeignDoc(r *Rand, codec string, maxLen int) Doc {
	var best Doc
	for i := 0; i < 200; i++ {
		d := ForeignDoc(r, codec, 2, 2+r.Intn(4), r.Bool())
		if len(d.Bytes) <= maxLen && len(d.Bytes) >= 2 {
			if len(d.Tokens) > 0 {
				return d
			}
			best = d
		}
	}
	if best.Bytes == nil {
		switch codec {
		case "json":
			best = Doc{Codec: codec, Bytes: []byte(`[true]`), Values: []val.V{val.VArr(val.VBool(true))}, Tokens: [][2]int{{1, 5}}, Origin: "foreign"}
		case "cborl":
			best = Doc{Codec: codec, Bytes: []byte{0x81, 0x19, 1, 0}, Values: []val.V{val.VArr(val.VUint(256))}, Tokens: [][2]int{{1, 4}}, Origin: "foreign"}
		default:
			best = Doc{Codec: codec, Bytes: []byte{'[', 'I', 1, 0, ']'}, Values: []val.V{val.VArr(val.VInt(256))}, Tokens: [][2]int{{1, 4}}, Origin: "foreign"}
		}
	}
	return best
}

// Mutate derives a hostile byte string from a valid document.
func Mutate(r *Rand, b []byte, interesting []byte) ([]byte, string) {
	out := append([]byte{}, b...)
	if len(out) == 0 {
		return []byte{Pick(r, interesting)}, "single"
	}
	switch r.Intn(9) {
	case 0: // truncate
		return out[:r.Intn(len(out))], "truncate"
	case 1: // bit flip
		i := r.Intn(len(out))
		out[i] ^= 1 << uint(r.Intn(8))
		return out, "bitflip"
	case 2: // replace byte with interesting byte
		out[r.Intn(len(out))] = Pick(r, interesting)
		return out, "marker-subst"
	case 3: // insert interesting byte
		i := r.Intn(len(out) + 1)
		out = append(out[:i], append([]byte{Pick(r, interesting)}, out[i:]...)...)
		return out, "insert"
	case 4: // delete a byte
		i := r.Intn(len(out))
		return append(out[:i], out[i+1:]...), "delete"
	case 5: // overwrite a run with 0xff / 0x7f / 0x80
		i := r.Intn(len(out))
		n := r.Range(1, 8)
		c := Pick(r, []byte{0xff, 0x7f, 0x80, 0x00})
		for j := i; j < len(out) && j < i+n; j++ {
			out[j] = c
		}
		return out, "run"
	case 6: // splice two halves of the document in swapped order
		i := r.Intn(len(out))
		return append(append([]byte{}, out[i:]...), out[:i]...), "swap"
	case 7: // duplicate a slice
		i := r.Intn(len(out))
		j := i + r.Intn(len(out)-i)
		return append(out[:j], append(append([]byte{}, out[i:j]...), out[j:]...)...), "dup"
	default: // random byte
		out[r.Intn(len(out))] = r.Byte()
		return out, "randbyte"
	}
}

// Interesting bytes per format (markers, structural characters, length
// heads).
var InterestingJSON = []byte(`{}[]:,"\/-+.eE0123456789ntfu ` + "\n\t\x00\x1f\x7f\x80\xc3\xe2\xf0\xff")
var InterestingUBJSON = []byte("ZNTFiUIlLdDHCS[]{}#$\x00\x01\x7f\x80\xff")
var InterestingCBOR = []byte{0x00, 0x17, 0x18, 0x19, 0x1a, 0x1b, 0x1c, 0x1f, 0x20, 0x37, 0x38, 0x39, 0x3a, 0x3b, 0x3c, 0x3f,
	0x40, 0x41, 0x58, 0x5b, 0x5f, 0x60, 0x61, 0x78, 0x7b, 0x7f, 0x80, 0x81, 0x98, 0x9b, 0x9f, 0xa0, 0xa1, 0xb8, 0xbb, 0xbf,
	0xc0, 0xc1, 0xd8, 0xe0, 0xf4, 0xf5, 0xf6, 0xf7, 0xf8, 0xf9, 0xfa, 0xfb, 0xfc, 0xff, 0x01, 0x7f}

func Interesting(codec string) []byte {
	switch codec {
	case "json":
		return InterestingJSON
	case "cborl":
		return InterestingCBOR
	}
	return InterestingUBJSON
}
