package gen

import (
	"fmt"
	"math"
	"reflect"
	"strings"

	"verif/harness/val"
)

// GoTypeOpts steers the Go type generator ("programs" of C09/C11-C15).
type GoTypeOpts struct {
	MaxDepth int
	// InlineStructOnly: inline/squash tags only on struct-kind fields (the only
	// shape the unfolder documents); otherwise also on maps, pointers and
	// interfaces (fold side only).
	InlineStructOnly bool
	// Arrays: also generate fixed-size array kinds (fold side only: arrays are
	// not supported as unfold targets).
	Arrays       bool
	NoInterface  bool
	NoUnexported bool
	NoPtr        bool
	// MaxPtr is the maximum pointer chain length (default 3).
	MaxPtr int
	// Extra are additional leaf types to draw from (zoo types).
	Extra []reflect.Type
}

// NamedKey is a named string type used as map key type: such maps are
// string-keyed maps as far as the library's kind-based dispatch is concerned.
type NamedKey string

var (
	TString   = reflect.TypeOf("")
	TNamedKey = reflect.TypeOf(NamedKey(""))
	TIface    = reflect.TypeOf((*interface{})(nil)).Elem()
)

var scalarTypes = []reflect.Type{
	reflect.TypeOf(false), TString,
	reflect.TypeOf(int(0)), reflect.TypeOf(int8(0)), reflect.TypeOf(int16(0)), reflect.TypeOf(int32(0)), reflect.TypeOf(int64(0)),
	reflect.TypeOf(uint(0)), reflect.TypeOf(uint8(0)), reflect.TypeOf(uint16(0)), reflect.TypeOf(uint32(0)), reflect.TypeOf(uint64(0)),
	reflect.TypeOf(float32(0)), reflect.TypeOf(float64(0)),
}

// ScalarTypes lists the 14 scalar Go types.
func ScalarTypes() []reflect.Type { return scalarTypes }

type TypeGen struct {
	R    *Rand
	O    GoTypeOpts
	ctr  int
	memo []reflect.Type // struct types already built (re-used to get shared sub-types)
}

func NewTypeGen(r *Rand, o GoTypeOpts) *TypeGen {
	if o.MaxDepth == 0 {
		o.MaxDepth = 4
	}
	if o.MaxPtr == 0 {
		o.MaxPtr = 3
	}
	return &TypeGen{R: r, O: o}
}

// Type generates a type.
func (g *TypeGen) Type(depth int) reflect.Type {
	r := g.R
	if depth >= g.O.MaxDepth {
		return g.leaf()
	}
	switch r.Intn(20) {
	case 0, 1, 2, 3, 4, 5, 6, 7:
		return g.leaf()
	case 8, 9:
		if g.O.Arrays && r.P(1, 4) {
			return reflect.ArrayOf(r.Intn(4), g.Type(depth+1))
		}
		return reflect.SliceOf(g.Type(depth + 1))
	case 10, 11:
		if r.P(1, 5) {
			return reflect.MapOf(TNamedKey, g.Type(depth+1))
		}
		return reflect.MapOf(TString, g.Type(depth+1))
	case 12, 13:
		if g.O.NoPtr {
			return g.leaf()
		}
		n := 1
		if r.P(1, 3) {
			n = r.Range(2, g.O.MaxPtr)
		}
		t := g.Type(depth + 1)
		for i := 0; i < n; i++ {
			t = reflect.PtrTo(t)
		}
		return t
	case 14:
		if g.O.NoInterface {
			return g.leaf()
		}
		return TIface
	default:
		return g.Struct(depth)
	}
}

func (g *TypeGen) leaf() reflect.Type {
	r := g.R
	if len(g.O.Extra) > 0 && r.P(1, 6) {
		return Pick(r, g.O.Extra)
	}
	if !g.O.NoInterface && r.P(1, 12) {
		return TIface
	}
	return Pick(r, scalarTypes)
}

// Struct generates a struct type with tagged fields.  Field and tag names are
// unique over the whole generator so that inlining never creates duplicate
// member names.
func (g *TypeGen) Struct(depth int) reflect.Type {
	r := g.R
	if len(g.memo) > 0 && r.P(1, 6) && !g.O.InlineStructOnly {
		// shared sub-types; not for round trips, where inlining the same type
		// twice in one struct makes the unfolder (rightly) refuse duplicates
		return Pick(r, g.memo)
	}
	n := r.Range(1, 5)
	if r.P(1, 10) {
		n = 0
	}
	var fields []reflect.StructField
	for i := 0; i < n; i++ {
		g.ctr++
		name := fmt.Sprintf("F%d", g.ctr)
		ft := g.Type(depth + 1)
		f := reflect.StructField{Name: name, Type: ft}
		if !g.O.NoUnexported && r.P(1, 12) {
			f.Name = fmt.Sprintf("u%d", g.ctr)
			f.PkgPath = "verif/harness/gen"
			fields = append(fields, f)
			continue
		}
		tag := ""
		switch r.Intn(12) {
		case 0, 1, 2:
			tag = ""
		case 3, 4:
			tag = fmt.Sprintf("n%d", g.ctr)
		case 5:
			tag = "-"
		case 6:
			tag = ",omit"
		case 7, 8:
			tag = ",omitempty"
		case 9:
			tag = fmt.Sprintf("n%d,omitempty", g.ctr)
		default:
			// inline: needs an object-like field type
			_, bt := ptrBase(ft)
			// round trips: only freshly generated structs are inlined, so that
			// member names stay unique (zoo structs share field names)
			ok := false
			if !g.O.InlineStructOnly {
				ok = bt.Kind() == reflect.Struct || (bt.Kind() == reflect.Map) || bt == TIface
			}
			if !ok {
				// make it a struct so that the tag is exercised often enough
				if depth+1 < g.O.MaxDepth+1 {
					f.Type = g.Struct(depth + 1)
					ok = true
				}
			}
			if ok {
				tag = Pick(r, []string{",inline", ",squash", " , inline"})
			}
		}
		if tag != "" {
			f.Tag = reflect.StructTag(fmt.Sprintf(`struct:"%s"`, tag))
		}
		fields = append(fields, f)
	}
	t := reflect.StructOf(fields)
	if len(g.memo) < 8 {
		g.memo = append(g.memo, t)
	}
	return t
}

func ptrBase(t reflect.Type) (int, reflect.Type) {
	n := 0
	for t.Kind() == reflect.Ptr {
		t = t.Elem()
		n++
	}
	return n, t
}

// TagOf parses the struct tag of a field the way the documentation
// describes it (name, then options).
type FieldTag struct {
	Name      string
	Omit      bool
	OmitEmpty bool
	Inline    bool
}

func ParseFieldTag(f reflect.StructField) FieldTag {
	raw := f.Tag.Get("struct")
	parts := strings.Split(raw, ",")
	var ft FieldTag
	if parts[0] == "-" {
		ft.Omit = true
		return ft
	}
	ft.Name = strings.TrimSpace(parts[0])
	for _, o := range parts[1:] {
		switch strings.TrimSpace(o) {
		case "omit":
			ft.Omit = true
		case "omitempty":
			ft.OmitEmpty = true
		case "inline", "squash":
			ft.Inline = true
		}
	}
	return ft
}

// ---------------------------------------------------------------------------
// values

type GoValueOpts struct {
	BadUTF8  bool
	SpecialF bool // NaN / Inf
	// ZeroDropped leaves fields that folding drops (unexported, '-', omit) at
	// their zero value, so that a round trip can reproduce the whole value.
	ZeroDropped bool
	// IfaceTypes are the dynamic types interface{} positions draw from
	// (nil = default set).
	IfaceTypes []reflect.Type
	MaxLen     int
	// NoEmptyKeys: map keys are never "".
	NoEmptyKeys bool
	// Exemplars: per type, values drawn with probability 1/3 instead of a
	// random fill (values the random filler would practically never draw).
	Exemplars map[reflect.Type][]interface{}
	// IfaceTypesFor: dynamic types for positions of a specific non-empty
	// interface type (interfaces with methods stay nil otherwise).
	IfaceTypesFor map[reflect.Type][]reflect.Type
}

// DefaultIfaceTypesFor is filled by package zoo for its non-empty interface
// types (used when GoValueOpts.IfaceTypesFor has no entry).
var DefaultIfaceTypesFor = map[reflect.Type][]reflect.Type{}

var defaultIfaceTypes = []reflect.Type{
	reflect.TypeOf(false), TString, reflect.TypeOf(int(0)), reflect.TypeOf(int64(0)), reflect.TypeOf(uint64(0)), reflect.TypeOf(uint8(0)),
	reflect.TypeOf(float64(0)), reflect.TypeOf(float32(0)),
	reflect.TypeOf([]interface{}{}), reflect.TypeOf(map[string]interface{}{}),
	reflect.TypeOf([]int{}), reflect.TypeOf([]string{}), reflect.TypeOf([]float64{}), reflect.TypeOf([]bool{}), reflect.TypeOf([]uint16{}),
	reflect.TypeOf(map[string]int{}), reflect.TypeOf(map[string]string{}), reflect.TypeOf(map[string]bool{}), reflect.TypeOf(map[string]uint64{}),
	reflect.TypeOf(struct {
		A int
		B string `struct:"bee,omitempty"`
	}{}),
	reflect.TypeOf((*int)(nil)), reflect.TypeOf((*string)(nil)),
}

func init() {
	// every []T and map[string]T of the 14 scalar types (each has its own
	// typed event, adapter function and unfolder)
	seen := map[reflect.Type]bool{}
	for _, t := range defaultIfaceTypes {
		seen[t] = true
	}
	for _, e := range scalarTypes {
		for _, t := range []reflect.Type{reflect.SliceOf(e), reflect.MapOf(TString, e)} {
			if !seen[t] {
				defaultIfaceTypes = append(defaultIfaceTypes, t)
			}
		}
	}
}

type ValueGen struct {
	R *Rand
	O GoValueOpts
}

// Value fills a new value of type t.
func (g *ValueGen) Value(t reflect.Type, depth int) reflect.Value {
	v := reflect.New(t).Elem()
	g.fill(v, depth)
	return v
}

func (g *ValueGen) fill(v reflect.Value, depth int) {
	r := g.R
	t := v.Type()
	maxLen := g.O.MaxLen
	if maxLen == 0 {
		maxLen = 4
	}
	if depth > 6 {
		maxLen = 1
	}
	if ex := g.O.Exemplars[t]; ex != nil && r.P(1, 3) {
		v.Set(reflect.ValueOf(Pick(r, ex)))
		return
	}
	switch t.Kind() {
	case reflect.Bool:
		v.SetBool(r.Bool())
	case reflect.String:
		v.SetString(String(r, g.O.BadUTF8))
	case reflect.Int, reflect.Int64:
		v.SetInt(IntEventOf(r, val.EInt64).I)
	case reflect.Int8:
		v.SetInt(IntEventOf(r, val.EInt8).I)
	case reflect.Int16:
		v.SetInt(IntEventOf(r, val.EInt16).I)
	case reflect.Int32:
		v.SetInt(IntEventOf(r, val.EInt32).I)
	case reflect.Uint, reflect.Uint64, reflect.Uintptr:
		v.SetUint(IntEventOf(r, val.EUint64).U)
	case reflect.Uint8:
		v.SetUint(IntEventOf(r, val.EUint8).U)
	case reflect.Uint16:
		v.SetUint(IntEventOf(r, val.EUint16).U)
	case reflect.Uint32:
		v.SetUint(IntEventOf(r, val.EUint32).U)
	case reflect.Float32:
		v.SetFloat(float64(math.Float32frombits(Float32Bits(r, g.O.SpecialF))))
	case reflect.Float64:
		v.SetFloat(math.Float64frombits(Float64Bits(r, g.O.SpecialF)))
	case reflect.Slice:
		switch r.Intn(6) {
		case 0:
			// nil
		case 1:
			v.Set(reflect.MakeSlice(t, 0, 0))
		default:
			n := r.Range(1, maxLen)
			s := reflect.MakeSlice(t, n, n)
			for i := 0; i < n; i++ {
				g.fill(s.Index(i), depth+1)
			}
			v.Set(s)
		}
	case reflect.Array:
		for i := 0; i < v.Len(); i++ {
			g.fill(v.Index(i), depth+1)
		}
	case reflect.Map:
		switch r.Intn(6) {
		case 0:
		case 1:
			v.Set(reflect.MakeMap(t))
		default:
			n := r.Range(1, maxLen)
			m := reflect.MakeMapWithSize(t, n)
			for i := 0; i < n; i++ {
				k := reflect.New(t.Key()).Elem()
				if t.Key().Kind() == reflect.String {
					key := MapKey(r, g.O.BadUTF8)
					if g.O.NoEmptyKeys && key == "" {
						key = "k"
					}
					k.SetString(key)
				} else {
					g.fill(k, depth+1)
				}
				e := reflect.New(t.Elem()).Elem()
				g.fill(e, depth+1)
				m.SetMapIndex(k, e)
			}
			v.Set(m)
		}
	case reflect.Ptr:
		if r.P(1, 4) {
			return
		}
		p := reflect.New(t.Elem())
		g.fill(p.Elem(), depth+1)
		v.Set(p)
	case reflect.Interface:
		if r.P(1, 6) || depth > 12 {
			return
		}
		if t.NumMethod() != 0 {
			ts := g.O.IfaceTypesFor[t]
			if ts == nil {
				ts = DefaultIfaceTypesFor[t]
			}
			if ts == nil {
				return
			}
			dt := Pick(r, ts)
			dv := reflect.New(dt).Elem()
			if dt.Kind() != reflect.Ptr || !r.P(1, 4) {
				g.fill(dv, depth+2) // a quarter of the pointer values stay typed nil pointers
			}
			v.Set(dv)
			return
		}
		types := g.O.IfaceTypes
		if types == nil {
			types = defaultIfaceTypes
		}
		dt := Pick(r, types)
		dv := reflect.New(dt).Elem()
		g.fill(dv, depth+2)
		v.Set(dv)
	case reflect.Struct:
		for i := 0; i < t.NumField(); i++ {
			f := t.Field(i)
			if f.PkgPath != "" {
				continue // unexported: cannot be set through reflection, stays zero
			}
			ft := ParseFieldTag(f)
			if ft.Omit && g.O.ZeroDropped {
				continue
			}
			g.fill(v.Field(i), depth+1)
		}
	}
}

// MapKey returns a key for generated maps: lower-case letters / unicode,
// never of the shape of a generated field name ("f12", "n12") so that an
// inlined map cannot collide with struct members.
func MapKey(r *Rand, bad bool) string {
	switch r.Intn(8) {
	case 0:
		return ""
	case 1, 2, 3:
		return Pick(r, []string{"k", "key", "a.b", "x y", "ключ", "id_", "K", "zz"})
	case 4:
		if bad {
			return "k" + String(r, true)
		}
		return "k" + String(r, false)
	default:
		return fmt.Sprintf("k%d", r.Intn(6))
	}
}
