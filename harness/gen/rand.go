// Package gen holds the deterministic generators.  Everything derives from a
// splitmix64 stream seeded from (VERIF_SEED, suite, case index).
package gen

import "math/bits"

type Rand struct{ s uint64 }

func New(seed uint64) *Rand { return &Rand{s: seed} }

// Mix hashes several words into a seed.
func Mix(words ...uint64) uint64 {
	h := uint64(0x9E3779B97F4A7C15)
	for _, w := range words {
		h ^= w + 0x9E3779B97F4A7C15 + (h << 6) + (h >> 2)
		h = mix64(h)
	}
	return h
}

func HashString(s string) uint64 {
	h := uint64(14695981039346656037)
	for i := 0; i < len(s); i++ {
		h ^= uint64(s[i])
		h *= 1099511628211
	}
	return mix64(h)
}

func HashBytes(b []byte) uint64 {
	h := uint64(14695981039346656037)
	for _, c := range b {
		h ^= uint64(c)
		h *= 1099511628211
	}
	return mix64(h)
}

func mix64(z uint64) uint64 {
	z = (z ^ (z >> 30)) * 0xBF58476D1CE4E5B9
	z = (z ^ (z >> 27)) * 0x94D049BB133111EB
	return z ^ (z >> 31)
}

func (r *Rand) U64() uint64 {
	r.s += 0x9E3779B97F4A7C15
	return mix64(r.s)
}

// Intn returns a value in [0,n).
func (r *Rand) Intn(n int) int {
	if n <= 0 {
		return 0
	}
	hi, _ := bits.Mul64(r.U64(), uint64(n))
	return int(hi)
}

// Range returns a value in [lo,hi].
func (r *Rand) Range(lo, hi int) int { return lo + r.Intn(hi-lo+1) }

func (r *Rand) Bool() bool { return r.U64()&1 == 1 }

// P is true with probability num/den.
func (r *Rand) P(num, den int) bool { return r.Intn(den) < num }

func (r *Rand) Byte() byte { return byte(r.U64()) }

func (r *Rand) Bytes(n int) []byte {
	b := make([]byte, n)
	for i := range b {
		b[i] = r.Byte()
	}
	return b
}

// Fork derives an independent stream.
func (r *Rand) Fork() *Rand { return New(r.U64()) }

func Pick[T any](r *Rand, xs []T) T { return xs[r.Intn(len(xs))] }
