package gen

import (
	"math"
	"strings"
	"unicode/utf8"

	"verif/harness/val"
)

// Boundaries holds magnitudes around which encoders switch width.
var Boundaries = []uint64{0, 1, 23, 24, 127, 128, 255, 256, 32767, 32768, 65535, 65536,
	1<<31 - 1, 1 << 31, 1<<32 - 1, 1 << 32, 1<<53 - 1, 1 << 53, 1<<63 - 1, 1 << 63, math.MaxUint64}

// BoundaryMag returns a magnitude within ±2 of a width boundary.
func BoundaryMag(r *Rand) uint64 {
	b := Pick(r, Boundaries)
	d := uint64(r.Intn(5)) - 2
	return b + d // wraps deliberately
}

type intRange struct {
	k        val.Kind
	min      int64
	max      uint64
	unsigned bool
}

var intKinds = []intRange{
	{val.EInt8, math.MinInt8, math.MaxInt8, false},
	{val.EInt16, math.MinInt16, math.MaxInt16, false},
	{val.EInt32, math.MinInt32, math.MaxInt32, false},
	{val.EInt64, math.MinInt64, math.MaxInt64, false},
	{val.EInt, math.MinInt64, math.MaxInt64, false},
	{val.EByte, 0, math.MaxUint8, true},
	{val.EUint8, 0, math.MaxUint8, true},
	{val.EUint16, 0, math.MaxUint16, true},
	{val.EUint32, 0, math.MaxUint32, true},
	{val.EUint64, 0, math.MaxUint64, true},
	{val.EUint, 0, math.MaxUint64, true},
}

// IntEvent returns an integer event of a random kind with a boundary-biased
// value that fits the kind.
func IntEvent(r *Rand) val.Event {
	return IntEventOf(r, intKinds[r.Intn(len(intKinds))].k)
}

func IntEventOf(r *Rand, k val.Kind) val.Event {
	var ir intRange
	for _, x := range intKinds {
		if x.k == k {
			ir = x
		}
	}
	for {
		var mag uint64
		switch r.Intn(4) {
		case 0:
			mag = r.U64()
		case 1:
			mag = r.U64() >> uint(r.Intn(64))
		default:
			mag = BoundaryMag(r)
		}
		if ir.unsigned {
			if mag <= ir.max {
				return val.Event{K: k, U: mag}
			}
			continue
		}
		neg := r.Bool()
		if neg {
			// value = -mag, needs mag <= -min
			if mag <= uint64(-(ir.min+1))+1 && mag != 0 {
				return val.Event{K: k, I: -int64(mag-1) - 1}
			}
			continue
		}
		if mag <= ir.max {
			return val.Event{K: k, I: int64(mag)}
		}
	}
}

// Float64Bits returns a float64 bit pattern from the class mix.
func Float64Bits(r *Rand, special bool) uint64 {
	for {
		var f float64
		switch r.Intn(12) {
		case 0:
			return 0
		case 1:
			return 1 << 63 // -0
		case 2:
			f = math.SmallestNonzeroFloat64 * float64(1+r.Intn(5))
		case 3:
			f = math.MaxFloat64
		case 4:
			f = float64(int64(BoundaryMag(r)))
		case 5:
			f = float64(r.Intn(2000)-1000) / 8
		case 6:
			if r.P(1, 3) {
				// whole numbers at and next to the integer type boundaries:
				// 2^k and its float neighbours for k = 7, 8, 15, 16, 24, 31, 32, 53, 63, 64
				k := Pick(r, []int{7, 8, 15, 16, 23, 24, 31, 32, 52, 53, 62, 63, 64, 127})
				f = math.Ldexp(1, k)
				switch r.Intn(3) {
				case 0:
					f = math.Nextafter(f, 0)
				case 1:
					f = math.Nextafter(f, math.Inf(1))
				}
				break
			}
			f = float64(r.Intn(200000)-100000) / 1000
		case 7:
			f = Pick(r, []float64{5e-324, 2.2250738585072011e-308, 2.2250738585072014e-308, 1e23, 8.41e21, 1e21, 1e20, 1e-7, 1e-6, 123456789012345680, 0.1, 0.3, 1.0 / 3, 9007199254740993, 1e100, 100000000})
		case 8:
			if !special {
				continue
			}
			return Pick(r, []uint64{0x7FF0000000000000, 0xFFF0000000000000, 0x7FF8000000000000, 0x7FF0000000000001, 0xFFF8000000000001, 0x7FFFFFFFFFFFFFFF})
		default:
			b := r.U64()
			if !special && (b>>52)&0x7FF == 0x7FF {
				continue
			}
			return b
		}
		if r.Bool() {
			f = -f
		}
		return math.Float64bits(f)
	}
}

// Float32Bits returns a float32 bit pattern from the class mix.  NaNs are
// always quiet: a signalling float32 NaN is quieted by any float32<->float64
// conversion (reflect.Value.Float, the typed-slice plumbing of the harness
// itself), which would make the harness, not the library, change the bits.
func Float32Bits(r *Rand, special bool) uint32 {
	b := float32Bits(r, special)
	if b&0x7F800000 == 0x7F800000 && b&0x007FFFFF != 0 {
		b |= 0x00400000
	}
	return b
}

func float32Bits(r *Rand, special bool) uint32 {
	for {
		var f float32
		switch r.Intn(10) {
		case 0:
			return 0
		case 1:
			return 1 << 31
		case 2:
			f = math.SmallestNonzeroFloat32 * float32(1+r.Intn(5))
		case 3:
			f = math.MaxFloat32
		case 4:
			f = float32(r.Intn(1<<24) - 1<<23)
		case 5:
			if r.P(1, 3) {
				// whole numbers at and next to the integer type boundaries
				k := Pick(r, []int{7, 8, 15, 16, 23, 24, 31, 32, 62, 63, 64, 100, 127})
				f = float32(math.Ldexp(1, k))
				switch r.Intn(3) {
				case 0:
					f = math.Nextafter32(f, 0)
				case 1:
					f = math.Nextafter32(f, float32(math.Inf(1)))
				}
				break
			}
			f = float32(r.Intn(2000)-1000) / 8
		case 6:
			if r.P(1, 4) {
				// the two float32 values (of all 2^32) whose shortest float32
				// decimal, read as a float64 and narrowed again, rounds to the
				// neighbouring float32 (double rounding at a midpoint)
				return Pick(r, []uint32{0x15ae43fd, 0x95ae43fd})
			}
			f = Pick(r, []float32{0.1, 0.3, 1.0 / 3, 16777216, 1e10, 1e-10, 3.4e38, 1e8})
		case 7:
			if !special {
				continue
			}
			return Pick(r, []uint32{0x7F800000, 0xFF800000, 0x7FC00000, 0x7F800001, 0xFFC00001})
		default:
			b := uint32(r.U64())
			if !special && (b>>23)&0xFF == 0xFF {
				continue
			}
			return b
		}
		if r.Bool() {
			f = -f
		}
		return math.Float32bits(f)
	}
}

var escapeChars = []string{"\"", "\\", "/", "\b", "\f", "\n", "\r", "\t", "<", ">", "&", "'", "\x00", "\x1f", "\x7f", " ", " ", "é", "€", "\U0001F600", "�", " ", "a", "Z", "0"}
var badUTF8 = []string{"\xff", "\xc0\x80", "\xe2\x82", "\xf0\x9f\x98", "\xed\xa0\x80", "\x80", "\xc3", "\xf8\x88\x80\x80\x80", "\xfe"}

// String returns a string from the class mix.  bad allows invalid UTF-8.
func String(r *Rand, bad bool) string {
	switch r.Intn(14) {
	case 0:
		return ""
	case 1:
		return Pick(r, []string{"a", "key", "value", "hello world", "0", "null", "true"})
	case 2:
		n := r.Range(1, 12)
		var sb strings.Builder
		for i := 0; i < n; i++ {
			sb.WriteByte(byte('a' + r.Intn(26)))
		}
		return sb.String()
	case 3, 4, 5:
		n := r.Range(1, 8)
		var sb strings.Builder
		for i := 0; i < n; i++ {
			sb.WriteString(Pick(r, escapeChars))
		}
		return sb.String()
	case 6:
		// random valid runes
		n := r.Range(1, 10)
		var sb strings.Builder
		for i := 0; i < n; i++ {
			var ru rune
			switch r.Intn(4) {
			case 0:
				ru = rune(r.Intn(0x80))
			case 1:
				ru = rune(0x80 + r.Intn(0x800-0x80))
			case 2:
				ru = rune(0x800 + r.Intn(0x10000-0x800))
				if ru >= 0xD800 && ru < 0xE000 {
					ru = 0xE000
				}
			default:
				ru = rune(0x10000 + r.Intn(0x100000))
			}
			sb.WriteRune(ru)
		}
		return sb.String()
	case 7:
		if !bad {
			return "plain"
		}
		// arbitrary bytes
		return string(r.Bytes(r.Range(1, 10)))
	case 8:
		if !bad {
			return "x"
		}
		n := r.Range(1, 5)
		var sb strings.Builder
		for i := 0; i < n; i++ {
			if r.Bool() {
				sb.WriteString(Pick(r, badUTF8))
			} else {
				sb.WriteString(Pick(r, escapeChars))
			}
		}
		return sb.String()
	case 9:
		// longer than the parsers' 64-byte inline buffers
		n := r.Range(60, 140)
		var sb strings.Builder
		for sb.Len() < n {
			if r.P(1, 10) {
				sb.WriteString(Pick(r, escapeChars))
			} else {
				sb.WriteByte(byte('a' + r.Intn(26)))
			}
		}
		return sb.String()
	case 10:
		if r.P(1, 8) {
			n := r.Range(4000, 9000)
			return strings.Repeat(Pick(r, []string{"x", "ab", "é", "\n", "\""}), n/2)
		}
		return strings.Repeat("q", r.Range(250, 300))
	case 11:
		// a string that ends with / begins with a multi-byte rune next to an escape
		return Pick(r, escapeChars) + Pick(r, []string{"é", "€", "\U0001F600"}) + Pick(r, escapeChars)
	default:
		return Pick(r, []string{"id", "name", "ts", "a.b", "x y", "ключ", "日本"})
	}
}

// ValidUTF8 reports whether s is valid UTF-8.
func ValidUTF8(s string) bool { return utf8.ValidString(s) }

// Key returns an object key.
func Key(r *Rand, bad bool) string {
	if r.P(1, 12) {
		return ""
	}
	if r.P(1, 2) {
		return Pick(r, []string{"a", "b", "c", "id", "name", "value", "k1", "k2"})
	}
	return String(r, bad)
}
