package gen

import (
	"encoding/binary"
	"math"
	"strconv"

	"verif/harness/val"
)

// ---------------------------------------------------------------------------
// CBOR

type CBOROpts struct {
	MaxDepth  int
	MaxNodes  int
	Container bool
	// Unsupported injects exactly one feature outside the library's subset at
	// a random position ("" = none): "tag", "half", "indef-string",
	// "nontext-key", "neg-below-int64", "simple".
	Unsupported string
	// NonMinimal allows non-minimal argument widths.
	NonMinimal bool
	NoBytes    bool // no byte strings
}

type cborGen struct {
	r        *Rand
	o        CBOROpts
	b        []byte
	nodes    int
	injectAt int
	injected bool
	Tokens   [][2]int
}

// CBORItem generates one well-formed CBOR item and its value.
func CBORItem(r *Rand, o CBOROpts) ([]byte, val.V, bool, [][2]int) {
	if o.MaxDepth == 0 {
		o.MaxDepth = 5
	}
	if o.MaxNodes == 0 {
		o.MaxNodes = 40
	}
	g := &cborGen{r: r, o: o, injectAt: -1}
	if o.Unsupported != "" {
		g.injectAt = r.Intn(6)
	}
	var v val.V
	if o.Container {
		v = g.container(0)
	} else {
		v = g.value(0)
	}
	if o.Unsupported != "" && !g.injected {
		// document too small to reach the injection point: wrap it
		orig := g.b
		g.b = nil
		g.injectAt = 0
		g.inject()
		inj := g.b
		g.b = append(append([]byte{0x82}, orig...), inj...)
		g.Tokens = nil
		v = val.VArr(v, val.VNil())
	}
	return g.b, v, g.injected, g.Tokens
}

// head writes major type + argument using width w (0 = minimal; 1,2,4,8 =
// that many argument bytes; must be able to hold arg).
func (g *cborGen) head(major byte, arg uint64) {
	start := len(g.b)
	w := minimalWidth(arg)
	if g.o.NonMinimal && g.r.P(1, 3) {
		ws := []int{0, 1, 2, 4, 8}
		for {
			c := Pick(g.r, ws)
			if c >= w {
				w = c
				break
			}
		}
	}
	switch w {
	case 0:
		g.b = append(g.b, major<<5|byte(arg))
	case 1:
		g.b = append(g.b, major<<5|24, byte(arg))
	case 2:
		g.b = append(g.b, major<<5|25, byte(arg>>8), byte(arg))
	case 4:
		g.b = append(g.b, major<<5|26)
		g.b = binary.BigEndian.AppendUint32(g.b, uint32(arg))
	default:
		g.b = append(g.b, major<<5|27)
		g.b = binary.BigEndian.AppendUint64(g.b, arg)
	}
	if len(g.b)-start > 1 {
		g.Tokens = append(g.Tokens, [2]int{start, len(g.b)})
	}
}

func minimalWidth(arg uint64) int {
	switch {
	case arg < 24:
		return 0
	case arg <= math.MaxUint8:
		return 1
	case arg <= math.MaxUint16:
		return 2
	case arg <= math.MaxUint32:
		return 4
	}
	return 8
}

func (g *cborGen) inject() bool {
	if g.o.Unsupported == "" || g.injected {
		return false
	}
	if g.nodes < g.injectAt {
		return false
	}
	g.injected = true
	switch g.o.Unsupported {
	case "tag":
		g.head(6, Pick(g.r, []uint64{0, 1, 2, 24, 32, 55799, 1 << 40}))
		g.b = append(g.b, 0x01)
	case "half":
		g.b = append(g.b, 0xf9, g.r.Byte(), g.r.Byte())
	case "indef-string":
		if g.r.Bool() {
			g.b = append(g.b, 0x7f, 0x61, 'a', 0x62, 'b', 'c', 0xff)
		} else {
			g.b = append(g.b, 0x5f, 0x41, 1, 0xff)
		}
	case "neg-below-int64":
		g.b = append(g.b, 0x3b)
		g.b = binary.BigEndian.AppendUint64(g.b, Pick(g.r, []uint64{1 << 63, 1<<63 + 1, math.MaxUint64, math.MaxUint64 - 1, 1<<63 + g.r.U64()>>1}))
	case "simple":
		if g.r.Bool() {
			g.b = append(g.b, 0xe0|byte(g.r.Intn(20)))
		} else {
			g.b = append(g.b, 0xf8, byte(32+g.r.Intn(224)))
		}
	case "nontext-key":
		// a map with a non-text key
		g.b = append(g.b, 0xa1)
		switch g.r.Intn(4) {
		case 0:
			g.b = append(g.b, 0x01)
		case 1:
			g.b = append(g.b, 0x41, 'k')
		case 2:
			g.b = append(g.b, 0x80)
		default:
			g.b = append(g.b, 0xf6)
		}
		g.b = append(g.b, 0x02)
	}
	return true
}

func (g *cborGen) value(depth int) val.V {
	if g.inject() {
		return val.VNil()
	}
	g.nodes++
	r := g.r
	if depth < g.o.MaxDepth && g.nodes < g.o.MaxNodes && r.P(2, 5) {
		return g.container(depth)
	}
	switch r.Intn(12) {
	case 0:
		g.b = append(g.b, 0xf6)
		return val.VNil()
	case 1:
		g.b = append(g.b, 0xf7) // undefined
		return val.VNil()
	case 2:
		b := r.Bool()
		if b {
			g.b = append(g.b, 0xf5)
		} else {
			g.b = append(g.b, 0xf4)
		}
		return val.VBool(b)
	case 3, 4:
		u := cborMag(r)
		g.head(0, u)
		return val.VUint(u)
	case 5, 6:
		u := cborMag(r)
		if u > math.MaxInt64 {
			u >>= 1
		}
		g.head(1, u)
		return val.VNegMag(u + 1)
	case 7:
		bits := Float32Bits(r, true)
		start := len(g.b)
		g.b = append(g.b, 0xfa)
		g.b = binary.BigEndian.AppendUint32(g.b, bits)
		g.Tokens = append(g.Tokens, [2]int{start, len(g.b)})
		return val.V{K: val.F32, Bits: uint64(bits)}
	case 8:
		bits := Float64Bits(r, true)
		start := len(g.b)
		g.b = append(g.b, 0xfb)
		g.b = binary.BigEndian.AppendUint64(g.b, bits)
		g.Tokens = append(g.Tokens, [2]int{start, len(g.b)})
		return val.V{K: val.F64, Bits: bits}
	case 9:
		if g.o.NoBytes {
			g.b = append(g.b, 0x00)
			return val.VUint(0)
		}
		data := r.Bytes(r.Intn(6))
		if r.P(1, 8) {
			data = r.Bytes(r.Range(20, 300))
		}
		start := len(g.b)
		g.head(2, uint64(len(data)))
		g.b = append(g.b, data...)
		if len(data) > 0 {
			g.Tokens = append(g.Tokens, [2]int{start, len(g.b)})
		}
		out := val.V{K: val.Arr, A: make([]val.V, len(data))}
		for i, c := range data {
			out.A[i] = val.VUint(uint64(c))
		}
		return out
	default:
		s := String(r, true)
		g.text(s)
		return val.VStr(s)
	}
}

func (g *cborGen) text(s string) {
	start := len(g.b)
	g.head(3, uint64(len(s)))
	g.b = append(g.b, s...)
	if len(g.b)-start > 1 {
		g.Tokens = append(g.Tokens, [2]int{start, len(g.b)})
	}
}

func cborMag(r *Rand) uint64 {
	switch r.Intn(4) {
	case 0:
		return r.U64()
	case 1:
		return r.U64() >> uint(r.Intn(64))
	}
	return BoundaryMag(r)
}

func (g *cborGen) container(depth int) val.V {
	r := g.r
	n := r.Intn(5)
	if r.P(1, 6) {
		n = 0
	}
	if r.P(1, 12) {
		n = r.Range(20, 40)
	}
	indef := r.P(1, 3)
	if r.Bool() {
		out := val.V{K: val.Arr}
		if indef {
			g.b = append(g.b, 0x9f)
		} else {
			g.head(4, uint64(n))
		}
		for i := 0; i < n; i++ {
			out.A = append(out.A, g.value(depth+1))
		}
		if indef {
			g.b = append(g.b, 0xff)
		}
		return out
	}
	out := val.V{K: val.Obj}
	if indef {
		g.b = append(g.b, 0xbf)
	} else {
		g.head(5, uint64(n))
	}
	for i := 0; i < n; i++ {
		k := Key(r, true)
		g.text(k)
		out.Keys = append(out.Keys, k)
		out.A = append(out.A, g.value(depth+1))
	}
	if indef {
		g.b = append(g.b, 0xff)
	}
	return out
}

// ---------------------------------------------------------------------------
// UBJSON

type UBJSONOpts struct {
	MaxDepth  int
	MaxNodes  int
	Container bool
	Noops     bool // no-op markers between elements of plain arrays and between top-level values
	NoTyped   bool
}

type ubjGen struct {
	r      *Rand
	o      UBJSONOpts
	b      []byte
	nodes  int
	Tokens [][2]int
}

// UBJSONValue generates one valid draft-12 value and its value.
func UBJSONValue(r *Rand, o UBJSONOpts) ([]byte, val.V, [][2]int) {
	if o.MaxDepth == 0 {
		o.MaxDepth = 5
	}
	if o.MaxNodes == 0 {
		o.MaxNodes = 40
	}
	g := &ubjGen{r: r, o: o}
	var v val.V
	if o.Container {
		v = g.containerWithMarker(0)
	} else {
		v = g.value(0)
	}
	return g.b, v, g.Tokens
}

// writeLen writes a length with a randomly chosen integer marker able to
// hold it.
func (g *ubjGen) writeLen(n int) {
	start := len(g.b)
	ms := []byte{'i', 'U', 'I', 'l', 'L'}
	for {
		m := Pick(g.r, ms)
		if g.r.P(2, 3) {
			// minimal
			switch {
			case n <= 127:
				m = 'i'
			case n <= 255:
				m = 'U'
			case n <= 32767:
				m = 'I'
			default:
				m = 'l'
			}
		}
		switch m {
		case 'i':
			if n > 127 {
				continue
			}
			g.b = append(g.b, 'i', byte(n))
		case 'U':
			if n > 255 {
				continue
			}
			g.b = append(g.b, 'U', byte(n))
		case 'I':
			if n > 32767 {
				continue
			}
			g.b = append(g.b, 'I', byte(n>>8), byte(n))
		case 'l':
			g.b = append(g.b, 'l')
			g.b = binary.BigEndian.AppendUint32(g.b, uint32(n))
		case 'L':
			g.b = append(g.b, 'L')
			g.b = binary.BigEndian.AppendUint64(g.b, uint64(n))
		}
		break
	}
	g.Tokens = append(g.Tokens, [2]int{start, len(g.b)})
}

func (g *ubjGen) str(s string) {
	start := len(g.b)
	g.writeLen(len(s))
	g.b = append(g.b, s...)
	g.Tokens = append(g.Tokens, [2]int{start, len(g.b)})
}

// markerLen occasionally pads s to a length whose byte value is itself a
// UBJSON marker ('}' = 125, ']' = 93, '#', '$', 'N', ...): a length byte
// that looks like a marker must never be taken for one, wherever a chunk
// boundary falls.
func markerLen(r *Rand, s string) string {
	if !r.P(1, 12) {
		return s
	}
	n := int(Pick(r, []byte{'}', ']', '{', '[', '#', '$', 'N', 'Z', 'S', 'i', 'U'}))
	for len(s) < n {
		s += "x"
	}
	return s
}

var ubjScalarMarkers = []byte{'Z', 'T', 'F', 'i', 'U', 'I', 'l', 'L', 'd', 'D', 'C', 'S', 'H'}

// scalarPayload writes the payload of a scalar of marker m (without marker).
func (g *ubjGen) scalarPayload(m byte) val.V {
	r := g.r
	start := len(g.b)
	defer func() {
		if len(g.b)-start > 1 {
			g.Tokens = append(g.Tokens, [2]int{start, len(g.b)})
		}
	}()
	switch m {
	case 'Z':
		return val.VNil()
	case 'T':
		return val.VBool(true)
	case 'F':
		return val.VBool(false)
	case 'i':
		v := IntEventOf(r, val.EInt8).I
		g.b = append(g.b, byte(v))
		return val.VInt(v)
	case 'U':
		v := IntEventOf(r, val.EUint8).U
		g.b = append(g.b, byte(v))
		return val.VUint(v)
	case 'I':
		v := IntEventOf(r, val.EInt16).I
		g.b = binary.BigEndian.AppendUint16(g.b, uint16(v))
		return val.VInt(v)
	case 'l':
		v := IntEventOf(r, val.EInt32).I
		g.b = binary.BigEndian.AppendUint32(g.b, uint32(v))
		return val.VInt(v)
	case 'L':
		v := IntEventOf(r, val.EInt64).I
		g.b = binary.BigEndian.AppendUint64(g.b, uint64(v))
		return val.VInt(v)
	case 'd':
		bits := Float32Bits(r, true)
		g.b = binary.BigEndian.AppendUint32(g.b, bits)
		return val.V{K: val.F32, Bits: uint64(bits)}
	case 'D':
		bits := Float64Bits(r, true)
		g.b = binary.BigEndian.AppendUint64(g.b, bits)
		return val.V{K: val.F64, Bits: bits}
	case 'C':
		c := r.Byte() & 0x7f // draft 12: a char is at most 127
		g.b = append(g.b, c)
		return val.VUint(uint64(c))
	case 'S':
		s := markerLen(r, String(r, true))
		g.str(s)
		return val.VStr(s)
	case 'H':
		s := Pick(r, []string{"0", "-1", "3.14159265358979323846264338327950288", "18446744073709551616", "1e400", "-123456789012345678901234567890", strconv.FormatUint(r.U64(), 10)})
		g.str(s)
		return val.VStr(s)
	}
	panic("bad scalar marker")
}

func (g *ubjGen) value(depth int) val.V {
	g.nodes++
	r := g.r
	if depth < g.o.MaxDepth && g.nodes < g.o.MaxNodes && r.P(2, 5) {
		return g.containerWithMarker(depth)
	}
	m := Pick(r, ubjScalarMarkers)
	g.b = append(g.b, m)
	return g.scalarPayload(m)
}

func (g *ubjGen) containerWithMarker(depth int) val.V {
	obj := g.r.Bool()
	if obj {
		g.b = append(g.b, '{')
	} else {
		g.b = append(g.b, '[')
	}
	return g.containerBody(obj, depth)
}

// containerBody writes everything after the '[' / '{' marker.
func (g *ubjGen) containerBody(obj bool, depth int) val.V {
	r := g.r
	out := val.V{K: val.Arr}
	if obj {
		out.K = val.Obj
	}
	n := r.Intn(5)
	if r.P(1, 6) {
		n = 0
	}
	if r.P(1, 12) {
		n = r.Range(10, 40)
	}
	if r.P(1, 30) && g.nodes < 400 {
		// element counts whose byte value is itself a marker ('N' = 78,
		// ']' = 93, '}' = 125, '#', '$', '[', '{', 'S', 'Z', 'T', 'F', 'i')
		// or contains one in a wider encoding (334 = 0x014E)
		n = Pick(r, []int{78, 93, 125, 35, 36, 91, 123, 83, 90, 84, 70, 105, 334, 20000 + 78})
		if n > 1000 && !r.P(1, 10) {
			n = 78
		}
	}
	mode := r.Intn(3) // 0 plain, 1 counted, 2 typed+counted
	if g.o.NoTyped && mode == 2 {
		mode = 1
	}
	if depth >= g.o.MaxDepth+2 {
		mode = r.Intn(2)
	}
	var typ byte
	if mode == 2 {
		ms := append([]byte{}, ubjScalarMarkers...)
		if depth < g.o.MaxDepth {
			ms = append(ms, '[', '{', '[', '{')
		}
		typ = Pick(r, ms)
		if (typ == 'Z' || typ == 'T' || typ == 'F') && n > 60 {
			n = 60 // zero-width elements: a large count is the recorded amplification finding, not a C06 document
		}
		g.b = append(g.b, '$', typ)
	}
	if mode >= 1 {
		g.b = append(g.b, '#')
		g.writeLen(n)
	}
	for i := 0; i < n; i++ {
		if obj {
			if mode != 2 && g.o.Noops {
				// no-ops between members (where the next key is expected)
				for r.P(1, 6) {
					g.b = append(g.b, 'N')
				}
			}
			k := markerLen(r, Key(r, true))
			g.str(k)
			out.Keys = append(out.Keys, k)
		}
		if mode != 2 && g.o.Noops {
			// no-ops in value position: before array elements and before
			// the value of an object field (plain and counted containers)
			for r.P(1, 5) {
				g.b = append(g.b, 'N')
			}
		}
		var v val.V
		switch {
		case mode == 2 && (typ == '[' || typ == '{'):
			g.nodes++
			v = g.containerBody(typ == '{', depth+1)
		case mode == 2:
			g.nodes++
			v = g.scalarPayload(typ)
		default:
			v = g.value(depth + 1)
		}
		out.A = append(out.A, v)
	}
	if mode == 0 {
		if g.o.Noops {
			for r.P(1, 5) {
				g.b = append(g.b, 'N')
			}
		}
		if obj {
			g.b = append(g.b, '}')
		} else {
			g.b = append(g.b, ']')
		}
	}
	return out
}
