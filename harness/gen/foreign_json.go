package gen

import (
	"fmt"
	"math"
	"math/big"
	"strconv"
	"strings"
	"unicode/utf8"

	"verif/harness/ref"
	"verif/harness/val"
)

// JSONTextOpts steers the RFC 8259 text generator.
type JSONTextOpts struct {
	MaxDepth  int
	MaxNodes  int
	Container bool // top-level must be array/object
	BigNums   bool // integer literals outside 64 bits, floats beyond float64
	Compact   bool // no insignificant whitespace
}

type jsonGen struct {
	r     *Rand
	o     JSONTextOpts
	sb    strings.Builder
	nodes int
	// Tokens records (start,end) byte ranges of multi-byte tokens for the
	// chunking monitors.
	Tokens [][2]int
}

// JSONText generates one valid RFC 8259 text and the value it denotes.
func JSONText(r *Rand, o JSONTextOpts) (string, val.V, [][2]int) {
	if o.MaxDepth == 0 {
		o.MaxDepth = 5
	}
	if o.MaxNodes == 0 {
		o.MaxNodes = 40
	}
	g := &jsonGen{r: r, o: o}
	g.ws()
	var v val.V
	if o.Container {
		v = g.container(0)
	} else {
		v = g.value(0)
	}
	g.ws()
	return g.sb.String(), v, g.Tokens
}

func (g *jsonGen) ws() {
	if g.o.Compact {
		return
	}
	for g.r.P(1, 3) {
		g.sb.WriteByte(Pick(g.r, []byte{' ', ' ', '\n', '\t', '\r'}))
	}
}

func (g *jsonGen) tok(s string) {
	start := g.sb.Len()
	g.sb.WriteString(s)
	if len(s) > 1 {
		g.Tokens = append(g.Tokens, [2]int{start, g.sb.Len()})
	}
}

func (g *jsonGen) value(depth int) val.V {
	g.nodes++
	r := g.r
	if depth < g.o.MaxDepth && g.nodes < g.o.MaxNodes && r.P(2, 5) {
		return g.container(depth)
	}
	switch r.Intn(9) {
	case 0:
		g.tok("null")
		return val.VNil()
	case 1:
		g.tok("true")
		return val.VBool(true)
	case 2:
		g.tok("false")
		return val.VBool(false)
	case 3, 4, 5:
		return g.number()
	default:
		s, v := JSONStringLiteral(r)
		g.tok(s)
		return val.VStr(v)
	}
}

func (g *jsonGen) container(depth int) val.V {
	r := g.r
	n := r.Intn(5)
	if r.P(1, 6) {
		n = 0
	}
	if r.P(1, 12) {
		n = r.Range(5, 25)
	}
	if r.Bool() {
		out := val.V{K: val.Arr}
		g.sb.WriteByte('[')
		g.ws()
		for i := 0; i < n; i++ {
			if i > 0 {
				g.sb.WriteByte(',')
				g.ws()
			}
			out.A = append(out.A, g.value(depth+1))
			g.ws()
		}
		g.sb.WriteByte(']')
		return out
	}
	out := val.V{K: val.Obj}
	g.sb.WriteByte('{')
	g.ws()
	for i := 0; i < n; i++ {
		if i > 0 {
			g.sb.WriteByte(',')
			g.ws()
		}
		lit, k := JSONStringLiteral(r)
		if i > 0 && r.P(1, 15) {
			// duplicate key
			k = out.Keys[r.Intn(len(out.Keys))]
			lit = strconv.Quote(k)
			if !utf8.ValidString(k) || strings.ContainsAny(lit, "\\") && lit != `"`+k+`"` {
				// strconv.Quote uses Go escapes; fall back to \u escapes
				lit = jsonQuoteSimple(k)
			}
		}
		g.tok(lit)
		g.ws()
		g.sb.WriteByte(':')
		g.ws()
		out.Keys = append(out.Keys, k)
		out.A = append(out.A, g.value(depth+1))
		g.ws()
	}
	g.sb.WriteByte('}')
	return out
}

// jsonQuoteSimple quotes s using only escapes valid in JSON.
func jsonQuoteSimple(s string) string {
	var sb strings.Builder
	sb.WriteByte('"')
	for _, ru := range s {
		switch {
		case ru == '"' || ru == '\\':
			sb.WriteByte('\\')
			sb.WriteRune(ru)
		case ru < 0x20:
			fmt.Fprintf(&sb, "\\u%04x", ru)
		default:
			sb.WriteRune(ru)
		}
	}
	sb.WriteByte('"')
	return sb.String()
}

var jsonIntLits = []string{"0", "-0", "1", "-1", "23", "24", "127", "128", "255", "256", "-128", "-129", "32767", "32768", "-32768", "-32769",
	"65535", "65536", "2147483647", "2147483648", "-2147483648", "-2147483649", "4294967295", "4294967296",
	"9007199254740991", "9007199254740992", "9007199254740993",
	"9223372036854775806", "9223372036854775807", "9223372036854775808", "9223372036854775809",
	"-9223372036854775807", "-9223372036854775808",
	"18446744073709551614", "18446744073709551615", "10000000000000000000", "9999999999999999999", "12345678901234567890"}
var jsonBigLits = []string{"18446744073709551616", "-9223372036854775809", "18446744073709551617", "99999999999999999999", "-18446744073709551616",
	"123456789012345678901234567890", "-9223372036854775810", "36893488147419103232", "1e400", "-1e400", "1E999", "1.0e309"}

func (g *jsonGen) number() val.V {
	r := g.r
	var lit string
	switch r.Intn(10) {
	case 0, 1:
		lit = Pick(r, jsonIntLits)
	case 2:
		if g.o.BigNums {
			lit = bigLiteral(r)
		} else {
			lit = nearBoundaryLiteral(r)
		}
	case 3:
		lit = strconv.FormatUint(r.U64()>>uint(r.Intn(64)), 10)
		if r.Bool() && lit != "0" {
			u, _ := strconv.ParseUint(lit, 10, 64)
			if u <= 1<<63 {
				lit = "-" + lit
			}
		}
	case 4:
		// int frac
		lit = strconv.Itoa(r.Intn(2000)-1000) + "." + digits(r, r.Range(1, 18))
	case 5:
		// exponent forms
		lit = strconv.Itoa(r.Intn(200)-100) + Pick(r, []string{"e", "E"}) + Pick(r, []string{"", "+", "-"}) + strconv.Itoa(r.Intn(30))
	case 6:
		lit = strconv.Itoa(r.Intn(20)-10) + "." + digits(r, r.Range(1, 6)) + Pick(r, []string{"e", "E"}) + Pick(r, []string{"", "+", "-"}) + strconv.Itoa(r.Intn(320))
		if !g.o.BigNums {
			if _, err := strconv.ParseFloat(lit, 64); err != nil {
				lit = "1.5e10"
			}
		}
	case 7:
		lit = Pick(r, []string{"0.1", "0.3", "1e23", "8.41e21", "5e-324", "2.2250738585072011e-308", "1e-400", "0.000001", "1e21", "1e20", "123456789012345678", "0e0", "-0.0", "-0e-5", "1.7976931348623157e308", "4.9e-324", "0.30000000000000004", "100000000", "1E2", "1e+2", "9007199254740993.0", "1.0", "10.0"})
	default:
		lit = strconv.FormatFloat(float64FromBits(Float64Bits(r, false)), Pick(r, []byte{'g', 'e', 'f'}), -1, 64)
		if len(lit) > 400 {
			lit = "1.25"
		}
	}
	g.tok(lit)
	v, _, _ := ref.JSONNumber(lit)
	return v
}

func float64FromBits(b uint64) float64 { return math.Float64frombits(b) }

var big2p64 = new(big.Int).Lsh(big.NewInt(1), 64)
var big2p63 = new(big.Int).Lsh(big.NewInt(1), 63)

// nearBoundaryLiteral: integer literals inside the 64-bit range, dense around
// its edges (2^63 ± d, 2^64 - d, -2^63 + d).
func nearBoundaryLiteral(r *Rand) string {
	d := big.NewInt(int64(r.Intn(120)))
	switch r.Intn(5) {
	case 0:
		return new(big.Int).Sub(new(big.Int).Sub(big2p64, big.NewInt(1)), d).String() // MaxUint64 - d
	case 1:
		return new(big.Int).Add(big2p63, d).String() // 2^63 + d
	case 2:
		return new(big.Int).Sub(new(big.Int).Sub(big2p63, big.NewInt(1)), d).String() // MaxInt64 - d
	case 3:
		return new(big.Int).Neg(new(big.Int).Sub(big2p63, d)).String() // MinInt64 + d
	}
	return strconv.FormatInt(int64(r.U64()), 10)
}

// bigLiteral: integer literals OUTSIDE the 64-bit range, dense right beyond
// its edges and around every place a digit-by-digit overflow check can slip:
// 2^64 + d, k*2^64 + d (values that wrap to small numbers), MaxUint64 with
// extra digits, -2^63 - d, random 20..30-digit numbers, huge exponents.
func bigLiteral(r *Rand) string {
	d := big.NewInt(int64(r.Intn(200)))
	switch r.Intn(9) {
	case 0:
		return Pick(r, jsonBigLits)
	case 1:
		return new(big.Int).Add(big2p64, d).String()
	case 2:
		k := big.NewInt(int64(r.Range(2, 12)))
		return new(big.Int).Add(new(big.Int).Mul(big2p64, k), d).String()
	case 3:
		return new(big.Int).Neg(new(big.Int).Add(new(big.Int).Add(big2p63, big.NewInt(1)), d)).String()
	case 4:
		return "18446744073709551615" + digits(r, r.Range(1, 4))
	case 5:
		return "1844674407370955" + digits(r, r.Range(4, 6))
	case 6:
		return Pick(r, []string{"", "-"}) + string(byte('1'+r.Intn(9))) + digits(r, r.Range(19, 30))
	case 7:
		// wraps to a small number modulo 2^64
		k := big.NewInt(int64(r.Range(1, 9)))
		return Pick(r, []string{"", "-"}) + new(big.Int).Add(new(big.Int).Mul(big2p64, k), big.NewInt(int64(r.Intn(10)))).String()
	}
	return Pick(r, []string{"1e400", "-1e400", "1E999", "1.0e309", "123456789e300"})
}

func digits(r *Rand, n int) string {
	b := make([]byte, n)
	for i := range b {
		b[i] = byte('0' + r.Intn(10))
	}
	return string(b)
}

// JSONStringLiteral generates a JSON string literal (with quotes) and the
// string it denotes.  Only valid UTF-8 is produced; lone surrogate escapes
// denote U+FFFD (the value a reference decoder assigns).
func JSONStringLiteral(r *Rand) (lit, value string) {
	var l, v strings.Builder
	l.WriteByte('"')
	n := r.Intn(8)
	switch r.Intn(10) {
	case 0:
		n = 0
	case 1:
		n = r.Range(60, 130) // beyond the parser's 64-byte inline buffer
	case 2:
		if r.P(1, 10) {
			n = r.Range(1000, 5000)
		}
	}
	hexd := func(ru rune) string {
		s := fmt.Sprintf("%04x", ru)
		b := []byte(s)
		for i := range b {
			if r.Bool() && b[i] >= 'a' {
				b[i] -= 32
			}
		}
		return string(b)
	}
	for i := 0; i < n; i++ {
		switch r.Intn(14) {
		case 0:
			e := Pick(r, []struct{ l, v string }{{`\"`, `"`}, {`\\`, `\`}, {`\/`, `/`}, {`\b`, "\b"}, {`\f`, "\f"}, {`\n`, "\n"}, {`\r`, "\r"}, {`\t`, "\t"}})
			l.WriteString(e.l)
			v.WriteString(e.v)
		case 1:
			// \u BMP non-surrogate
			ru := rune(r.Intn(0xD800))
			if r.Bool() {
				ru = rune(0xE000 + r.Intn(0x2000))
			}
			if r.P(1, 4) {
				ru = rune(r.Intn(0x80))
			}
			l.WriteString(`\u` + hexd(ru))
			v.WriteRune(ru)
		case 2:
			// surrogate pair
			ru := rune(0x10000 + r.Intn(0x100000))
			hi := 0xD800 + ((ru - 0x10000) >> 10)
			lo := 0xDC00 + ((ru - 0x10000) & 0x3FF)
			l.WriteString(`\u` + hexd(hi) + `\u` + hexd(lo))
			v.WriteRune(ru)
		case 3:
			// lone surrogate (high or low) followed by something else
			s := rune(0xD800 + r.Intn(0x800))
			l.WriteString(`\u` + hexd(s))
			v.WriteString("�")
			k := r.Intn(4)
			if s < 0xDC00 && k == 3 {
				k = 1 // a high surrogate must not be followed by a low one by accident
			}
			switch k {
			case 0:
				// followed by a non-surrogate escape
				l.WriteString(`\u0041`)
				v.WriteString("A")
			case 1:
				x := Pick(r, []string{"é", "€", "\U0001F600", "z"})
				l.WriteString(x)
				v.WriteString(x)
			case 2:
				// high surrogate followed by high surrogate
				if s < 0xDC00 {
					l.WriteString(`\ud83dz`)
					v.WriteString("\ufffdz")
				}
			}
		case 4, 5:
			x := Pick(r, []string{"é", "€", "\U0001F600", "ü", "日", " ", " ", "\u007f", "\u0080", "￿", "\U0010FFFF"})
			l.WriteString(x)
			v.WriteString(x)
		case 6:
			x := Pick(r, []string{"<", ">", "&", "'", "/", " ", "{", "}", "[", "]", ",", ":"})
			l.WriteString(x)
			v.WriteString(x)
		default:
			c := byte('a' + r.Intn(26))
			l.WriteByte(c)
			v.WriteByte(c)
		}
	}
	l.WriteByte('"')
	return l.String(), v.String()
}
