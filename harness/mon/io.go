package mon

import (
	"errors"
	"io"
)

// Progress is bumped whenever the harness hands bytes to the library (reader
// chunks, Write calls).  The loop-progress monitor treats a change as
// progress, so that consecutive calls that each see the same number of
// remaining bytes are not mistaken for one idle loop.
var Progress uint64

// ErrSink is the sentinel a failing writer returns.
var ErrSink = errors.New("verif: injected sink failure")

// ErrVisitor is the sentinel a failing visitor returns.
var ErrVisitor = errors.New("verif: injected visitor failure")

// CountingWriter collects bytes and counts Write calls.
type CountingWriter struct {
	Buf    []byte
	Writes int
}

func (w *CountingWriter) Write(b []byte) (int, error) {
	w.Writes++
	w.Buf = append(w.Buf, b...)
	return len(b), nil
}

// FailingWriter accepts writes 1..K-1 and fails write K and every later one.
type FailingWriter struct {
	K          int
	Writes     int
	AfterFail  int // writes attempted after the first failing one
	Buf        []byte
	ShortWrite bool // failing writes report n=0 with error (default) — or a short count without error text
	// Count selects what a failing Write reports next to its error: 0: n = 0,
	// 1: n = len(b) (the io.Writer contract allows an error together with
	// the full count), 2: n = len(b)/2.
	Count int
}

func (w *FailingWriter) Write(b []byte) (int, error) {
	w.Writes++
	if w.Writes >= w.K {
		if w.Writes > w.K {
			w.AfterFail++
		}
		switch w.Count {
		case 1:
			return len(b), ErrSink
		case 2:
			return len(b) / 2, ErrSink
		}
		return 0, ErrSink
	}
	w.Buf = append(w.Buf, b...)
	return len(b), nil
}

// ChunkReader hands out data in the given chunk sizes (cycling; a size of 0
// is an empty read returning (0, nil)).  EOFWithData makes the last chunk
// arrive together with io.EOF.
type ChunkReader struct {
	Data        []byte
	Sizes       []int
	EOFWithData bool
	// Scribble: every chunk is delivered from a scratch copy that is
	// overwritten on the next call (the caller's buffer stays intact, but
	// bytes the consumer retained from the previous Read call's buffer see
	// only what the consumer copied).
	pos, i  int
	Reads   int
	ErrAt   int   // if >0: the ErrAt-th read returns Err instead of data
	Err     error // error injected at ErrAt
	eofSeen bool
}

func (r *ChunkReader) Read(p []byte) (int, error) {
	r.Reads++
	if r.ErrAt > 0 && r.Reads >= r.ErrAt {
		return 0, r.Err
	}
	if r.pos >= len(r.Data) {
		return 0, io.EOF
	}
	if len(p) == 0 {
		return 0, nil
	}
	n := len(p)
	if len(r.Sizes) > 0 {
		n = r.Sizes[r.i%len(r.Sizes)]
		r.i++
	}
	if n > len(p) {
		n = len(p)
	}
	if n > len(r.Data)-r.pos {
		n = len(r.Data) - r.pos
	}
	copy(p, r.Data[r.pos:r.pos+n])
	r.pos += n
	Progress++
	if r.EOFWithData && r.pos >= len(r.Data) {
		return n, io.EOF
	}
	return n, nil
}

// Cuts turns a sorted list of cut positions into chunk lengths for a
// document of n bytes.
func Cuts(n int, cuts []int) []int {
	var out []int
	prev := 0
	for _, c := range cuts {
		out = append(out, c-prev)
		prev = c
	}
	out = append(out, n-prev)
	return out
}

// Chunks splits b according to sizes (0 entries = empty chunks); every chunk
// is a private copy so that it can be scribbled independently.
func Chunks(b []byte, sizes []int) [][]byte {
	var out [][]byte
	pos := 0
	for _, s := range sizes {
		if s > len(b)-pos {
			s = len(b) - pos
		}
		c := make([]byte, s)
		copy(c, b[pos:pos+s])
		out = append(out, c)
		pos += s
	}
	if pos < len(b) {
		c := make([]byte, len(b)-pos)
		copy(c, b[pos:])
		out = append(out, c)
	}
	return out
}

// Scribble overwrites a buffer with a recognisable pattern.
func Scribble(b []byte) {
	for i := range b {
		b[i] = 0xAA
	}
}
