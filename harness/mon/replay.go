// Package mon holds the monitors: recorder, contract automaton, fault
// injectors and helper readers/writers.
package mon

import (
	"math"

	structform "github.com/elastic/go-structform"

	"verif/harness/val"
)

// ReplayOpts controls how a stream is pushed into a visitor.
type ReplayOpts struct {
	// ScribbleRefs: bytes handed over by reference are overwritten as soon as
	// the callback returns (the contract allows the producer to do that).
	ScribbleRefs bool
	// ContinueOnError: keep calling after an event returned an error
	// (collecting the first error).
	ContinueOnError bool
	// After is called after each event with its index and result.
	After func(i int, err error)
}

// refArena is the shared "read buffer" of by-reference deliveries (see Call).
// Not goroutine safe: ScribbleRefs is only used by single-goroutine cases.
var (
	refArena [4096]byte
	refCalls uint64
)

// Call performs a single event on v.
func Call(v structform.ExtVisitor, e val.Event, scribble bool) error {
	switch e.K {
	case val.EObjStart:
		return v.OnObjectStart(e.N, e.BT)
	case val.EObjEnd:
		return v.OnObjectFinished()
	case val.EKey:
		return v.OnKey(e.S)
	case val.EArrStart:
		return v.OnArrayStart(e.N, e.BT)
	case val.EArrEnd:
		return v.OnArrayFinished()
	case val.ENil:
		return v.OnNil()
	case val.EBool:
		return v.OnBool(e.B)
	case val.EString:
		return v.OnString(e.S)
	case val.EInt8:
		return v.OnInt8(int8(e.I))
	case val.EInt16:
		return v.OnInt16(int16(e.I))
	case val.EInt32:
		return v.OnInt32(int32(e.I))
	case val.EInt64:
		return v.OnInt64(e.I)
	case val.EInt:
		return v.OnInt(int(e.I))
	case val.EByte:
		return v.OnByte(byte(e.U))
	case val.EUint8:
		return v.OnUint8(uint8(e.U))
	case val.EUint16:
		return v.OnUint16(uint16(e.U))
	case val.EUint32:
		return v.OnUint32(uint32(e.U))
	case val.EUint64:
		return v.OnUint64(e.U)
	case val.EUint:
		return v.OnUint(uint(e.U))
	case val.EFloat32:
		return v.OnFloat32(math.Float32frombits(uint32(e.F)))
	case val.EFloat64:
		return v.OnFloat64(math.Float64frombits(e.F))
	case val.EStringRef, val.EKeyRef:
		var buf []byte
		reuse := false
		if scribble {
			// Alternate between the two things a producer legitimately does
			// with the memory behind a by-reference string: (a) a private
			// buffer overwritten with filler right after the callback, (b) ONE
			// read buffer used for every string, so that the next string or
			// key of the same length replaces the bytes with other plausible
			// content (what a parser reading document after document into the
			// same buffer does).
			refCalls++
			reuse = refCalls%2 == 0 && len(e.S) <= len(refArena)
		}
		if reuse {
			buf = refArena[:len(e.S):len(e.S)]
			copy(buf, e.S)
		} else {
			buf = []byte(e.S)
		}
		var err error
		if e.K == val.EStringRef {
			err = v.OnStringRef(buf)
		} else {
			err = v.OnKeyRef(buf)
		}
		if scribble && !reuse {
			for i := range buf {
				buf[i] = 0xAA
			}
		}
		return err
	case val.EBoolArray:
		return v.OnBoolArray(e.X.([]bool))
	case val.EStringArray:
		return v.OnStringArray(e.X.([]string))
	case val.EInt8Array:
		return v.OnInt8Array(e.X.([]int8))
	case val.EInt16Array:
		return v.OnInt16Array(e.X.([]int16))
	case val.EInt32Array:
		return v.OnInt32Array(e.X.([]int32))
	case val.EInt64Array:
		return v.OnInt64Array(e.X.([]int64))
	case val.EIntArray:
		return v.OnIntArray(e.X.([]int))
	case val.EBytes:
		return v.OnBytes(e.X.([]byte))
	case val.EUint8Array:
		return v.OnUint8Array(e.X.([]uint8))
	case val.EUint16Array:
		return v.OnUint16Array(e.X.([]uint16))
	case val.EUint32Array:
		return v.OnUint32Array(e.X.([]uint32))
	case val.EUint64Array:
		return v.OnUint64Array(e.X.([]uint64))
	case val.EUintArray:
		return v.OnUintArray(e.X.([]uint))
	case val.EFloat32Array:
		return v.OnFloat32Array(e.X.([]float32))
	case val.EFloat64Array:
		return v.OnFloat64Array(e.X.([]float64))
	case val.EBoolObject:
		return v.OnBoolObject(e.X.(map[string]bool))
	case val.EStringObject:
		return v.OnStringObject(e.X.(map[string]string))
	case val.EInt8Object:
		return v.OnInt8Object(e.X.(map[string]int8))
	case val.EInt16Object:
		return v.OnInt16Object(e.X.(map[string]int16))
	case val.EInt32Object:
		return v.OnInt32Object(e.X.(map[string]int32))
	case val.EInt64Object:
		return v.OnInt64Object(e.X.(map[string]int64))
	case val.EIntObject:
		return v.OnIntObject(e.X.(map[string]int))
	case val.EUint8Object:
		return v.OnUint8Object(e.X.(map[string]uint8))
	case val.EUint16Object:
		return v.OnUint16Object(e.X.(map[string]uint16))
	case val.EUint32Object:
		return v.OnUint32Object(e.X.(map[string]uint32))
	case val.EUint64Object:
		return v.OnUint64Object(e.X.(map[string]uint64))
	case val.EUintObject:
		return v.OnUintObject(e.X.(map[string]uint))
	case val.EFloat32Object:
		return v.OnFloat32Object(e.X.(map[string]float32))
	case val.EFloat64Object:
		return v.OnFloat64Object(e.X.(map[string]float64))
	}
	panic("harness: unknown event kind")
}

// Replay pushes the stream into v (wrapped by EnsureExtVisitor when needed)
// and returns the first error.
func Replay(s val.Stream, v structform.Visitor, o ReplayOpts) error {
	ev := structform.EnsureExtVisitor(v)
	var first error
	refCalls = 0 // the alternation of Call is a function of the stream, not of the process history
	for i, e := range s {
		err := Call(ev, e, o.ScribbleRefs)
		if o.After != nil {
			o.After(i, err)
		}
		if err != nil {
			if first == nil {
				first = err
			}
			if !o.ContinueOnError {
				return first
			}
		}
	}
	return first
}
