package mon

import (
	"errors"
	"fmt"
	"math"

	structform "github.com/elastic/go-structform"

	"verif/harness/val"
)

// ErrBudget is returned to the producer when the event budget is exhausted.
var ErrBudget = errors.New("verif: event budget exhausted")

type cframe struct {
	obj     bool
	n       int
	bt      structform.BaseType
	count   int
	pending bool // key seen, value outstanding
}

// Monitor is recorder + online contract automaton.  It implements the full
// ExtVisitor; use Basic()/WithRefs() to expose less to a producer.
type Monitor struct {
	Events val.Stream
	// Budget: maximum number of events accepted (0 = unlimited).
	Budget int
	// Fail: if >0, event number Fail (1-based) and all later ones return
	// FailErr.  After counts the events delivered after the failing one.
	Fail    int
	FailErr error
	After   int
	// OnEvent is called before an event is recorded (GC forcing, yields).
	OnEvent func()

	// contract automaton
	stack     []cframe
	Docs      int    // completed top-level values
	DocEnds   []int  // len(Events) at each completion
	Violation string // first contract violation ("" = none)
	ViolAt    int
	// coverage of the automaton
	MaxDepth   int
	Seen       [val.NumKinds]int
	Transition map[[2]uint8]int // (state class, event kind) pairs visited
	NoRecord   bool             // do not keep Events (only automaton + counts)
	NEvents    int
	// Next, if set, receives every event after the automaton has seen it; its
	// error is returned to the producer (tee into an encoder or unfolder).
	Next structform.ExtVisitor
}

func NewMonitor() *Monitor { return &Monitor{} }

func (m *Monitor) Reset() {
	*m = Monitor{Budget: m.Budget, OnEvent: m.OnEvent, Transition: m.Transition, NoRecord: m.NoRecord, Next: m.Next}
}

// Depth is the current nesting depth as seen by the automaton.
func (m *Monitor) Depth() int { return len(m.stack) }

func (m *Monitor) flag(format string, args ...interface{}) {
	if m.Violation == "" {
		m.Violation = fmt.Sprintf(format, args...)
		m.ViolAt = m.NEvents
	}
}

func btMatches(bt structform.BaseType, k val.Kind) bool {
	switch bt {
	case structform.AnyType:
		return true
	case structform.ByteType, structform.Uint8Type:
		return k == val.EByte || k == val.EUint8
	case structform.StringType:
		return k == val.EString || k == val.EStringRef
	case structform.BoolType:
		return k == val.EBool
	case structform.ZeroType:
		return k == val.ENil
	case structform.IntType:
		return k == val.EInt
	case structform.Int8Type:
		return k == val.EInt8
	case structform.Int16Type:
		return k == val.EInt16
	case structform.Int32Type:
		return k == val.EInt32
	case structform.Int64Type:
		return k == val.EInt64
	case structform.UintType:
		return k == val.EUint
	case structform.Uint16Type:
		return k == val.EUint16
	case structform.Uint32Type:
		return k == val.EUint32
	case structform.Uint64Type:
		return k == val.EUint64
	case structform.Float32Type:
		return k == val.EFloat32
	case structform.Float64Type:
		return k == val.EFloat64
	}
	return false
}

func (m *Monitor) stateClass() uint8 {
	if len(m.stack) == 0 {
		return 0
	}
	t := m.stack[len(m.stack)-1]
	switch {
	case !t.obj:
		return 1
	case t.pending:
		return 3
	default:
		return 2
	}
}

// step runs the automaton for event e; value says whether the event is (or
// completes) a value in the enclosing container.
func (m *Monitor) step(e val.Event) error {
	if m.OnEvent != nil {
		m.OnEvent()
	}
	m.NEvents++
	if m.Fail > 0 && m.NEvents >= m.Fail {
		if m.NEvents > m.Fail {
			m.After++
		}
		return m.FailErr
	}
	if m.Budget > 0 && m.NEvents > m.Budget {
		return ErrBudget
	}
	if int(e.K) < len(m.Seen) {
		m.Seen[e.K]++
	}
	if m.Transition != nil {
		m.Transition[[2]uint8{m.stateClass(), uint8(e.K)}]++
	}
	if !m.NoRecord {
		m.Events = append(m.Events, e)
	}

	k := e.K
	switch {
	case k == val.EObjEnd || k == val.EArrEnd:
		if len(m.stack) == 0 {
			m.flag("%s without a matching start", k)
			return m.forward(e)
		}
		top := m.stack[len(m.stack)-1]
		if top.obj != (k == val.EObjEnd) {
			m.flag("%s closes a container opened as obj=%v", k, top.obj)
		}
		if top.pending {
			m.flag("object finished while a key waits for its value")
		}
		if top.n >= 0 && top.count != top.n {
			m.flag("container announced %d elements but holds %d", top.n, top.count)
		}
		m.stack = m.stack[:len(m.stack)-1]
		m.valueDone()
		return m.forward(e)
	case k.IsKey():
		if len(m.stack) == 0 || !m.stack[len(m.stack)-1].obj {
			m.flag("key %q outside of an object", e.S)
			return m.forward(e)
		}
		top := &m.stack[len(m.stack)-1]
		if top.pending {
			m.flag("two keys in a row (%q)", e.S)
		}
		top.pending = true
		return m.forward(e)
	}
	// a value begins
	if len(m.stack) > 0 {
		top := &m.stack[len(m.stack)-1]
		if top.obj && !top.pending {
			m.flag("value %s inside an object without a preceding key", k)
		}
		if top.bt != structform.AnyType {
			ok := false
			switch {
			case k.IsScalar():
				ok = btMatches(top.bt, k)
			default:
				ok = false
			}
			if !ok {
				m.flag("container announced element type %s but received %s", top.bt, k)
			}
		}
	}
	switch {
	case k == val.EObjStart || k == val.EArrStart:
		if e.N < -1 {
			m.flag("%s announces length %d", k, e.N)
		}
		m.stack = append(m.stack, cframe{obj: k == val.EObjStart, n: e.N, bt: e.BT})
		if len(m.stack) > m.MaxDepth {
			m.MaxDepth = len(m.stack)
		}
	default:
		m.valueDone()
	}
	return m.forward(e)
}

func (m *Monitor) forward(e val.Event) error {
	if m.Next == nil {
		return nil
	}
	return Call(m.Next, e, false)
}

func (m *Monitor) valueDone() {
	if len(m.stack) == 0 {
		m.Docs++
		m.DocEnds = append(m.DocEnds, len(m.Events))
		return
	}
	top := &m.stack[len(m.stack)-1]
	top.count++
	top.pending = false
}

// Idle reports whether the automaton is between top-level values.
func (m *Monitor) Idle() bool { return len(m.stack) == 0 }

// Values returns the top-level values recorded so far (complete ones).
func (m *Monitor) Values() ([]val.V, error) {
	evs := m.Events
	if len(m.DocEnds) > 0 {
		evs = evs[:m.DocEnds[len(m.DocEnds)-1]]
	} else {
		evs = nil
	}
	return evs.Values()
}

// ---- Visitor implementation ----

func (m *Monitor) OnObjectStart(n int, bt structform.BaseType) error {
	return m.step(val.Event{K: val.EObjStart, N: n, BT: bt})
}
func (m *Monitor) OnObjectFinished() error { return m.step(val.Event{K: val.EObjEnd}) }
// By-value strings are retained as they are handed over (a Go string is
// immutable: a consumer may keep it).  A producer that later overwrites the
// memory behind it is caught when the recording is compared afterwards.
func (m *Monitor) OnKey(s string) error { return m.step(val.Event{K: val.EKey, S: s}) }
func (m *Monitor) OnArrayStart(n int, bt structform.BaseType) error {
	return m.step(val.Event{K: val.EArrStart, N: n, BT: bt})
}
func (m *Monitor) OnArrayFinished() error  { return m.step(val.Event{K: val.EArrEnd}) }
func (m *Monitor) OnNil() error            { return m.step(val.Event{K: val.ENil}) }
func (m *Monitor) OnBool(b bool) error     { return m.step(val.Event{K: val.EBool, B: b}) }
func (m *Monitor) OnString(s string) error { return m.step(val.Event{K: val.EString, S: s}) }
func (m *Monitor) OnInt8(i int8) error     { return m.step(val.Event{K: val.EInt8, I: int64(i)}) }
func (m *Monitor) OnInt16(i int16) error   { return m.step(val.Event{K: val.EInt16, I: int64(i)}) }
func (m *Monitor) OnInt32(i int32) error   { return m.step(val.Event{K: val.EInt32, I: int64(i)}) }
func (m *Monitor) OnInt64(i int64) error   { return m.step(val.Event{K: val.EInt64, I: i}) }
func (m *Monitor) OnInt(i int) error       { return m.step(val.Event{K: val.EInt, I: int64(i)}) }
func (m *Monitor) OnByte(b byte) error     { return m.step(val.Event{K: val.EByte, U: uint64(b)}) }
func (m *Monitor) OnUint8(u uint8) error   { return m.step(val.Event{K: val.EUint8, U: uint64(u)}) }
func (m *Monitor) OnUint16(u uint16) error { return m.step(val.Event{K: val.EUint16, U: uint64(u)}) }
func (m *Monitor) OnUint32(u uint32) error { return m.step(val.Event{K: val.EUint32, U: uint64(u)}) }
func (m *Monitor) OnUint64(u uint64) error { return m.step(val.Event{K: val.EUint64, U: u}) }
func (m *Monitor) OnUint(u uint) error     { return m.step(val.Event{K: val.EUint, U: uint64(u)}) }
func (m *Monitor) OnFloat32(f float32) error {
	return m.step(val.Event{K: val.EFloat32, F: uint64(math.Float32bits(f))})
}
func (m *Monitor) OnFloat64(f float64) error {
	return m.step(val.Event{K: val.EFloat64, F: math.Float64bits(f)})
}
func (m *Monitor) OnStringRef(s []byte) error { return m.step(val.Event{K: val.EStringRef, S: string(s)}) }
func (m *Monitor) OnKeyRef(s []byte) error    { return m.step(val.Event{K: val.EKeyRef, S: string(s)}) }

func cp[T any](a []T) []T {
	if a == nil {
		return nil
	}
	return append([]T{}, a...)
}
func cpm[T any](a map[string]T) map[string]T {
	if a == nil {
		return nil
	}
	out := make(map[string]T, len(a))
	for k, v := range a {
		out[string([]byte(k))] = v
	}
	return out
}

func (m *Monitor) OnBoolArray(a []bool) error { return m.step(val.Event{K: val.EBoolArray, X: cp(a)}) }
func (m *Monitor) OnStringArray(a []string) error {
	return m.step(val.Event{K: val.EStringArray, X: cp(a)})
}
func (m *Monitor) OnInt8Array(a []int8) error   { return m.step(val.Event{K: val.EInt8Array, X: cp(a)}) }
func (m *Monitor) OnInt16Array(a []int16) error { return m.step(val.Event{K: val.EInt16Array, X: cp(a)}) }
func (m *Monitor) OnInt32Array(a []int32) error { return m.step(val.Event{K: val.EInt32Array, X: cp(a)}) }
func (m *Monitor) OnInt64Array(a []int64) error { return m.step(val.Event{K: val.EInt64Array, X: cp(a)}) }
func (m *Monitor) OnIntArray(a []int) error     { return m.step(val.Event{K: val.EIntArray, X: cp(a)}) }
func (m *Monitor) OnBytes(a []byte) error       { return m.step(val.Event{K: val.EBytes, X: cp(a)}) }
func (m *Monitor) OnUint8Array(a []uint8) error { return m.step(val.Event{K: val.EUint8Array, X: cp(a)}) }
func (m *Monitor) OnUint16Array(a []uint16) error {
	return m.step(val.Event{K: val.EUint16Array, X: cp(a)})
}
func (m *Monitor) OnUint32Array(a []uint32) error {
	return m.step(val.Event{K: val.EUint32Array, X: cp(a)})
}
func (m *Monitor) OnUint64Array(a []uint64) error {
	return m.step(val.Event{K: val.EUint64Array, X: cp(a)})
}
func (m *Monitor) OnUintArray(a []uint) error { return m.step(val.Event{K: val.EUintArray, X: cp(a)}) }
func (m *Monitor) OnFloat32Array(a []float32) error {
	return m.step(val.Event{K: val.EFloat32Array, X: cp(a)})
}
func (m *Monitor) OnFloat64Array(a []float64) error {
	return m.step(val.Event{K: val.EFloat64Array, X: cp(a)})
}
func (m *Monitor) OnBoolObject(a map[string]bool) error {
	return m.step(val.Event{K: val.EBoolObject, X: cpm(a)})
}
func (m *Monitor) OnStringObject(a map[string]string) error {
	return m.step(val.Event{K: val.EStringObject, X: cpm(a)})
}
func (m *Monitor) OnInt8Object(a map[string]int8) error {
	return m.step(val.Event{K: val.EInt8Object, X: cpm(a)})
}
func (m *Monitor) OnInt16Object(a map[string]int16) error {
	return m.step(val.Event{K: val.EInt16Object, X: cpm(a)})
}
func (m *Monitor) OnInt32Object(a map[string]int32) error {
	return m.step(val.Event{K: val.EInt32Object, X: cpm(a)})
}
func (m *Monitor) OnInt64Object(a map[string]int64) error {
	return m.step(val.Event{K: val.EInt64Object, X: cpm(a)})
}
func (m *Monitor) OnIntObject(a map[string]int) error {
	return m.step(val.Event{K: val.EIntObject, X: cpm(a)})
}
func (m *Monitor) OnUint8Object(a map[string]uint8) error {
	return m.step(val.Event{K: val.EUint8Object, X: cpm(a)})
}
func (m *Monitor) OnUint16Object(a map[string]uint16) error {
	return m.step(val.Event{K: val.EUint16Object, X: cpm(a)})
}
func (m *Monitor) OnUint32Object(a map[string]uint32) error {
	return m.step(val.Event{K: val.EUint32Object, X: cpm(a)})
}
func (m *Monitor) OnUint64Object(a map[string]uint64) error {
	return m.step(val.Event{K: val.EUint64Object, X: cpm(a)})
}
func (m *Monitor) OnUintObject(a map[string]uint) error {
	return m.step(val.Event{K: val.EUintObject, X: cpm(a)})
}
func (m *Monitor) OnFloat32Object(a map[string]float32) error {
	return m.step(val.Event{K: val.EFloat32Object, X: cpm(a)})
}
func (m *Monitor) OnFloat64Object(a map[string]float64) error {
	return m.step(val.Event{K: val.EFloat64Object, X: cpm(a)})
}

var _ structform.ExtVisitor = (*Monitor)(nil)

// basicOnly exposes just the 21 basic events of a Monitor.
type basicOnly struct{ structform.Visitor }

// Basic hides every extended method, so producers must go through the
// library's expansion adapters.
func (m *Monitor) Basic() structform.Visitor { return basicOnly{visitorOnly{m}} }

type visitorOnly struct{ m *Monitor }

func (v visitorOnly) OnObjectStart(n int, bt structform.BaseType) error {
	return v.m.OnObjectStart(n, bt)
}
func (v visitorOnly) OnObjectFinished() error { return v.m.OnObjectFinished() }
func (v visitorOnly) OnKey(s string) error    { return v.m.OnKey(s) }
func (v visitorOnly) OnArrayStart(n int, bt structform.BaseType) error {
	return v.m.OnArrayStart(n, bt)
}
func (v visitorOnly) OnArrayFinished() error    { return v.m.OnArrayFinished() }
func (v visitorOnly) OnNil() error              { return v.m.OnNil() }
func (v visitorOnly) OnBool(b bool) error       { return v.m.OnBool(b) }
func (v visitorOnly) OnString(s string) error   { return v.m.OnString(s) }
func (v visitorOnly) OnInt8(i int8) error       { return v.m.OnInt8(i) }
func (v visitorOnly) OnInt16(i int16) error     { return v.m.OnInt16(i) }
func (v visitorOnly) OnInt32(i int32) error     { return v.m.OnInt32(i) }
func (v visitorOnly) OnInt64(i int64) error     { return v.m.OnInt64(i) }
func (v visitorOnly) OnInt(i int) error         { return v.m.OnInt(i) }
func (v visitorOnly) OnByte(b byte) error       { return v.m.OnByte(b) }
func (v visitorOnly) OnUint8(u uint8) error     { return v.m.OnUint8(u) }
func (v visitorOnly) OnUint16(u uint16) error   { return v.m.OnUint16(u) }
func (v visitorOnly) OnUint32(u uint32) error   { return v.m.OnUint32(u) }
func (v visitorOnly) OnUint64(u uint64) error   { return v.m.OnUint64(u) }
func (v visitorOnly) OnUint(u uint) error       { return v.m.OnUint(u) }
func (v visitorOnly) OnFloat32(f float32) error { return v.m.OnFloat32(f) }
func (v visitorOnly) OnFloat64(f float64) error { return v.m.OnFloat64(f) }

// withRefs is the basic visitor plus StringRefVisitor: what the parsers look
// for.
type withRefs struct {
	visitorOnly
}

func (v withRefs) OnStringRef(s []byte) error { return v.m.OnStringRef(s) }
func (v withRefs) OnKeyRef(s []byte) error    { return v.m.OnKeyRef(s) }

// WithRefs exposes basic events + by-reference strings (no typed
// arrays/maps).
func (m *Monitor) WithRefs() structform.Visitor { return withRefs{visitorOnly{m}} }
