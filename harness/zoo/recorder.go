package zoo

import (
	"fmt"
	"reflect"

	structform "github.com/elastic/go-structform"
	"github.com/elastic/go-structform/gotype"
)

// Recorder is a target with a user-defined unfold state (gotype.Expander):
// the unfolder hands every event of the value at this position to the state,
// which writes down what it was told.  Used differentially only (the same
// content delivered in two ways must be told the same way).
type Recorder struct {
	Log   []string
	Keys  []string // the key strings as handed over (retained, not copied)
	Strs  []string // the string values as handed over (retained, not copied)
	depth int
}

func (r *Recorder) Expand() gotype.UnfoldState { return &recState{r: r} }

type recState struct{ r *Recorder }

func (s *recState) add(ctx gotype.UnfoldCtx, what string) error {
	s.r.Log = append(s.r.Log, what)
	if s.r.depth == 0 {
		ctx.Done()
	}
	return nil
}

func (s *recState) OnNil(ctx gotype.UnfoldCtx) error          { return s.add(ctx, "nil") }
func (s *recState) OnBool(ctx gotype.UnfoldCtx, b bool) error { return s.add(ctx, fmt.Sprint("bool:", b)) }
func (s *recState) OnString(ctx gotype.UnfoldCtx, v string) error {
	s.r.Strs = append(s.r.Strs, v)
	return s.add(ctx, fmt.Sprintf("string:%q", v))
}
func (s *recState) OnInt(ctx gotype.UnfoldCtx, i int64) error {
	return s.add(ctx, fmt.Sprint("int:", i))
}
func (s *recState) OnUint(ctx gotype.UnfoldCtx, u uint64) error {
	return s.add(ctx, fmt.Sprint("uint:", u))
}
func (s *recState) OnFloat(ctx gotype.UnfoldCtx, f float64) error {
	return s.add(ctx, fmt.Sprintf("float:%x", f))
}
func (s *recState) OnArrayStart(ctx gotype.UnfoldCtx, l int, bt structform.BaseType) error {
	s.r.Log = append(s.r.Log, "[")
	s.r.depth++
	return nil
}
func (s *recState) OnArrayFinished(ctx gotype.UnfoldCtx) error {
	s.r.depth--
	return s.add(ctx, "]")
}
func (s *recState) OnObjectStart(ctx gotype.UnfoldCtx, l int, bt structform.BaseType) error {
	s.r.Log = append(s.r.Log, "{")
	s.r.depth++
	return nil
}
func (s *recState) OnObjectFinished(ctx gotype.UnfoldCtx) error {
	s.r.depth--
	return s.add(ctx, "}")
}
func (s *recState) OnKey(ctx gotype.UnfoldCtx, k string) error {
	s.r.Log = append(s.r.Log, fmt.Sprintf("key:%q", k))
	s.r.Keys = append(s.r.Keys, k)
	return nil
}

// ---------------------------------------------------------------------------
// Targets for the three kinds of user unfolders of gotype.Unfolders (used
// differentially only: an unfolder configured with them must treat a document
// the same way whatever it has done before).

// Pct: primitive unfolder (the number is scaled; values above 1000 are refused).
type Pct int

func unfoldPct(to *Pct, v int64) error {
	if v > 1000 || v < -1000 {
		return fmt.Errorf("zoo: %d is out of range for Pct", v)
	}
	*to = Pct(v * 10)
	return nil
}

// Proc: processing unfolder whose cell is the target itself ("reuse the cell
// and post-process").
type Proc struct {
	V    int
	Note string
}

func unfoldProc(to *Proc) (interface{}, func(*Proc, interface{}) error) {
	return to, func(to *Proc, _ interface{}) error {
		if to.V > 100 {
			to.V = 100
		}
		to.Note += "!"
		return nil
	}
}

// Stateful: state unfolder registered as a function (Recorder is the Expander variant).
type Stateful struct {
	Log   []string
	Keys  []string
	Strs  []string
	depth int
}

func unfoldStateful(to *Stateful) gotype.UnfoldState {
	return &recState{r: (*Recorder)(to)}
}

// UserUnfolders is the argument list for gotype.Unfolders.
func UserUnfolders() []interface{} { return []interface{}{unfoldPct, unfoldProc, unfoldStateful} }

type WithUser struct {
	Soft *Proc
	Hard Proc
	P    Pct
	S    Stateful
	Z    int
}

// UserTargets are target types that reach the user unfolders (no []*T /
// map[K]*T element types: the library's handling of those is a known,
// unclaimed defect area).
var UserTargets = []reflect.Type{
	reflect.TypeOf(Pct(0)), reflect.TypeOf((*Pct)(nil)), reflect.TypeOf(Proc{}), reflect.TypeOf((*Proc)(nil)),
	reflect.TypeOf(WithUser{}), reflect.TypeOf([]Proc{}), reflect.TypeOf(map[string]Proc{}), reflect.TypeOf(map[string]Pct{}),
	reflect.TypeOf(Stateful{}), reflect.TypeOf(struct {
		S Stateful
		Z int
	}{}), reflect.TypeOf(struct{ Soft *Proc }{}), reflect.TypeOf([]Pct{}),
}
