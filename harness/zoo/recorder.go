package zoo

import (
	"fmt"

	structform "github.com/elastic/go-structform"
	"github.com/elastic/go-structform/gotype"
)

// Recorder is a target with a user-defined unfold state (gotype.Expander):
// the unfolder hands every event of the value at this position to the state,
// which writes down what it was told.  Used differentially only (the same
// content delivered in two ways must be told the same way).
type Recorder struct {
	Log   []string
	depth int
}

func (r *Recorder) Expand() gotype.UnfoldState { return &recState{r: r} }

type recState struct{ r *Recorder }

func (s *recState) add(ctx gotype.UnfoldCtx, what string) error {
	s.r.Log = append(s.r.Log, what)
	if s.r.depth == 0 {
		ctx.Done()
	}
	return nil
}

func (s *recState) OnNil(ctx gotype.UnfoldCtx) error          { return s.add(ctx, "nil") }
func (s *recState) OnBool(ctx gotype.UnfoldCtx, b bool) error { return s.add(ctx, fmt.Sprint("bool:", b)) }
func (s *recState) OnString(ctx gotype.UnfoldCtx, v string) error {
	return s.add(ctx, fmt.Sprintf("string:%q", v))
}
func (s *recState) OnInt(ctx gotype.UnfoldCtx, i int64) error {
	return s.add(ctx, fmt.Sprint("int:", i))
}
func (s *recState) OnUint(ctx gotype.UnfoldCtx, u uint64) error {
	return s.add(ctx, fmt.Sprint("uint:", u))
}
func (s *recState) OnFloat(ctx gotype.UnfoldCtx, f float64) error {
	return s.add(ctx, fmt.Sprintf("float:%x", f))
}
func (s *recState) OnArrayStart(ctx gotype.UnfoldCtx, l int, bt structform.BaseType) error {
	s.r.Log = append(s.r.Log, "[")
	s.r.depth++
	return nil
}
func (s *recState) OnArrayFinished(ctx gotype.UnfoldCtx) error {
	s.r.depth--
	return s.add(ctx, "]")
}
func (s *recState) OnObjectStart(ctx gotype.UnfoldCtx, l int, bt structform.BaseType) error {
	s.r.Log = append(s.r.Log, "{")
	s.r.depth++
	return nil
}
func (s *recState) OnObjectFinished(ctx gotype.UnfoldCtx) error {
	s.r.depth--
	return s.add(ctx, "}")
}
func (s *recState) OnKey(ctx gotype.UnfoldCtx, k string) error {
	s.r.Log = append(s.r.Log, fmt.Sprintf("key:%q", k))
	return nil
}
