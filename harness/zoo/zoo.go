// Package zoo declares the Go types reflect.StructOf cannot synthesise:
// named types, types with methods (Folder, IsZeroer), embedded fields,
// recursive and unsupported types.  Every type with a custom Fold method also
// implements ModelV, which tells the harness — independently of the library —
// what value that method emits.
package zoo

import (
	"reflect"
	"strconv"

	structform "github.com/elastic/go-structform"

	"verif/harness/gen"
	"verif/harness/val"
)

func init() {
	for t, ts := range IfaceValues {
		gen.DefaultIfaceTypesFor[t] = ts
	}
}

// Modeler is implemented by zoo types with a custom Fold method.
type Modeler interface{ ModelV() val.V }

type NamedInt int
type NamedU8 uint8
type NamedF64 float64
type NamedBool bool
type NamedString string
type NamedInts []int
type NamedStrings []string
type NamedBytes []byte
type NamedIfaces []interface{}
type NamedMap map[string]string
type NamedIntMap map[string]int
type NamedIfaceMap map[string]interface{}

// NamedAny is a named empty interface type (kind Interface, not identical to
// interface{}).
type NamedAny interface{}
type NamedAnys []NamedAny
type NamedAnyMap map[string]NamedAny

type Plain struct {
	ID   int
	Name string `struct:"name"`
	Tags []string
}

// FoldVal implements Folder with a value receiver.
type FoldVal struct{ X int }

func (f FoldVal) Fold(v structform.ExtVisitor) error {
	if err := v.OnObjectStart(1, structform.AnyType); err != nil {
		return err
	}
	if err := v.OnKey("x"); err != nil {
		return err
	}
	if err := v.OnInt(f.X); err != nil {
		return err
	}
	return v.OnObjectFinished()
}
func (f FoldVal) ModelV() val.V {
	return val.V{K: val.Obj, Keys: []string{"x"}, A: []val.V{val.VInt(int64(f.X))}}
}

// FoldPtr implements Folder with a pointer receiver; the library calls it on
// nil receivers by design.
type FoldPtr struct{ S string }

func (f *FoldPtr) Fold(v structform.ExtVisitor) error {
	if f == nil {
		return v.OnNil()
	}
	return v.OnString("fp:" + f.S)
}
func (f *FoldPtr) ModelV() val.V {
	if f == nil {
		return val.VNil()
	}
	return val.VStr("fp:" + f.S)
}

// FoldArr emits an array.
type FoldArr struct{ N uint8 }

func (f FoldArr) Fold(v structform.ExtVisitor) error {
	n := int(f.N % 4)
	if err := v.OnArrayStart(n, structform.AnyType); err != nil {
		return err
	}
	for i := 0; i < n; i++ {
		if err := v.OnString(strconv.Itoa(i)); err != nil {
			return err
		}
	}
	return v.OnArrayFinished()
}
func (f FoldArr) ModelV() val.V {
	out := val.V{K: val.Arr}
	for i := 0; i < int(f.N%4); i++ {
		out.A = append(out.A, val.VStr(strconv.Itoa(i)))
	}
	return out
}

// FoldTags is a named slice type with its own Fold method (the generic
// fast path for []string must not win over it).
type FoldTags []string

func (f FoldTags) Fold(v structform.ExtVisitor) error {
	s := "tags:"
	for _, t := range f {
		s += t + ";"
	}
	return v.OnString(s)
}
func (f FoldTags) ModelV() val.V {
	s := "tags:"
	for _, t := range f {
		s += t + ";"
	}
	return val.VStr(s)
}

// FoldLabels is a named map type with its own Fold method.
type FoldLabels map[string]string

func (f FoldLabels) Fold(v structform.ExtVisitor) error { return v.OnInt(len(f)) }
func (f FoldLabels) ModelV() val.V                      { return val.VInt(int64(len(f))) }

// FoldNum is a named scalar with its own Fold method.
type FoldNum int

func (f FoldNum) Fold(v structform.ExtVisitor) error { return v.OnString("num") }
func (f FoldNum) ModelV() val.V                      { return val.VStr("num") }

type WithNamedFolders struct {
	T  FoldTags
	L  FoldLabels `struct:"l,omitempty"`
	N  FoldNum
	I  interface{}
	S  []interface{}
	M  map[string]interface{}
	PT *FoldTags
}

// ZeroVal implements IsZeroer with a value receiver.
type ZeroVal struct{ N int }

func (z ZeroVal) IsZero() bool { return z.N == 0 }

// ZeroPtr implements IsZeroer with a pointer receiver.
type ZeroPtr struct{ N int }

func (z *ZeroPtr) IsZero() bool { return z == nil || z.N == 0 }

// ZeroInt is a named scalar with IsZero (kind decides before IsZeroer for
// strings/slices/maps; for an int the method is consulted).
type ZeroInt int

func (z ZeroInt) IsZero() bool { return z == 0 }

// IsZeroers of string, slice, map and array kind whose IsZero is also true
// for values that are NOT zero-length: the documentation (gotype/tags.go)
// says a field is omitted if its length is 0 or if IsZero() is true.
type ZeroStr string

func (z ZeroStr) IsZero() bool { return z == "" || z == "none" }

type ZeroBytes []byte

func (z ZeroBytes) IsZero() bool {
	for _, b := range z {
		if b != 0 {
			return false
		}
	}
	return true
}

type ZeroSet map[string]bool

func (z ZeroSet) IsZero() bool {
	for _, b := range z {
		if b {
			return false
		}
	}
	return true
}

type ZeroArr [2]byte

func (z ZeroArr) IsZero() bool { return z == ZeroArr{} }

// ZeroLevel: an int kind whose IsZero is true for non-zero values as well.
type ZeroLevel int

func (z ZeroLevel) IsZero() bool { return z <= 0 }

type WithZeroers2 struct {
	A ZeroStr    `struct:",omitempty"`
	B ZeroBytes  `struct:",omitempty"`
	C ZeroSet    `struct:",omitempty"`
	D ZeroArr    `struct:",omitempty"`
	E ZeroLevel  `struct:",omitempty"`
	F *ZeroStr   `struct:",omitempty"`
	G interface{} `struct:",omitempty"`
	H ZeroStr
	Z int
}

// Exemplars are values the random filler would practically never draw:
// "zero" values in the sense of IsZero that are not zero-length.
var Exemplars = map[reflect.Type][]interface{}{
	reflect.TypeOf(ZeroStr("")):   {ZeroStr("none"), ZeroStr("")},
	reflect.TypeOf(ZeroBytes(nil)): {ZeroBytes{0, 0}, ZeroBytes{0}},
	reflect.TypeOf(ZeroSet(nil)):   {ZeroSet{"a": false}, ZeroSet{"a": false, "b": false}},
	reflect.TypeOf(ZeroArr{}):      {ZeroArr{}},
	reflect.TypeOf(ZeroLevel(0)):   {ZeroLevel(-1), ZeroLevel(-100)},
}

// Folderer is an interface type that includes the Fold method (every value of
// it implements gotype.Folder; the interface itself may be nil).
type Folderer interface {
	Fold(v structform.ExtVisitor) error
}

type WithFolderIface struct {
	A int
	F Folderer
	L []Folderer
	M map[string]Folderer
	B int
}

// FoldererValues are the dynamic types Folderer positions draw from.
var FoldererValues = []reflect.Type{
	reflect.TypeOf(FoldVal{}), reflect.TypeOf(&FoldPtr{}), reflect.TypeOf(FoldArr{}), reflect.TypeOf(FoldTags{}), reflect.TypeOf(FoldNum(0)), reflect.TypeOf(&FoldVal{}),
}

// Str and StrBox implement Stringer (a non-empty interface that has nothing
// to do with folding) with a value and a pointer receiver.
type Str string

func (s Str) String() string { return string(s) }

type StrBox struct{ S string }

func (b *StrBox) String() string { return b.S }

// maps whose element type is a non-empty interface, plain and inline
type WithIfaceMaps struct {
	A  int
	M  map[string]Stringer
	L  []Stringer
	S  Stringer
	MF map[string]Folderer `struct:",inline"`
	Z  int
}

type InlineStringerMap struct {
	A int
	M map[string]Stringer `struct:",inline"`
	Z int
}

// StringerValues are the dynamic types Stringer positions draw from.
var StringerValues = []reflect.Type{reflect.TypeOf(Str("")), reflect.TypeOf(&StrBox{})}

// InlineCarrier is an object (so it may sit in an inline interface field)
// whose fields are slices and arrays without typed fast path; InlineThenPlain
// uses the same slice types again outside of the inline field.
type InlineCarrier struct {
	Items []Plain
	L     []interface{}
	A     [2]int
	N     NamedInts
}

type InlineThenPlain struct {
	X     interface{} `struct:",inline"`
	Items []Plain
	L     []interface{}
	A     [2]int
	Again interface{}
}

// nested inline interfaces
type InlineOuter struct {
	A int
	X interface{} `struct:",inline"`
	B int
}

type InlineInner struct {
	Y interface{} `struct:",inline"`
}

type Base struct {
	ID   int
	Name string `struct:"name"`
}

type EmbedInline struct {
	Base  `struct:",inline"`
	Extra string
}

type EmbedNamed struct {
	Base
	Extra string
}

type WithZeroers struct {
	A ZeroVal  `struct:",omitempty"`
	B ZeroPtr  `struct:",omitempty"`
	C *ZeroPtr `struct:",omitempty"`
	D ZeroInt  `struct:",omitempty"`
	E int
}

type WithFolders struct {
	V  FoldVal
	P  FoldPtr
	PP *FoldPtr
	A  FoldArr `struct:"arr"`
	L  []FoldVal
	M  map[string]FoldVal
	I  interface{}
}

type InlineFolder struct {
	V FoldVal `struct:",inline"`
	Z int
}

type InlinePtr struct {
	P *Plain `struct:",inline"`
	Z int
}

type InlineMap struct {
	M map[string]int `struct:",inline"`
	Z int
}

type InlineIface struct {
	I interface{} `struct:",inline"`
	Z int
}

// recursive types
type Node struct {
	Val  int
	Next *Node
}

type Tree struct {
	Name string
	Kids []Tree
}

type MapRec struct {
	M map[string]MapRec
}

// unsupported kinds
type WithChan struct{ C chan int }
type WithFunc struct{ F func() }
type WithComplex struct{ Z complex128 }
type WithIntKeyMap struct{ M map[int]string }
type WithArray struct{ A [3]int }
type WithUintptr struct{ U uintptr }
type Stringer interface{ String() string }
type WithNonEmptyIface struct{ S Stringer }

// Supported lists zoo types whose values round trip.
var Supported = []reflect.Type{
	reflect.TypeOf(NamedInt(0)), reflect.TypeOf(NamedU8(0)), reflect.TypeOf(NamedF64(0)), reflect.TypeOf(NamedBool(false)), reflect.TypeOf(NamedString("")),
	reflect.TypeOf(NamedInts(nil)), reflect.TypeOf(NamedStrings(nil)), reflect.TypeOf(NamedBytes(nil)), reflect.TypeOf(NamedIfaces(nil)),
	reflect.TypeOf(NamedMap(nil)), reflect.TypeOf(NamedIntMap(nil)), reflect.TypeOf(NamedIfaceMap(nil)),
	reflect.TypeOf(Plain{}), reflect.TypeOf(Base{}), reflect.TypeOf(EmbedInline{}), reflect.TypeOf(EmbedNamed{}),
	reflect.TypeOf(WithZeroers{}),
	reflect.TypeOf((*NamedAny)(nil)).Elem(), reflect.TypeOf(NamedAnys(nil)), reflect.TypeOf(NamedAnyMap(nil)),
}

// FoldOnly lists zoo types that fold (C09, C12) but whose custom Fold output
// cannot be unfolded back into the same type.
var FoldOnly = []reflect.Type{
	reflect.TypeOf(FoldVal{}), reflect.TypeOf(FoldPtr{}), reflect.TypeOf(&FoldPtr{}), reflect.TypeOf(FoldArr{}), reflect.TypeOf(WithFolders{}),
	reflect.TypeOf(InlineFolder{}), reflect.TypeOf(InlinePtr{}), reflect.TypeOf(InlineMap{}), reflect.TypeOf(InlineIface{}),
	reflect.TypeOf(FoldTags{}), reflect.TypeOf(FoldLabels{}), reflect.TypeOf(FoldNum(0)), reflect.TypeOf(WithNamedFolders{}),
	reflect.TypeOf([]interface{}{}), reflect.TypeOf(map[string]interface{}{}),
	reflect.TypeOf(WithZeroers2{}), reflect.TypeOf(ZeroStr("")), reflect.TypeOf(ZeroSet(nil)), reflect.TypeOf(WithFolderIface{}),
	reflect.TypeOf(InlineOuter{}), reflect.TypeOf(InlineInner{}),
	reflect.TypeOf(InlineThenPlain{}), reflect.TypeOf([]InlineThenPlain{}),
	reflect.TypeOf(WithIfaceMaps{}), reflect.TypeOf(InlineStringerMap{}), reflect.TypeOf(map[string]Stringer{}), reflect.TypeOf([]Folderer{}),
}

// IfaceValues maps the zoo's non-empty interface types to the dynamic types
// their positions draw from (gen.GoValueOpts.IfaceTypesFor).
var IfaceValues = map[reflect.Type][]reflect.Type{
	reflect.TypeOf((*Folderer)(nil)).Elem(): FoldererValues,
	reflect.TypeOf((*Stringer)(nil)).Elem(): StringerValues,
}

// FolderValues are dynamic types with custom Fold methods for interface{}
// positions.
var FolderValues = []reflect.Type{
	reflect.TypeOf(FoldVal{}), reflect.TypeOf(&FoldPtr{}), reflect.TypeOf(FoldArr{}), reflect.TypeOf(FoldTags{}), reflect.TypeOf(FoldLabels{}), reflect.TypeOf(FoldNum(0)),
	reflect.TypeOf(&FoldTags{}),
}

// Recursive lists self-referential types.
var Recursive = []reflect.Type{reflect.TypeOf(Node{}), reflect.TypeOf(Tree{}), reflect.TypeOf(MapRec{})}

// Unsupported lists types the library cannot represent.
var Unsupported = []reflect.Type{
	reflect.TypeOf(WithChan{}), reflect.TypeOf(WithFunc{}), reflect.TypeOf(WithComplex{}), reflect.TypeOf(WithIntKeyMap{}),
	reflect.TypeOf(WithNonEmptyIface{}), reflect.TypeOf(make(chan int)), reflect.TypeOf(complex64(0)), reflect.TypeOf(map[int]string{}),
}
