//go:build verif

// Package hook gives the harness access to the verif-tagged accessors in
// /repo.  With the tag off (fallback build) the stubs in hook_off.go report
// Enabled == false and hook-dependent assertions are skipped.
package hook

import (
	"github.com/elastic/go-structform/cborl"
	"github.com/elastic/go-structform/gotype"
	"github.com/elastic/go-structform/json"
	"github.com/elastic/go-structform/ubjson"
)

const Enabled = true

// SetStep installs the loop-progress callback in all three codecs.
func SetStep(f func(site, remaining int)) {
	json.VerifStepHook = f
	ubjson.VerifStepHook = f
	cborl.VerifStepHook = f
}

type depther interface{ VerifDepths() []int }

// Depths returns the nesting-stack depths of a parser, encoder, decoder or
// unfolder (nil if the object has no accessor).
func Depths(x interface{}) []int {
	if d, ok := x.(depther); ok {
		return d.VerifDepths()
	}
	return nil
}

type finalizer interface{ VerifFinalize() error }

// Finalize signals end of input to a parser that was fed with Write.
// ok is false when the parser has no end-of-input step.
func Finalize(p interface{}) (err error, ok bool) {
	if f, is := p.(finalizer); is {
		return f.VerifFinalize(), true
	}
	return nil, false
}

func KeyCacheKeys(u *gotype.Unfolder) []string { return u.VerifKeyCacheKeys() }
