//go:build !verif

package hook

import "github.com/elastic/go-structform/gotype"

const Enabled = false

func SetStep(f func(site, remaining int)) {}

func Depths(x interface{}) []int { return nil }

func Finalize(p interface{}) (error, bool) { return nil, false }

func KeyCacheKeys(u *gotype.Unfolder) []string { return nil }
