// Package ref holds the independent reference decoders (RFC 8259 through
// encoding/json, RFC 7049 and UBJSON draft 12 written for this harness).
// None of this code calls into the library under test.
package ref

import (
	"bytes"
	"encoding/json"
	"fmt"
	"io"
	"math"
	"strconv"
	"strings"

	"verif/harness/val"
)

type Status int

const (
	OK        Status = iota // a complete sequence of >= 0 values
	Truncated               // proper prefix of a longer valid input: ends inside a value
	Malformed
)

func (s Status) String() string { return [...]string{"ok", "truncated", "malformed"}[s] }

type Result struct {
	Status Status
	Values []val.V
	// Ends[i] is the offset just past value i.
	Ends []int
	// Features used by the input that lie outside the library's documented
	// subset (CBOR) or that are noteworthy for coverage.
	Features map[string]bool
	Err      string
}

func (r Result) Has(f string) bool { return r.Features[f] }

// Unsupported reports whether any feature outside the supported subset was
// used (CBOR).
func (r Result) Unsupported() bool {
	for f := range r.Features {
		if strings.HasPrefix(f, "x-") {
			return true
		}
	}
	return false
}

// ---------------------------------------------------------------------------
// JSON

// JSONNumber classifies a JSON number literal the way C04 words it: integer
// literals that fit int64/uint64 are that integer, everything else is the
// correctly rounded float64.  big is set for integer literals outside the
// 64-bit range, overflow for literals beyond the float64 range.
func JSONNumber(lit string) (v val.V, big, overflow bool) {
	isInt := !strings.ContainsAny(lit, ".eE")
	if isInt {
		if strings.HasPrefix(lit, "-") {
			if i, err := strconv.ParseInt(lit, 10, 64); err == nil {
				return val.VInt(i), false, false
			}
		} else if u, err := strconv.ParseUint(lit, 10, 64); err == nil {
			return val.VUint(u), false, false
		}
		big = true
	}
	f, err := strconv.ParseFloat(lit, 64)
	if err != nil {
		overflow = true
	}
	return val.VF64(f), big, overflow
}

// DecodeJSON decodes a sequence of whitespace-separated JSON texts.
func DecodeJSON(b []byte) Result {
	res := Result{Features: map[string]bool{}}
	dec := json.NewDecoder(bytes.NewReader(b))
	dec.UseNumber()
	for {
		v, err := jsonValue(dec, &res, 0)
		if err == io.EOF {
			// clean end between values; but trailing garbage that is only
			// whitespace is fine.
			res.Status = OK
			return res
		}
		if err != nil {
			res.Err = err.Error()
			if err == io.ErrUnexpectedEOF || strings.Contains(err.Error(), "unexpected EOF") || strings.Contains(err.Error(), "unexpected end of JSON input") {
				res.Status = Truncated
			} else {
				res.Status = Malformed
			}
			return res
		}
		res.Values = append(res.Values, v)
		res.Ends = append(res.Ends, int(dec.InputOffset()))
	}
}

func jsonValue(dec *json.Decoder, res *Result, depth int) (val.V, error) {
	tok, err := dec.Token()
	if err != nil {
		if err == io.EOF && depth > 0 {
			return val.V{}, io.ErrUnexpectedEOF
		}
		return val.V{}, err
	}
	return jsonFromToken(dec, res, tok, depth)
}

func jsonFromToken(dec *json.Decoder, res *Result, tok json.Token, depth int) (val.V, error) {
	switch t := tok.(type) {
	case nil:
		return val.VNil(), nil
	case bool:
		return val.VBool(t), nil
	case string:
		return val.VStr(t), nil
	case json.Number:
		v, big, ovf := JSONNumber(string(t))
		if big {
			res.Features["big-int"] = true
		}
		if ovf {
			res.Features["float-overflow"] = true
		}
		return v, nil
	case json.Delim:
		switch t {
		case '[':
			out := val.V{K: val.Arr}
			for {
				tok, err := dec.Token()
				if err != nil {
					if err == io.EOF {
						err = io.ErrUnexpectedEOF
					}
					return out, err
				}
				if d, ok := tok.(json.Delim); ok && d == ']' {
					return out, nil
				}
				e, err := jsonFromToken(dec, res, tok, depth+1)
				if err != nil {
					return out, err
				}
				out.A = append(out.A, e)
			}
		case '{':
			out := val.V{K: val.Obj}
			for {
				tok, err := dec.Token()
				if err != nil {
					if err == io.EOF {
						err = io.ErrUnexpectedEOF
					}
					return out, err
				}
				if d, ok := tok.(json.Delim); ok && d == '}' {
					return out, nil
				}
				k, ok := tok.(string)
				if !ok {
					return out, fmt.Errorf("non-string key")
				}
				e, err := jsonValue(dec, res, depth+1)
				if err != nil {
					if err == io.EOF {
						err = io.ErrUnexpectedEOF
					}
					return out, err
				}
				out.Keys = append(out.Keys, k)
				out.A = append(out.A, e)
			}
		}
		return val.V{}, fmt.Errorf("unexpected delimiter %v", t)
	}
	return val.V{}, fmt.Errorf("unexpected token %T", tok)
}

// ---------------------------------------------------------------------------
// CBOR (RFC 7049)

type errTrunc struct{}

func (errTrunc) Error() string { return "truncated" }

type cborDec struct {
	b     []byte
	pos   int
	feats map[string]bool
}

func (d *cborDec) need(n int) error {
	if n < 0 || d.pos+n > len(d.b) || d.pos+n < d.pos {
		return errTrunc{}
	}
	return nil
}

func (d *cborDec) arg(ai byte) (uint64, error) {
	switch {
	case ai < 24:
		return uint64(ai), nil
	case ai == 24:
		if err := d.need(1); err != nil {
			return 0, err
		}
		v := uint64(d.b[d.pos])
		d.pos++
		return v, nil
	case ai == 25:
		if err := d.need(2); err != nil {
			return 0, err
		}
		v := uint64(d.b[d.pos])<<8 | uint64(d.b[d.pos+1])
		d.pos += 2
		return v, nil
	case ai == 26:
		if err := d.need(4); err != nil {
			return 0, err
		}
		var v uint64
		for i := 0; i < 4; i++ {
			v = v<<8 | uint64(d.b[d.pos+i])
		}
		d.pos += 4
		return v, nil
	case ai == 27:
		if err := d.need(8); err != nil {
			return 0, err
		}
		var v uint64
		for i := 0; i < 8; i++ {
			v = v<<8 | uint64(d.b[d.pos+i])
		}
		d.pos += 8
		return v, nil
	}
	return 0, fmt.Errorf("reserved additional information %d", ai)
}

var errBreak = fmt.Errorf("break")

func halfToFloat(h uint16) float64 {
	exp := int((h >> 10) & 0x1f)
	mant := float64(h & 0x3ff)
	var v float64
	switch exp {
	case 0:
		v = math.Ldexp(mant, -24)
	case 31:
		if mant == 0 {
			v = math.Inf(1)
		} else {
			v = math.NaN()
		}
	default:
		v = math.Ldexp(mant+1024, exp-25)
	}
	if h&0x8000 != 0 {
		return -v
	}
	return v
}

func (d *cborDec) item(depth int) (val.V, error) {
	if depth > 10000 {
		return val.V{}, fmt.Errorf("too deep")
	}
	if err := d.need(1); err != nil {
		return val.V{}, err
	}
	ib := d.b[d.pos]
	d.pos++
	major, ai := ib>>5, ib&0x1f
	switch major {
	case 0:
		u, err := d.arg(ai)
		if err != nil {
			return val.V{}, err
		}
		return val.VUint(u), nil
	case 1:
		u, err := d.arg(ai)
		if err != nil {
			return val.V{}, err
		}
		if u > math.MaxInt64 {
			d.feats["x-neg-below-int64"] = true
		}
		return val.VNegMag(u + 1), nil
	case 2, 3:
		var data []byte
		if ai == 31 {
			d.feats["x-indef-string"] = true
			for {
				if err := d.need(1); err != nil {
					return val.V{}, err
				}
				c := d.b[d.pos]
				if c == 0xff {
					d.pos++
					break
				}
				if c>>5 != major || c&0x1f == 31 {
					return val.V{}, fmt.Errorf("bad chunk in indefinite string")
				}
				d.pos++
				n, err := d.arg(c & 0x1f)
				if err != nil {
					return val.V{}, err
				}
				if n > uint64(len(d.b)) {
					return val.V{}, errTrunc{}
				}
				if err := d.need(int(n)); err != nil {
					return val.V{}, err
				}
				data = append(data, d.b[d.pos:d.pos+int(n)]...)
				d.pos += int(n)
			}
		} else {
			n, err := d.arg(ai)
			if err != nil {
				return val.V{}, err
			}
			if n > uint64(len(d.b)) {
				return val.V{}, errTrunc{}
			}
			if err := d.need(int(n)); err != nil {
				return val.V{}, err
			}
			data = d.b[d.pos : d.pos+int(n)]
			d.pos += int(n)
		}
		if major == 3 {
			return val.VStr(string(data)), nil
		}
		d.feats["bytes"] = true
		out := val.V{K: val.Arr, A: make([]val.V, len(data))}
		for i, c := range data {
			out.A[i] = val.VUint(uint64(c))
		}
		return out, nil
	case 4:
		out := val.V{K: val.Arr}
		if ai == 31 {
			d.feats["indef-container"] = true
			for {
				e, err := d.item(depth + 1)
				if err == errBreak {
					return out, nil
				}
				if err != nil {
					return out, err
				}
				out.A = append(out.A, e)
			}
		}
		n, err := d.arg(ai)
		if err != nil {
			return out, err
		}
		for i := uint64(0); i < n; i++ {
			e, err := d.item(depth + 1)
			if err == errBreak {
				return out, fmt.Errorf("break inside definite array")
			}
			if err != nil {
				return out, err
			}
			out.A = append(out.A, e)
		}
		return out, nil
	case 5:
		out := val.V{K: val.Obj}
		pair := func() error {
			start := d.pos
			k, err := d.item(depth + 1)
			if err != nil {
				return err
			}
			if d.b[start]>>5 != 3 {
				d.feats["x-nontext-key"] = true
			}
			v, err := d.item(depth + 1)
			if err == errBreak {
				return fmt.Errorf("break in place of a map value")
			}
			if err != nil {
				return err
			}
			out.Keys = append(out.Keys, k.S)
			out.A = append(out.A, v)
			return nil
		}
		if ai == 31 {
			d.feats["indef-container"] = true
			for {
				err := pair()
				if err == errBreak {
					return out, nil
				}
				if err != nil {
					return out, err
				}
			}
		}
		n, err := d.arg(ai)
		if err != nil {
			return out, err
		}
		for i := uint64(0); i < n; i++ {
			err := pair()
			if err == errBreak {
				return out, fmt.Errorf("break inside definite map")
			}
			if err != nil {
				return out, err
			}
		}
		return out, nil
	case 6:
		if _, err := d.arg(ai); err != nil {
			return val.V{}, err
		}
		d.feats["x-tag"] = true
		v, err := d.item(depth + 1)
		if err == errBreak {
			return v, fmt.Errorf("break after tag")
		}
		return v, err
	default:
		switch {
		case ai < 20:
			d.feats["x-simple"] = true
			return val.VNil(), nil
		case ai == 20:
			return val.VBool(false), nil
		case ai == 21:
			return val.VBool(true), nil
		case ai == 22:
			return val.VNil(), nil
		case ai == 23:
			d.feats["undefined"] = true
			return val.VNil(), nil
		case ai == 24:
			if err := d.need(1); err != nil {
				return val.V{}, err
			}
			s := d.b[d.pos]
			d.pos++
			if s < 32 {
				return val.V{}, fmt.Errorf("invalid two-byte simple value %d", s)
			}
			d.feats["x-simple"] = true
			return val.VNil(), nil
		case ai == 25:
			if err := d.need(2); err != nil {
				return val.V{}, err
			}
			h := uint16(d.b[d.pos])<<8 | uint16(d.b[d.pos+1])
			d.pos += 2
			d.feats["x-half"] = true
			return val.VF64(halfToFloat(h)), nil
		case ai == 26:
			u, err := d.arg(26)
			if err != nil {
				return val.V{}, err
			}
			return val.V{K: val.F32, Bits: u}, nil
		case ai == 27:
			u, err := d.arg(27)
			if err != nil {
				return val.V{}, err
			}
			return val.V{K: val.F64, Bits: u}, nil
		case ai == 31:
			return val.V{}, errBreak
		}
		return val.V{}, fmt.Errorf("reserved additional information %d in major 7", ai)
	}
}

// DecodeCBOR decodes a sequence of CBOR data items.
func DecodeCBOR(b []byte) Result {
	d := &cborDec{b: b, feats: map[string]bool{}}
	res := Result{Features: d.feats}
	for d.pos < len(b) {
		v, err := d.item(0)
		if err != nil {
			res.Err = err.Error()
			if _, ok := err.(errTrunc); ok {
				res.Status = Truncated
			} else {
				res.Status = Malformed
			}
			return res
		}
		res.Values = append(res.Values, v)
		res.Ends = append(res.Ends, d.pos)
	}
	return res
}

// ---------------------------------------------------------------------------
// UBJSON (draft 12)

type ubjDec struct {
	b     []byte
	pos   int
	feats map[string]bool
	nodes int
}

var errAmplified = fmt.Errorf("more values than 16 per input byte (zero-width typed container)")

func (d *ubjDec) need(n int) error {
	if n < 0 || d.pos+n > len(d.b) || d.pos+n < d.pos {
		return errTrunc{}
	}
	return nil
}

func (d *ubjDec) be(n int) (uint64, error) {
	if err := d.need(n); err != nil {
		return 0, err
	}
	var v uint64
	for i := 0; i < n; i++ {
		v = v<<8 | uint64(d.b[d.pos+i])
	}
	d.pos += n
	return v, nil
}

// length reads an integer (with marker) used as a length/count.
func (d *ubjDec) length() (int, error) {
	if err := d.need(1); err != nil {
		return 0, err
	}
	m := d.b[d.pos]
	d.pos++
	var n int64
	switch m {
	case 'i':
		u, err := d.be(1)
		if err != nil {
			return 0, err
		}
		n = int64(int8(u))
	case 'U':
		u, err := d.be(1)
		if err != nil {
			return 0, err
		}
		n = int64(u)
	case 'I':
		u, err := d.be(2)
		if err != nil {
			return 0, err
		}
		n = int64(int16(u))
	case 'l':
		u, err := d.be(4)
		if err != nil {
			return 0, err
		}
		n = int64(int32(u))
	case 'L':
		u, err := d.be(8)
		if err != nil {
			return 0, err
		}
		n = int64(u)
	default:
		return 0, fmt.Errorf("invalid length marker %q", m)
	}
	if n < 0 {
		return 0, fmt.Errorf("negative length")
	}
	if n > int64(^uint(0)>>1) {
		// (32-bit builds) more than any input can back
		return 0, errTrunc{}
	}
	return int(n), nil
}

func (d *ubjDec) str() (string, error) {
	n, err := d.length()
	if err != nil {
		return "", err
	}
	if n > len(d.b) {
		return "", errTrunc{}
	}
	if err := d.need(n); err != nil {
		return "", err
	}
	s := string(d.b[d.pos : d.pos+n])
	d.pos += n
	return s, nil
}

var errNoop = fmt.Errorf("noop")
var errArrEnd = fmt.Errorf("]")

func validMarker(m byte) bool {
	return strings.IndexByte("ZNTFiUIlLdDHCS[{", m) >= 0
}

// payload decodes the value whose marker m has already been consumed.
func (d *ubjDec) payload(m byte, depth int) (val.V, error) {
	if depth > 10000 {
		return val.V{}, fmt.Errorf("too deep")
	}
	switch m {
	case 'Z':
		return val.VNil(), nil
	case 'N':
		return val.V{}, errNoop
	case 'T':
		return val.VBool(true), nil
	case 'F':
		return val.VBool(false), nil
	case 'i':
		u, err := d.be(1)
		return val.VInt(int64(int8(u))), err
	case 'U':
		u, err := d.be(1)
		return val.VUint(u), err
	case 'I':
		u, err := d.be(2)
		return val.VInt(int64(int16(u))), err
	case 'l':
		u, err := d.be(4)
		return val.VInt(int64(int32(u))), err
	case 'L':
		u, err := d.be(8)
		return val.VInt(int64(u)), err
	case 'd':
		u, err := d.be(4)
		return val.V{K: val.F32, Bits: u}, err
	case 'D':
		u, err := d.be(8)
		return val.V{K: val.F64, Bits: u}, err
	case 'C':
		u, err := d.be(1)
		d.feats["char"] = true
		if err == nil && u > 127 {
			// draft 12: a char "must not have a decimal value larger than 127"
			return val.V{}, fmt.Errorf("char marker with value %d above 127", u)
		}
		return val.VUint(u), err
	case 'H':
		s, err := d.str()
		d.feats["highprec"] = true
		return val.VStr(s), err
	case 'S':
		s, err := d.str()
		return val.VStr(s), err
	case '[':
		return d.container(false, depth)
	case '{':
		return d.container(true, depth)
	}
	return val.V{}, fmt.Errorf("unknown marker %q", m)
}

func (d *ubjDec) container(obj bool, depth int) (val.V, error) {
	out := val.V{K: val.Arr}
	if obj {
		out.K = val.Obj
	}
	typ := byte(0)
	count := -1
	if err := d.need(1); err != nil {
		return out, err
	}
	if d.b[d.pos] == '$' {
		d.pos++
		if err := d.need(1); err != nil {
			return out, err
		}
		typ = d.b[d.pos]
		d.pos++
		if !validMarker(typ) {
			return out, fmt.Errorf("invalid type marker %q", typ)
		}
		if err := d.need(1); err != nil {
			return out, err
		}
		if d.b[d.pos] != '#' {
			return out, fmt.Errorf("type without count")
		}
		d.feats["typed"] = true
		if typ == '[' || typ == '{' {
			d.feats["typed-container-of-containers"] = true
		}
		if typ == 'N' {
			d.feats["typed-noop"] = true
		}
	}
	if err := d.need(1); err != nil {
		return out, err
	}
	if d.b[d.pos] == '#' {
		d.pos++
		n, err := d.length()
		if err != nil {
			return out, err
		}
		count = n
		d.feats["counted"] = true
	}
	if typ == 'N' && !obj {
		// a typed array of no-ops holds nothing
		return out, nil
	}
	for i := 0; count < 0 || i < count; i++ {
		var key string
		if obj {
			// a no-op where a key (or the end marker) is expected: a key starts
			// with an integer marker, so 'N' here is unambiguously a no-op
			for d.pos < len(d.b) && d.b[d.pos] == 'N' {
				d.pos++
				d.feats["noop-before-key"] = true
			}
			if count < 0 {
				if err := d.need(1); err != nil {
					return out, err
				}
				if d.b[d.pos] == '}' {
					d.pos++
					return out, nil
				}
			}
			k, err := d.str()
			if err != nil {
				return out, err
			}
			key = k
		}
		var v val.V
		var err error
		for {
			m := typ
			if typ == 0 {
				if err := d.need(1); err != nil {
					return out, err
				}
				m = d.b[d.pos]
				d.pos++
				if !obj && count < 0 && m == ']' {
					return out, nil
				}
			}
			v, err = d.payload(m, depth+1)
			if err == errNoop {
				if typ != 0 {
					// a typed container of no-ops has no elements worth reporting
					v, err = val.V{}, nil
					break
				}
				d.feats["noop-in-container"] = true
				if count >= 0 {
					d.feats["noop-in-counted"] = true
				}
				if obj {
					d.feats["noop-in-object"] = true
				}
				continue
			}
			break
		}
		if err != nil {
			return out, err
		}
		if typ == 'N' {
			continue
		}
		d.nodes++
		if d.nodes > 16*len(d.b)+1024 {
			d.feats["amplified"] = true
			return out, errAmplified
		}
		if obj {
			out.Keys = append(out.Keys, key)
		}
		out.A = append(out.A, v)
	}
	return out, nil
}

// DecodeUBJSON decodes a sequence of UBJSON values (no-ops between them are
// skipped).
func DecodeUBJSON(b []byte) Result {
	d := &ubjDec{b: b, feats: map[string]bool{}}
	res := Result{Features: d.feats}
	for d.pos < len(b) {
		m := d.b[d.pos]
		d.pos++
		v, err := d.payload(m, 0)
		if err == errNoop {
			d.feats["noop-top"] = true
			continue
		}
		if err != nil {
			res.Err = err.Error()
			if _, ok := err.(errTrunc); ok {
				res.Status = Truncated
			} else {
				res.Status = Malformed
			}
			return res
		}
		res.Values = append(res.Values, v)
		res.Ends = append(res.Ends, d.pos)
	}
	return res
}
