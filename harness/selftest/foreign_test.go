package selftest

import (
	"testing"

	"verif/harness/gen"
	"verif/harness/ref"
	"verif/harness/val"
)

// The foreign generators and the reference decoders are written
// independently of each other; they must agree.
func TestForeignAgainstRef(t *testing.T) {
	for _, codec := range []string{"json", "cborl", "ubjson"} {
		for i := 0; i < 30000; i++ {
			r := gen.New(gen.Mix(7, uint64(i), gen.HashString(codec)))
			d := gen.ForeignDoc(r, codec, 5, 40, false)
			var res ref.Result
			switch codec {
			case "json":
				res = ref.DecodeJSON(d.Bytes)
			case "cborl":
				res = ref.DecodeCBOR(d.Bytes)
			default:
				res = ref.DecodeUBJSON(d.Bytes)
			}
			if res.Status != ref.OK || len(res.Values) != 1 {
				t.Fatalf("%s #%d: ref status %v (%s), %d values\n%q", codec, i, res.Status, res.Err, len(res.Values), d.Bytes)
			}
			if diff := val.Equal(d.Values[0], res.Values[0], val.NumExact); diff != "" {
				t.Fatalf("%s #%d: %s\n%q", codec, i, diff, d.Bytes)
			}
			// every proper prefix is truncated or a shorter complete sequence, never malformed
			if i%50 == 0 {
				for cut := 0; cut < len(d.Bytes); cut++ {
					var pr ref.Result
					switch codec {
					case "json":
						pr = ref.DecodeJSON(d.Bytes[:cut])
					case "cborl":
						pr = ref.DecodeCBOR(d.Bytes[:cut])
					default:
						pr = ref.DecodeUBJSON(d.Bytes[:cut])
					}
					if pr.Status == ref.Malformed {
						t.Fatalf("%s #%d: prefix %d classified malformed (%s)\n%q", codec, i, cut, pr.Err, d.Bytes[:cut])
					}
				}
			}
		}
	}
}
