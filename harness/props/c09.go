package props

import (
	"fmt"
	"reflect"

	structform "github.com/elastic/go-structform"
	"github.com/elastic/go-structform/gotype"

	"verif/harness/codec"
	"verif/harness/gen"
	"verif/harness/mon"
	"verif/harness/run"
	"verif/harness/val"
	"verif/harness/zoo"
)

// C09: every producer emits only well-formed event streams.

// contractVerdict reports a contract violation recorded by m; complete says
// whether the producer claimed success (then the stream must also be
// balanced).
func contractVerdict(c *run.C, producer string, m *mon.Monitor, complete bool, input string) bool {
	if m.Violation != "" {
		evs := m.Events
		if len(evs) > m.ViolAt {
			evs = evs[:m.ViolAt]
		}
		c.Violationf("contract", producer+":"+contractClass(m.Violation), "%s violated the visitor contract at event %d: %s\n%s\ntrace prefix=%s", producer, m.ViolAt, m.Violation, input, evs)
		return false
	}
	if complete && !m.Idle() {
		c.Violationf("contract", producer+":unbalanced", "%s reported success but left %d containers open\n%s\nevents=%s", producer, m.Depth(), input, m.Events)
		return false
	}
	return true
}

func contractClass(v string) string {
	switch {
	case len(v) > 20 && v[:19] == "container announced":
		if len(v) > 40 && v[20:32] == "element type" {
			return "element-type"
		}
		return "announced-length"
	}
	for _, k := range []string{"without a matching start", "closes a container", "key waits", "outside of an object", "two keys", "without a preceding key", "element type", "announces length"} {
		if contains(v, k) {
			return k
		}
	}
	return "other"
}

func contains(s, sub string) bool {
	for i := 0; i+len(sub) <= len(s); i++ {
		if s[i:i+len(sub)] == sub {
			return true
		}
	}
	return false
}

func observeAutomaton(c *run.C, m *mon.Monitor) {
	c.Observe("events_checked", m.NEvents)
	c.ObserveMax("max_depth_seen", m.MaxDepth)
	for k, n := range m.Seen {
		if n > 0 {
			c.Observe("event_"+val.Kind(k).String(), n)
		}
	}
	for tr := range m.Transition {
		c.Nontrivial(gen.Mix(900, uint64(tr[0]), uint64(tr[1])))
	}
}

// parsers on accepted input: valid documents and whatever hostile input the
// parser happens to accept.
func c09Parsers(c *run.C) {
	r := c.R
	cd := codec.All[c.Idx%3]
	var doc []byte
	origin := ""
	switch r.Intn(4) {
	case 0:
		doc, origin = gen.ForeignDoc(r, cd.Name, 6, 50, false).Bytes, "foreign"
	case 1:
		s := gen.Stream(r, gen.StreamOpts{MaxDepth: 6, MaxNodes: 50, Extended: true, Refs: true, BadUTF8: true, SpecialF: true, TypedBasic: true, Deep: true})
		b, err := encode(cd, codec.JSONOptsFromIndex(r.Intn(8)|4), s)
		if err != nil {
			return
		}
		doc, origin = b, "own"
	default:
		base := gen.ForeignDoc(r, cd.Name, 4, 25, false).Bytes
		var how string
		doc, how = gen.Mutate(r, base, gen.Interesting(cd.Name))
		origin = "hostile:" + how
	}
	sizes := [][]int{nil, {1}, {r.Range(1, 9), r.Range(1, 70)}}[r.Intn(3)]
	c.Begin(c02Case{Codec: cd.Name, Origin: origin, Doc: hexs(doc), Sizes: sizes})
	m := mon.NewMonitor()
	m.Transition = map[[2]uint8]int{}
	m.Budget = 64 + 16*len(doc)
	var err error
	ok, _ := guardCall(c, cd.Name+".parse", func() int { return m.NEvents }, func() {
		if sizes == nil {
			err = cd.Parse(doc, m.WithRefs())
		} else {
			_, err = cd.ParseReader(&mon.ChunkReader{Data: doc, Sizes: sizes, EOFWithData: len(doc)%2 == 1}, m.WithRefs())
		}
	})
	if !ok {
		return
	}
	if err != nil {
		c.Observe("inputs_rejected", 1)
		return
	}
	c.Observe("inputs_accepted_"+cd.Name, 1)
	if origin != "foreign" && origin != "own" {
		c.Observe("hostile_inputs_accepted", 1)
	}
	if contractVerdict(c, cd.Name+" parser", m, true, "input="+hexs(doc)) {
		observeAutomaton(c, m)
	}
	c.Nontrivial(gen.Mix(uint64(c.Idx%3), gen.HashBytes(doc)))
	if len(doc) < 120 {
		c.Sample("parser-"+cd.Name, map[string]string{"origin": origin, "doc_hex": hexs(doc)})
	}
}

// adapters: EnsureExtVisitor over a sink that implements only the basic
// events must expand every extended event into a well-formed stream.
func c09Adapters(c *run.C) {
	r := c.R
	s := gen.Stream(r, gen.StreamOpts{MaxDepth: 4, MaxNodes: 30, Extended: true, Refs: true, BadUTF8: true, SpecialF: true, TypedBasic: true})
	if c.Idx%2 == 0 {
		kinds := append(append([]val.Kind{}, gen.ExtArrayKinds...), gen.ExtObjectKinds...)
		ev := gen.ExtEvent(r, kinds[(c.Idx/2)%len(kinds)], -1, true, true)
		s = val.Stream{{K: val.EArrStart, N: 3}, ev, {K: val.EStringRef, S: "r"}, {K: val.EObjStart, N: 1}, {K: val.EKeyRef, S: "k"}, ev, {K: val.EObjEnd}, {K: val.EArrEnd}}
	}
	sinkKind := r.Intn(2)
	c.Begin(map[string]interface{}{"stream": s, "sink": sinkKind})
	m := mon.NewMonitor()
	m.Transition = map[[2]uint8]int{}
	var sink structform.Visitor
	if sinkKind == 0 {
		sink = m.Basic()
	} else {
		sink = m.WithRefs()
	}
	var err error
	if !c.Guard("adapter", func() { err = mon.Replay(s, sink, mon.ReplayOpts{ScribbleRefs: true}) }) {
		return
	}
	if err != nil {
		c.Violationf("adapter-error", "adapter:error", "adapter returned %v although the sink accepts everything\nstream=%s", err, s)
		return
	}
	if !contractVerdict(c, "EnsureExtVisitor adapter", m, true, "stream="+s.String()) {
		return
	}
	for _, e := range m.Events {
		if e.K.IsExtArray() || e.K.IsExtObject() || (sinkKind == 0 && (e.K == val.EStringRef || e.K == val.EKeyRef)) {
			c.Violationf("contract", "adapter:extended-leak", "adapter passed extended event %s to a sink that does not implement it", e.K)
			return
		}
	}
	// the expansion must describe the same value
	got, verr := m.Events.Values()
	if verr != nil || len(got) != 1 {
		c.Violationf("contract", "adapter:not-one-value", "expanded stream is not one value (%v)\nevents=%s", verr, m.Events)
		return
	}
	if d := val.Equal(s.Value(), got[0], val.NumExact); d != "" {
		c.Violationf("mismatch", "adapter:value", "expansion changed the value: %s\nstream=%s\nexpanded=%s", d, s, m.Events)
		return
	}
	observeAutomaton(c, m)
	c.Observe("adapter_streams", 1)
	c.Nontrivial(gen.Mix(91, gen.HashString(s.String())))
}

var c09Suites = []*run.Suite{
	{Name: "parsers", N: tierN(240000, 9000000), Case: c09Parsers, Require: []string{"inputs_accepted_json", "inputs_accepted_ubjson", "inputs_accepted_cborl", "hostile_inputs_accepted", "events_checked"}},
	{Name: "adapters", N: tierN(60000, 2000000), Case: c09Adapters, Require: []string{"adapter_streams"}},
}

func init() {
	run.Register(&run.Check{
		ID:    "C09",
		Level: "exploration",
		Rule: "an online push-down trace checker (balanced and properly nested starts/finishes, exactly one key before every value inside objects, element count == announced length, element kind == announced element type) sits behind " +
			"(a) the three parsers on every input they accept: foreign documents, own-encoder documents and mutated documents that happen to be accepted, whole and chunked; " +
			"(b) gotype.Fold of generated (type, value) pairs: struct tag combinations omit/omitempty/inline, pointers, interfaces, maps, slices, custom folders, static zoo types; " +
			"(c) the EnsureExtVisitor adapters over sinks implementing only the basic events, fed all 31 extended events. " +
			"distinct_nontrivial counts distinct inputs / (type,value) pairs plus distinct (automaton state class, event kind) transitions visited.",
		Assumptions: []string{
			"OnByte and OnUint8 both satisfy an announced ByteType/Uint8Type element type",
			"events after a completed top-level value start a new document (streams are legal)",
		},
		Suites: c09Suites,
	})
	_ = fmt.Sprint
}

// fold: gotype.Fold of generated (type, value) pairs behind the automaton.
func c09Fold(c *run.C) {
	r := c.R
	var t reflect.Type
	var v reflect.Value
	var opts []gotype.FoldOption
	how := "generated"
	switch {
	case c.Idx%10 == 0:
		all := append(append([]reflect.Type{}, zoo.Supported...), zoo.FoldOnly...)
		t = all[(c.Idx/10)%len(all)]
		ifaceTypes := []reflect.Type{reflect.TypeOf(zoo.Plain{}), reflect.TypeOf(map[string]int{}), reflect.TypeOf(map[string]interface{}{}), reflect.TypeOf(zoo.FoldVal{})}
		vg := &gen.ValueGen{R: r, O: gen.GoValueOpts{BadUTF8: true, SpecialF: true, IfaceTypes: ifaceTypes}}
		v = vg.Value(t, 0)
		how = "zoo"
	case c.Idx%10 == 1:
		t = []reflect.Type{reflect.TypeOf(withReg{}), reflect.TypeOf(withRegInline{}), reflect.TypeOf([]*regB{}), reflect.TypeOf(map[string]regA{})}[(c.Idx/10)%4]
		vg := &gen.ValueGen{R: r, O: gen.GoValueOpts{IfaceTypes: []reflect.Type{reflect.TypeOf(regA{}), reflect.TypeOf(&regB{}), reflect.TypeOf(0)}}}
		v = vg.Value(t, 0)
		opts = []gotype.FoldOption{gotype.Folders(foldRegA, foldRegB)}
		how = "registered"
	default:
		t, v = genTypeValue(r, gen.GoTypeOpts{MaxDepth: 4, Arrays: true, Extra: zoo.Supported}, gen.GoValueOpts{BadUTF8: true, SpecialF: true})
	}
	tags := typeTags(t)
	c.Begin(goCase{Type: t.String(), Value: valueString(v), How: how, Tags: tags})
	for _, tg := range tags {
		c.Tag(tg)
	}
	m := mon.NewMonitor()
	m.Transition = map[[2]uint8]int{}
	var sink structform.Visitor = m
	sinkName := "ext"
	switch r.Intn(3) {
	case 1:
		sink, sinkName = m.Basic(), "basic"
	case 2:
		sink, sinkName = m.WithRefs(), "basic+refs"
	}
	err, ok := foldInto(c, v, r.Bool(), sink, opts...)
	if !ok {
		return
	}
	if err != nil {
		c.Observe("fold_errors", 1)
		return
	}
	if !contractVerdict(c, "gotype.Fold ("+sinkName+" sink)", m, true, "type="+t.String()+"\nvalue="+valueString(v)) {
		return
	}
	observeAutomaton(c, m)
	c.Observe("folds_checked", 1)
	for _, tg := range tags {
		c.Observe(tg, 1)
	}
	c.Nontrivial(gen.Mix(92, gen.HashString(t.String()), gen.HashString(valueString(v))))
	if len(t.String()) < 200 {
		c.Sample("fold", goCase{Type: t.String(), Value: valueString(v)})
	}
}

func init() {
	chk := run.Lookup("C09")
	chk.Suites = append(chk.Suites, &run.Suite{Name: "fold", N: tierN(150000, 5000000), Case: c09Fold,
		Require: []string{"folds_checked", "type:tag-omitempty", "type:tag-inline", "type:tag-omit", "type:ptr", "type:interface", "type:map", "type:slice"}})
}
