package props

import (
	"fmt"
	"math"
	"reflect"
	"unicode/utf8"

	"verif/harness/codec"
	"verif/harness/gen"
	"verif/harness/ref"
	"verif/harness/run"
	"verif/harness/val"
)

// C07: each encoder emits only valid documents that an independent decoder
// reads back.

// numberKinds lists, in document order, whether each number the stream
// writes is a float (true) or an integer (false); non-finite floats are
// marked by 2.
func numberKinds(s val.Stream) []int {
	var out []int
	f := func(bits uint64, is32 bool) int {
		var x float64
		if is32 {
			x = float64(math.Float32frombits(uint32(bits)))
		} else {
			x = math.Float64frombits(bits)
		}
		if math.IsNaN(x) || math.IsInf(x, 0) {
			return 2
		}
		return 1
	}
	for _, e := range s {
		switch {
		case e.K == val.EFloat32:
			out = append(out, f(e.F, true))
		case e.K == val.EFloat64:
			out = append(out, f(e.F, false))
		case e.K >= val.EInt8 && e.K <= val.EUint:
			out = append(out, 0)
		case e.K.IsExtArray() || e.K.IsExtObject():
			rv := reflect.ValueOf(e.X)
			et := val.ElemType(e.K)
			n := rv.Len()
			switch et.Kind() {
			case reflect.Bool, reflect.String:
			case reflect.Float32, reflect.Float64:
				vals := make([]float64, 0, n)
				if e.K.IsExtArray() {
					for i := 0; i < n; i++ {
						vals = append(vals, rv.Index(i).Float())
					}
					for _, x := range vals {
						if math.IsNaN(x) || math.IsInf(x, 0) {
							out = append(out, 2)
						} else {
							out = append(out, 1)
						}
					}
				} else {
					// map order unknown: mark as "float, maybe non-finite" (3)
					for i := 0; i < n; i++ {
						out = append(out, 3)
					}
				}
			default:
				for i := 0; i < n; i++ {
					out = append(out, 0)
				}
			}
		}
	}
	return out
}

// jsonNumberTokens returns the number tokens of a JSON text (outside
// strings) and the literal tokens "null" found in value position count.
func jsonScan(b []byte) (numbers []string, problems []string) {
	inStr := false
	esc := false
	for i := 0; i < len(b); i++ {
		c := b[i]
		if inStr {
			if c < 0x20 {
				problems = append(problems, fmt.Sprintf("raw control character 0x%02x inside a string at %d", c, i))
			}
			switch {
			case esc:
				esc = false
			case c == '\\':
				esc = true
			case c == '"':
				inStr = false
			}
			continue
		}
		switch {
		case c == '"':
			inStr = true
		case c == '-' || (c >= '0' && c <= '9'):
			j := i
			for j < len(b) && (b[j] == '+' || b[j] == '-' || b[j] == '.' || b[j] == 'e' || b[j] == 'E' || (b[j] >= '0' && b[j] <= '9')) {
				j++
			}
			numbers = append(numbers, string(b[i:j]))
			i = j - 1
		case c < 0x20 && c != '\n' && c != '\t' && c != '\r':
			problems = append(problems, fmt.Sprintf("raw control character 0x%02x at %d", c, i))
		}
	}
	return
}

func c07One(c *run.C, cd *codec.Codec, o codec.JSONOpts, s val.Stream) {
	expect := s.Value()
	var buf []byte
	var encErr error
	if !c.Guard(cd.Name+".encode", func() { buf, encErr = encode(cd, o, s) }) {
		return
	}
	nonFinite := hasNonFiniteStream(s)
	if encErr != nil {
		if cd.Name == "json" && nonFinite && !o.IgnoreInvalidFloat {
			c.Observe("json_nonfinite_refused", 1)
			return
		}
		c.Violationf("encode-error", cd.Name+":encode-error", "%s encoder returned %v for well-formed stream %s", cd.Name, encErr, s)
		return
	}
	rr := refDecode(cd.Name, buf)
	if rr.Status != ref.OK {
		c.Violationf("invalid-output", cd.Name+":invalid-output", "%s encoder wrote a document the reference decoder rejects (%s: %s)\nbytes=%s\ntext=%q\nstream=%s", cd.Name, rr.Status, rr.Err, hexs(buf), clipb(buf), s)
		return
	}
	if len(rr.Values) != 1 {
		c.Violationf("invalid-output", cd.Name+":value-count", "%s encoder output holds %d values instead of 1\nbytes=%s\ntext=%q\nstream=%s", cd.Name, len(rr.Values), hexs(buf), clipb(buf), s)
		return
	}
	if cd.Name == "cborl" && rr.Unsupported() {
		c.Violationf("invalid-output", "cborl:outside-subset", "cborl encoder used a feature outside its own subset: %v\nbytes=%s", rr.Features, hexs(buf))
		return
	}
	if cd.Name == "ubjson" && rr.Features["char"] {
		// no event denotes a character: OnByte is a number (JSON writes 65,
		// CBOR the unsigned integer 65); an independent draft-12 decoder reads
		// the char marker back as the character "A", not as that number
		c.Violationf("mismatch", "ubjson:char-marker-for-number", "ubjson encoder wrote a char marker (C) for a numeric event: an independent decoder reads a character, not the stream's number\nbytes=%s\nstream=%s", hexs(buf), s)
		return
	}
	want := val.Norm(cd.Name, expect, o.IgnoreInvalidFloat)
	if d := val.Equal(want, rr.Values[0], val.Mode(cd.Name)); d != "" {
		c.Violationf("mismatch", cd.Name+":value", "reference decoder reads another value from the %s encoder's output: %s\nbytes=%s\ntext=%q\nstream=%s", cd.Name, d, hexs(buf), clipb(buf), s)
		return
	}
	c.Observe("documents_read_back_"+cd.Name, 1)
	if cd.Name != "json" {
		return
	}
	// JSON byte-level obligations
	if !utf8.Valid(buf) {
		c.Violationf("json-bytes", "json:invalid-utf8", "json output is not valid UTF-8\nbytes=%s\nstream=%s", hexs(buf), s)
		return
	}
	nums, problems := jsonScan(buf)
	if len(problems) > 0 {
		c.Violationf("json-bytes", "json:control-char", "json output: %s\ntext=%q", problems[0], clipb(buf))
		return
	}
	if o.EscapeHTML {
		for i, ch := range buf {
			if ch == '<' || ch == '>' || ch == '&' {
				c.Violationf("json-bytes", "json:html", "json output contains raw %q at %d although HTML escaping is on\ntext=%q", ch, i, clipb(buf))
				return
			}
		}
		c.Observe("json_html_checked", 1)
	}
	kinds := numberKinds(s)
	if nonFinite && !o.IgnoreInvalidFloat {
		c.Violationf("json-bytes", "json:nonfinite-accepted", "json encoder accepted a non-finite float without ignoreInvalidFloat\ntext=%q", clipb(buf))
		return
	}
	// align number tokens with the numbers the stream wrote; non-finite ones
	// became null and have no token.
	var expectTok []int
	uncertain := false
	for _, k := range kinds {
		switch k {
		case 2:
		case 3:
			uncertain = true
			expectTok = append(expectTok, 1)
		default:
			expectTok = append(expectTok, k)
		}
	}
	if uncertain && nonFinite {
		return // float map with non-finite members: token alignment unknown
	}
	if len(nums) != len(expectTok) {
		c.Violationf("json-bytes", "json:number-count", "json output holds %d number tokens, the stream wrote %d numbers\ntext=%q\nstream=%s", len(nums), len(expectTok), clipb(buf), s)
		return
	}
	if o.ExplicitRadixPoint {
		for i, tok := range nums {
			if expectTok[i] != 1 {
				continue
			}
			hasDot := false
			for _, ch := range tok {
				if ch == '.' {
					hasDot = true
				}
			}
			if !hasDot {
				c.Violationf("json-bytes", "json:radix-point", "explicit radix point requested but float token %q has none\ntext=%q", tok, clipb(buf))
				return
			}
			c.Observe("json_radix_tokens_checked", 1)
		}
	}
}

func c07Tree(c *run.C) {
	r := c.R
	s := gen.Stream(r, gen.StreamOpts{MaxDepth: 6, MaxNodes: 50, Extended: true, Refs: true, BadUTF8: true, SpecialF: true, TypedBasic: true, Deep: true})
	cd := codec.All[c.Idx%3]
	o := codec.JSONOptsFromIndex((c.Idx / 3) % 8)
	c.Begin(c01Case{cd.Name, o.Index(), s})
	c07One(c, cd, o, s)
	if nonTrivialStream(s) {
		c.Nontrivial(gen.Mix(uint64(c.Idx%3), uint64(o.Index()), gen.HashString(s.String())))
	}
	if len(s) > 4 {
		c.Sample("tree", map[string]interface{}{"codec": cd.Name, "json_opts": o.Index(), "stream": s.String()})
	}
}

// every extended event kind with empty / nil / one / many elements, at top
// level and inside containers with following siblings.
func c07Extended(c *run.C) {
	r := c.R
	kinds := append(append([]val.Kind{}, gen.ExtArrayKinds...), gen.ExtObjectKinds...)
	k := kinds[c.Idx%len(kinds)]
	cd := codec.All[(c.Idx/len(kinds))%3]
	o := codec.JSONOptsFromIndex((c.Idx/(3*len(kinds)))%8 | 4)
	n := []int{0, 0, 1, 2, 5, 30, -1}[(c.Idx/(24*len(kinds)))%7]
	ev := gen.ExtEvent(r, k, n, true, true)
	var s val.Stream
	switch r.Intn(4) {
	case 0:
		s = val.Stream{ev}
	case 1:
		s = val.Stream{{K: val.EArrStart, N: -1}, ev, {K: val.EString, S: "after"}, ev, {K: val.EArrEnd}}
	case 2:
		s = val.Stream{{K: val.EObjStart, N: 2}, {K: val.EKey, S: "x"}, ev, {K: val.EKey, S: "y"}, {K: val.EInt, I: 7}, {K: val.EObjEnd}}
	default:
		s = val.Stream{{K: val.EArrStart, N: 3}, {K: val.EArrStart, N: 1}, ev, {K: val.EArrEnd}, gen.ExtEvent(r, gen.Pick(r, kinds), -1, true, true), {K: val.ENil}, {K: val.EArrEnd}}
	}
	c.Begin(c01Case{cd.Name, o.Index(), s})
	c07One(c, cd, o, s)
	c.Observe("extended_cases", 1)
	c.Nontrivial(gen.Mix(70, uint64(c.Idx), gen.HashString(s.String())))
}

func c07Scalars(c *run.C) {
	cd := codec.All[c.Idx%3]
	blk := c.Idx / 3 // 0..256
	o := codec.JSONOptsFromIndex(c.Idx % 8)
	c.Begin(map[string]interface{}{"codec": cd.Name, "block": blk})
	n := 0
	if blk <= 256 {
		try := func(s string) {
			c07One(c, cd, o, val.Stream{{K: val.EObjStart, N: 1}, {K: val.EKeyRef, S: s}, {K: val.EString, S: s}, {K: val.EObjEnd}})
			n++
		}
		if blk == 256 {
			try("")
			for b := 0; b < 256; b++ {
				try(string([]byte{byte(b)}))
			}
		} else {
			for b := 0; b < 256; b++ {
				try(string([]byte{byte(blk), byte(b)}))
			}
		}
	}
	// integers: 256 16-bit patterns per block in each kind
	for x := blk * 256; x < (blk+1)*256 && x < 65536; x++ {
		for _, k := range c01IntKinds {
			var e val.Event
			switch k {
			case val.EInt8:
				e = val.Event{K: k, I: int64(int8(x))}
			case val.EByte, val.EUint8:
				e = val.Event{K: k, U: uint64(uint8(x))}
			case val.EInt16, val.EInt32, val.EInt64, val.EInt:
				e = val.Event{K: k, I: int64(int16(x))}
			default:
				e = val.Event{K: k, U: uint64(x)}
			}
			c07One(c, cd, o, val.Stream{e})
			n++
		}
	}
	c.Observe("exhaustive_scalars", n)
	c.Nontrivial(gen.Mix(71, uint64(c.Idx)))
}

func c07Floats(c *run.C) {
	r := c.R
	cd := codec.All[c.Idx%3]
	o := codec.JSONOptsFromIndex((c.Idx / 3) % 8)
	special := o.IgnoreInvalidFloat || cd.Name != "json"
	var s val.Stream
	s = append(s, val.Event{K: val.EArrStart, N: 64})
	for i := 0; i < 64; i++ {
		if r.Bool() {
			s = append(s, val.Event{K: val.EFloat64, F: gen.Float64Bits(r, special)})
		} else {
			s = append(s, val.Event{K: val.EFloat32, F: uint64(gen.Float32Bits(r, special))})
		}
	}
	s = append(s, val.Event{K: val.EArrEnd})
	c.Begin(c01Case{cd.Name, o.Index(), s})
	c07One(c, cd, o, s)
	c.Nontrivial(gen.Mix(72, uint64(c.Idx), gen.HashString(s.String())))
}

func init() {
	run.Register(&run.Check{
		ID:    "C07",
		Level: "exploration",
		Rule: "streams: generated one-value event streams incl. all 29 typed array/map events (nil, empty, one, many elements) at top level and inside containers with following siblings, strings with every byte value and invalid UTF-8, " +
			"all integer boundaries, floats incl. NaN/Inf, announced and unknown lengths x {json x 8 option settings, ubjson, cborl}; exhaustive: all strings of length <= 2 as key+value, all 16-bit patterns in every integer kind. " +
			"Oracle: the independent reference decoder accepts the bytes as exactly one value equal to norm_codec(stream); JSON bytes are valid UTF-8, hold no raw control character, no raw <,>,& under escapeHTML, one number token per number written, " +
			"a '.' in every float token under explicitRadixPoint, non-finite floats refused or null. distinct_nontrivial = distinct (codec, options, stream) with a non-trivial stream; exhaustive blocks count once.",
		Assumptions: []string{
			"typed-map events are compared without member order",
			"trusts the reference decoders (encoding/json, refcbor, refubj)",
		},
		Suites: []*run.Suite{
			{Name: "trees", N: tierN(240000, 9000000), Case: c07Tree, Require: []string{"documents_read_back_json", "documents_read_back_ubjson", "documents_read_back_cborl", "json_html_checked", "json_radix_tokens_checked"}},
			{Name: "extended", N: tierN(29*3*8*7, 29*3*8*7*20), Case: c07Extended, Require: []string{"extended_cases"}},
			{Name: "scalars", N: tierN(257*3, 257*3), Case: c07Scalars, Require: []string{"exhaustive_scalars"}},
			{Name: "floats", N: tierN(12000, 300000), Case: c07Floats},
		},
	})
}

// lengths: strings, keys, arrays, objects, byte strings and typed arrays
// whose length sits on a header-width boundary of some format (CBOR 23/24,
// 255/256, 65535/65536; UBJSON 127/128, 255/256, 32767/32768).
var boundaryLens = []int{0, 1, 23, 24, 25, 127, 128, 129, 255, 256, 257, 32767, 32768, 32769, 65535, 65536, 65537}

func boundaryStream(r *gen.Rand, shape, n int) val.Stream {
	pad := func(n int) string {
		b := make([]byte, n)
		for i := range b {
			b[i] = byte('a' + i%26)
		}
		return string(b)
	}
	switch shape {
	case 0:
		return val.Stream{{K: val.EString, S: pad(n)}}
	case 1:
		return val.Stream{{K: val.EObjStart, N: 1}, {K: val.EKeyRef, S: pad(n)}, {K: val.EStringRef, S: pad(n)}, {K: val.EObjEnd}}
	case 2, 3:
		ann := n
		if shape == 3 {
			ann = -1
		}
		s := val.Stream{{K: val.EArrStart, N: ann}}
		for i := 0; i < n; i++ {
			s = append(s, val.Event{K: val.EUint8, U: uint64(i % 200)})
		}
		return append(s, val.Event{K: val.EArrEnd}, val.Event{K: val.EBool, B: true})[: n+2 : n+2]
	case 4:
		s := val.Stream{{K: val.EObjStart, N: n}}
		for i := 0; i < n; i++ {
			s = append(s, val.Event{K: val.EKey, S: fmt.Sprintf("k%d", i)}, val.Event{K: val.ENil})
		}
		return append(s, val.Event{K: val.EObjEnd})
	case 5:
		b := make([]byte, n)
		for i := range b {
			b[i] = byte(i)
		}
		return val.Stream{{K: val.EBytes, X: b}}
	case 6:
		a := make([]int16, n)
		for i := range a {
			a[i] = int16(i - 300)
		}
		return val.Stream{{K: val.EArrStart, N: 2}, {K: val.EInt16Array, X: a}, {K: val.EString, S: "after"}, {K: val.EArrEnd}}
	case 7:
		a := make([]string, n)
		for i := range a {
			a[i] = fmt.Sprint(i)
		}
		return val.Stream{{K: val.EStringArray, X: a}}
	default:
		m := make(map[string]uint32, n)
		for i := 0; i < n; i++ {
			m[fmt.Sprintf("k%d", i)] = uint32(i)
		}
		return val.Stream{{K: val.EUint32Object, X: m}}
	}
}

const boundaryShapes = 9

func c07Lengths(c *run.C) {
	cd := codec.All[c.Idx%3]
	shape := (c.Idx / 3) % boundaryShapes
	n := boundaryLens[(c.Idx/(3*boundaryShapes))%len(boundaryLens)]
	o := codec.JSONOptsFromIndex(c.Idx % 8)
	s := boundaryStream(c.R, shape, n)
	c.Begin(map[string]interface{}{"codec": cd.Name, "shape": shape, "length": n})
	if c.Prop == "C01" {
		roundTrip(c, cd, o, s)
	} else {
		c07One(c, cd, o, s)
	}
	c.Observe("boundary_length_cases", 1)
	c.Nontrivial(gen.Mix(73, uint64(c.Idx)))
}

func init() {
	n := 3 * boundaryShapes * len(boundaryLens)
	for _, id := range []string{"C01", "C07"} {
		chk := run.Lookup(id)
		chk.Suites = append(chk.Suites, &run.Suite{Name: "lengths", N: tierN(n, n), Case: c07Lengths, Require: []string{"boundary_length_cases"}})
	}
}
