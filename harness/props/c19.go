package props

import (
	"fmt"
	"io"
	"reflect"
	"runtime"
	"sync"
	"sync/atomic"

	structform "github.com/elastic/go-structform"
	"github.com/elastic/go-structform/gotype"

	"verif/harness/codec"
	"verif/harness/gen"
	"verif/harness/model"
	"verif/harness/mon"
	"verif/harness/run"
	"verif/harness/val"
	"verif/harness/zoo"
)

// C19: independent instances can be used concurrently without interference.
// The deciding oracles are (1) the race detector's log (collected by the
// parent from GORACE log_path files) and (2) equality of every goroutine's
// results with a sequential pre-computation.

// c19SharedOpt: one FoldOption value used by many goroutines at once.
var c19SharedOpt = gotype.Folders(foldRegA)

type c19Pair struct {
	t     reflect.Type
	v     reflect.Value
	bytes [3][]byte // sequential encoding per codec
}

// c19Reader delivers at most n bytes per Read and touches no state outside
// itself (the shared chunking readers of package mon bump a global progress
// tick for the hang monitor, which would be the harness' own data race here).
type c19Reader struct {
	data []byte
	n    int
}

func (r *c19Reader) Read(p []byte) (int, error) {
	if len(r.data) == 0 {
		return 0, io.EOF
	}
	n := r.n
	if n > len(p) {
		n = len(p)
	}
	if n > len(r.data) {
		n = len(r.data)
	}
	copy(p, r.data[:n])
	r.data = r.data[n:]
	return n, nil
}

type c19Result struct {
	err   string
	diff  string
	pair  int
	codec int
	mine  []byte
}

func c19Round(c *run.C) {
	r := c.R
	G := []int{4, 16, 64}[c.Idx%3]
	procs := []int{2, 16}[(c.Idx/3)%2]
	old := runtime.GOMAXPROCS(procs)
	defer runtime.GOMAXPROCS(old)

	// shared inputs: (type, value) pairs with types never seen before in this
	// process (fresh reflect.StructOf types) plus static zoo types
	const K = 5
	// NOTE: nothing of the library may touch these types before the barrier
	// opens — a process-global cache filled by a sequential warm-up would turn
	// every concurrent first use into a read-only cached use.  The sequential
	// reference results are therefore computed AFTER the concurrent phase.
	pairs := make([]*c19Pair, 0, K)
	for len(pairs) < K {
		t, v := genTypeValue(r, gen.GoTypeOpts{MaxDepth: 3, InlineStructOnly: true, Extra: zoo.Supported}, gen.GoValueOpts{ZeroDropped: true, MaxLen: 3})
		if hasBigUint(v, 0) {
			continue // ubjson known finding of C11
		}
		if _, err := model.Fold(v, nil); err != nil {
			continue
		}
		pairs = append(pairs, &c19Pair{t: t, v: v})
	}
	var desc []string
	for _, p := range pairs {
		desc = append(desc, p.t.String())
	}
	c.Begin(map[string]interface{}{"goroutines": G, "gomaxprocs": procs, "types": desc})

	// One more shared value whose struct type is new in this round and holds
	// regA fields: even goroutines fold it with a folder registered for regA
	// (gotype.Folders), odd ones without.  Whatever one iterator compiles for
	// the type must not show through in an iterator configured differently.
	regT := reflect.StructOf([]reflect.StructField{
		{Name: "A", Type: reflect.TypeOf(regA{})},
		{Name: "P", Type: reflect.TypeOf(&regA{})},
		{Name: "L", Type: reflect.TypeOf([]regA{})},
		{Name: fmt.Sprintf("U%d", r.Intn(1<<30)), Type: reflect.TypeOf(0)},
	})
	regV := (&gen.ValueGen{R: r, O: gen.GoValueOpts{MaxLen: 3}}).Value(regT, 0)
	regOut := make([][]byte, G)
	regErr := make([]string, G)
	// ... and values whose types have inline interface / Folder fields (folded
	// through a helper visitor that the library creates per inlined value)
	inlTypes := []reflect.Type{reflect.TypeOf(zoo.InlineOuter{}), reflect.TypeOf(zoo.InlineThenPlain{}), reflect.TypeOf(zoo.InlineIface{}), reflect.TypeOf(zoo.InlineFolder{})}
	inlObjs := []reflect.Type{reflect.TypeOf(map[string]interface{}{}), reflect.TypeOf(zoo.InlineInner{}), reflect.TypeOf(zoo.Plain{}), reflect.TypeOf(zoo.InlineCarrier{}), reflect.TypeOf(map[string]int{})}
	var inlV []reflect.Value
	for _, t := range inlTypes {
		for try := 0; try < 20; try++ {
			v := (&gen.ValueGen{R: r, O: gen.GoValueOpts{MaxLen: 3, IfaceTypes: inlObjs}}).Value(t, 0)
			if _, err := model.Fold(v, nil); err == nil && !holdsNilPtrInIface(v, 0) {
				inlV = append(inlV, v)
				break
			}
		}
	}
	inlOut := make([][][]byte, G)
	// targets filled through the user extension points (gotype.Expander, a
	// state registered with gotype.Unfolders): each goroutine's own unfolder
	// hands its own events to its own target's state, yielding between events
	usrOut := make([][]c19UserTarget, G)
	usrErr := make([]string, G)

	// per-goroutine seeds drawn up front: the generator itself is not shared
	seeds := make([]uint64, G)
	for i := range seeds {
		seeds[i] = r.U64()
	}
	var order atomic.Int64
	firstEvents := make([]int32, 64) // goroutine id of the first 64 monitored events
	results := make([][]c19Result, G)
	var start sync.WaitGroup
	var done sync.WaitGroup
	start.Add(1)
	for g := 0; g < G; g++ {
		done.Add(1)
		go func(g int) {
			defer done.Done()
			rr := gen.New(seeds[g])
			cd := codec.All[g%3]
			ci := g % 3
			opts := codec.JSONOptsFromIndex(g % 8 &^ 2) // different encoder options per goroutine (no radix point: bytes compared via values anyway)
			// own instances, reused over both rounds (first-use, then cached-use)
			var w mon.CountingWriter
			enc := cd.NewVisitor(&w, opts)
			yield := mon.NewMonitor()
			yield.NoRecord = true
			yield.Next = structform.EnsureExtVisitor(enc)
			n := 0
			yield.OnEvent = func() {
				n++
				if pos := order.Add(1); pos <= 64 {
					firstEvents[pos-1] = int32(g)
				}
				if n%7 == int(seeds[g]%7) {
					runtime.Gosched()
				}
			}
			it, err := gotype.NewIterator(yield)
			if err != nil {
				results[g] = []c19Result{{err: "NewIterator: " + err.Error()}}
				return
			}
			u, err := gotype.NewUnfolder(nil)
			if err != nil {
				results[g] = []c19Result{{err: "NewUnfolder: " + err.Error()}}
				return
			}
			if g%3 == 1 {
				u.EnableKeyCache([]int{0, 1, 2, 8, 64}[g%5])
			}
			// every entry point of the codec is some goroutine's way of parsing
			parse := func(buf []byte, v structform.Visitor) error {
				switch (g / 3) % 5 {
				case 0:
					return cd.Parse(buf, v)
				case 1:
					return cd.ParseString(string(buf), v)
				case 2:
					_, err := cd.ParseReader(&c19Reader{data: buf, n: 1 + g%7}, v)
					return err
				case 3:
					d := cd.NewBytesDecoder(buf, v)
					if err := d.Next(); err != nil {
						return err
					}
					if err := d.Next(); err != io.EOF {
						return fmt.Errorf("bytes decoder: second Next returned %v, want io.EOF", err)
					}
					return nil
				default:
					d := cd.NewDecoder(&c19Reader{data: buf, n: 2 + g%5}, []int{1, 16, 4096}[g%3], v)
					if err := d.Next(); err != nil {
						return err
					}
					if err := d.Next(); err != io.EOF {
						return fmt.Errorf("decoder: second Next returned %v, want io.EOF", err)
					}
					return nil
				}
			}
			start.Wait()
			func() {
				defer func() {
					if rec := recover(); rec != nil {
						regErr[g] = fmt.Sprintf("panic: %v", rec)
					}
				}()
				var rw mon.CountingWriter
				var opts []gotype.FoldOption
				if g%2 == 0 {
					// the option VALUE is shared by these goroutines (it is no
					// instance of anything); a quarter of them pass a second
					// Folders option after it
					opts = append(opts, c19SharedOpt)
					if g%4 == 0 {
						opts = append(opts, gotype.Folders(foldRegE))
					}
				}
				rit, err := gotype.NewIterator(codec.JSON.NewVisitor(&rw, codec.JSONOpts{}), opts...)
				if err != nil {
					regErr[g] = err.Error()
					return
				}
				for k := 0; k < 2; k++ { // first use, cached use
					rw.Buf = rw.Buf[:0]
					if err := rit.Fold(regV.Interface()); err != nil {
						regErr[g] = err.Error()
						return
					}
					if k == 0 {
						regOut[g] = append([]byte{}, rw.Buf...)
					} else if string(regOut[g]) != string(rw.Buf) {
						regErr[g] = fmt.Sprintf("first use wrote %s, cached use %s", regOut[g], rw.Buf)
					}
				}
			}()
			func() {
				defer func() {
					if rec := recover(); rec != nil && regErr[g] == "" {
						regErr[g] = fmt.Sprintf("inline fold panic: %v", rec)
					}
				}()
				var iw mon.CountingWriter
				iit, err := gotype.NewIterator(codec.JSON.NewVisitor(&iw, codec.JSONOpts{IgnoreInvalidFloat: true}))
				if err != nil {
					regErr[g] = err.Error()
					return
				}
				for rep := 0; rep < 3; rep++ {
					for _, v := range inlV {
						iw.Buf = iw.Buf[:0]
						if err := iit.Fold(v.Interface()); err != nil {
							regErr[g] = fmt.Sprintf("folding %s: %v", v.Type(), err)
							return
						}
						inlOut[g] = append(inlOut[g], append([]byte{}, iw.Buf...))
					}
				}
			}()
			usrOut[g], usrErr[g] = c19UserStates(g, true)
			for round := 0; round < 2; round++ {
				perm := make([]int, len(pairs))
				for i := range perm {
					perm[i] = i
				}
				for i := len(perm) - 1; i > 0; i-- {
					j := rr.Intn(i + 1)
					perm[i], perm[j] = perm[j], perm[i]
				}
				for _, pi := range perm {
					p := pairs[pi]
					res := c19Result{}
					func() {
						defer func() {
							if rec := recover(); rec != nil {
								res.err = fmt.Sprintf("panic: %v", rec)
							}
						}()
						// fold (shared value, shared type) -> own encoder
						w.Buf = w.Buf[:0]
						if err := it.Fold(p.v.Interface()); err != nil {
							res.err = "fold: " + err.Error()
							return
						}
						mine := append([]byte{}, w.Buf...)
						res.pair, res.codec, res.mine = pi, ci, mine
						// parse own bytes -> own unfolder (target type shared, first use compiles its unfolder)
						target := reflect.New(p.t)
						if rr.Bool() {
							u.Reset() // the documented way to re-use an unfolder for another target
						}
						if err := u.SetTarget(target.Interface()); err != nil {
							res.err = "SetTarget: " + err.Error()
							return
						}
						if err := parse(mine, u); err != nil {
							res.err = "parse+unfold: " + err.Error()
							return
						}
						if d := eqGo(p.v, target.Elem(), cd.Name, "$"); d != "" {
							res.diff = "unfolded value differs from the shared original: " + d
							return
						}
						rb := refDecode(cd.Name, mine)
						if rb.Status != 0 || len(rb.Values) != 1 {
							res.diff = fmt.Sprintf("own encoding not readable: %v", rb.Status)
							return
						}
						// transcode the shared bytes into another format with own parser+encoder
						dst := codec.All[(g+1)%3]
						var tw mon.CountingWriter
						if err := parse(mine, dst.NewVisitor(&tw, codec.JSONOpts{IgnoreInvalidFloat: true})); err != nil {
							res.err = "transcode: " + err.Error()
							return
						}
						rt := refDecode(dst.Name, tw.Buf)
						if rt.Status != 0 || len(rt.Values) != 1 {
							res.diff = "transcoded document not readable"
							return
						}
						want := val.Norm(dst.Name, rb.Values[0], true)
						mode := val.Mode(dst.Name)
						if cd.Name == "json" {
							mode = val.NumJSON
						}
						if d := val.Equal(want, rt.Values[0], mode); d != "" {
							res.diff = "transcoded value differs: " + d
						}
					}()
					results[g] = append(results[g], res)
				}
			}
		}(g)
	}
	start.Done()
	done.Wait()

	// sequential reference, computed only now (see the note above)
	for _, p := range pairs {
		for ci, cd := range codec.All {
			var w mon.CountingWriter
			if err := gotype.Fold(p.v.Interface(), cd.NewVisitor(&w, codec.JSONOpts{})); err != nil {
				c.Violationf("concurrent-error", "sequential:fold", "sequential fold failed: %v\ntype=%s", err, p.t)
				return
			}
			p.bytes[ci] = w.Buf
		}
	}
	// the differently configured iterators: each must have written what a
	// lone iterator of its own configuration writes
	var regRef [2][]byte
	for cfg := 0; cfg < 2; cfg++ {
		var rw mon.CountingWriter
		var opts []gotype.FoldOption
		if cfg == 0 {
			opts = append(opts, gotype.Folders(foldRegA))
		}
		// (regT holds no regE: the second option of some goroutines changes nothing for it)
		if err := gotype.Fold(regV.Interface(), codec.JSON.NewVisitor(&rw, codec.JSONOpts{}), opts...); err != nil {
			c.Violationf("concurrent-error", "sequential:fold-registered", "sequential fold failed: %v", err)
			return
		}
		regRef[cfg] = rw.Buf
	}
	for g := 0; g < G; g++ {
		if regErr[g] != "" {
			c.Violationf("concurrent-error", "concurrent:registered:"+errClass(fmt.Errorf("%s", regErr[g])), "goroutine %d of %d (folder registered: %v): %s", g, G, g%2 == 0, regErr[g])
			return
		}
		if string(regOut[g]) != string(regRef[g%2]) {
			c.Violationf("concurrent-mismatch", "concurrent:registered-folder-leak", "goroutine %d of %d (folder for regA registered: %v) wrote %s, an iterator of the same configuration running alone writes %s", g, G, g%2 == 0, regOut[g], regRef[g%2])
			return
		}
	}
	// inline values: every goroutine's output must decode to the model's value
	for g := 0; g < G; g++ {
		for i, out := range inlOut[g] {
			v := inlV[i%len(inlV)]
			want, _ := model.Fold(v, nil)
			rr := refDecode("json", out)
			if rr.Status != 0 || len(rr.Values) != 1 {
				c.Violationf("concurrent-mismatch", "concurrent:inline:unreadable", "goroutine %d of %d: folding %s concurrently wrote an unreadable document: %s", g, G, v.Type(), clipb(out))
				return
			}
			got := rr.Values[0]
			markUnordered(&got)
			markUnordered(&want)
			if d := val.Equal(val.Norm("json", want, true), got, val.NumJSON); d != "" {
				c.Violationf("concurrent-mismatch", "concurrent:inline:value", "goroutine %d of %d: folding %s concurrently wrote another value than the documented mapping: %s\ndoc=%s", g, G, v.Type(), d, clipb(out))
				return
			}
		}
		c.Observe("concurrent_inline_folds", len(inlOut[g]))
	}
	for g := 0; g < G; g++ {
		want, werr := c19UserStates(g, false)
		if usrErr[g] != werr {
			c.Violationf("concurrent-error", "concurrent:user-state:error", "goroutine %d of %d: unfolding into targets with a user unfold state returned %q concurrently and %q alone", g, G, usrErr[g], werr)
			return
		}
		if !reflect.DeepEqual(usrOut[g], want) {
			c.Violationf("concurrent-mismatch", "concurrent:user-state", "goroutine %d of %d: targets with a user unfold state (Expander / registered state) were told something else than when the same unfolder runs alone\nconcurrent=%+v\nalone     =%+v", g, G, usrOut[g], want)
			return
		}
		c.Observe("concurrent_user_state_unfolds", len(want))
	}
	c.Observe("differently_configured_iterator_folds", 2*G)
	// verdicts (main goroutine only)
	for g := 0; g < G; g++ {
		for i, res := range results[g] {
			if res.err == "" && res.diff == "" {
				cdn := codec.All[res.codec].Name
				ra, rb := refDecode(cdn, res.mine), refDecode(cdn, pairs[res.pair].bytes[res.codec])
				if ra.Status != 0 || rb.Status != 0 || len(ra.Values) != 1 || len(rb.Values) != 1 {
					res.diff = fmt.Sprintf("encoding not readable: %v %v", ra.Status, rb.Status)
				} else {
					x, y := ra.Values[0], rb.Values[0]
					markUnordered(&x)
					markUnordered(&y)
					if d := val.Equal(y, x, val.Mode(cdn)); d != "" {
						res.diff = "own encoding differs from the sequential encoding: " + d
					}
				}
			}
			if res.err != "" {
				c.Violationf("concurrent-error", "concurrent:"+errClass(fmt.Errorf("%s", res.err)), "goroutine %d of %d, pipeline %d failed although it succeeds sequentially: %s", g, G, i, res.err)
				return
			}
			if res.diff != "" {
				c.Violationf("concurrent-mismatch", "concurrent:mismatch", "goroutine %d of %d, pipeline %d: %s", g, G, i, res.diff)
				return
			}
		}
		c.Observe("pipelines_completed", len(results[g]))
	}
	c.Observe("rounds", 1)
	c.Observe("goroutine_runs", G)
	c.Observe(fmt.Sprintf("rounds_with_%d_goroutines", G), 1)
	c.Observe(fmt.Sprintf("rounds_gomaxprocs_%d", procs), 1)
	c.Observe("first_use_type_compilations", K*G)
	c.Observe("cached_use_folds", K*G)
	// distinct interleavings: order of goroutine ids among the first 64 events
	h := uint64(1469598103934665603)
	for _, id := range firstEvents {
		h = (h ^ uint64(id)) * 1099511628211
	}
	c.Nontrivial(gen.Mix(190, h))
	if c.Idx < 3 {
		c.Sample("round", map[string]interface{}{"goroutines": G, "gomaxprocs": procs, "types": desc, "first_events_by_goroutine": firstEvents[:16]})
	}
}

func init() {
	run.Register(&run.Check{
		ID:    "C19",
		Level: "exploration",
		Rule: "race-detector build. One case = one round: G in {4,16,64} goroutines released by a barrier under GOMAXPROCS in {2,16}; each owns an Iterator, an Unfolder, encoders and parsers (codec and JSON options differ per goroutine) and runs, twice in a private random order, " +
			"fold -> own encoder, parse(own bytes; entry point per goroutine: Parse, ParseString, ParseReader, bytes decoder, reader decoder) -> own unfolder (every third with a key cache of capacity 0..64; Reset before half of the SetTarget calls), and parser -> encoder transcoding over 5 SHARED (type, value) pairs whose struct types are created by reflect.StructOf for this round (first use = reflection-based compilation of folder and unfolder in every goroutine at once; second pass = cached use). " +
			"A yielding visitor calls runtime.Gosched() at goroutine-specific event indices. Oracles: (1) zero 'WARNING: DATA RACE' blocks in the race log of every worker (each block, de-duplicated by its first two library frames, is a violation and its own replay artefact); " +
			"(2) every goroutine's unfolded value, encoding and transcoding equal the sequential pre-computation. distinct_nontrivial = distinct interleavings observed, identified by the order of goroutine ids among the first 64 monitored events of the round (one atomic counter).",
		Assumptions: []string{
			"a race is reported only if both unsynchronised accesses happen in the explored executions; absence of a report is not absence of races",
			"typed-map events and Go maps iterate in random order: encodings are compared as values",
			"(type,value) pairs that hit the recorded ubjson uint64 finding of C11 are not used",
		},
		Suites: []*run.Suite{
			{Name: "rounds", Build: "race", N: tierN(480, 30000), Case: c19Round, Workers: 4, Require: []string{"pipelines_completed", "rounds_with_4_goroutines", "rounds_with_16_goroutines", "rounds_with_64_goroutines"}},
		},
	})
}

// c19UserTarget is filled partly by the library's struct unfolder (A, Z) and
// partly by user unfold states (X: gotype.Expander, S: state registered with
// gotype.Unfolders).
type c19UserTarget struct {
	A string
	X zoo.Recorder
	S zoo.Stateful
	Z int
}

// c19UserStates unfolds three documents that carry goroutine-specific content
// into c19UserTarget values with the goroutine's own unfolder (event calls,
// and through the JSON parser); yield makes it give up the processor between
// events so that several unfolders are inside a user state at the same time.
func c19UserStates(g int, yield bool) (out []c19UserTarget, errs string) {
	defer func() {
		if rec := recover(); rec != nil {
			errs = fmt.Sprintf("panic: %v", rec)
		}
	}()
	u, err := gotype.NewUnfolder(nil, gotype.Unfolders(zoo.UserUnfolders()...))
	if err != nil {
		return nil, "NewUnfolder: " + err.Error()
	}
	// (mon.Replay keeps harness-global state for its buffer alternation: not for goroutines)
	replay := func(s val.Stream, v structform.Visitor) error {
		ev := structform.EnsureExtVisitor(v)
		for _, e := range s {
			if err := mon.Call(ev, e, false); err != nil {
				return err
			}
		}
		return nil
	}
	for rep := 0; rep < 3; rep++ {
		id := fmt.Sprintf("g%d-%d", g, rep)
		sub := val.Stream{{K: val.EObjStart, N: -1}, {K: val.EKey, S: "k" + id}, {K: val.EInt64, I: int64(g*10 + rep)},
			{K: val.EKeyRef, S: "s"}, {K: val.EStringRef, S: "v" + id}, {K: val.EKey, S: "l"},
			{K: val.EArrStart, N: 2}, {K: val.EInt8, I: int64(g % 100)}, {K: val.EString, S: id}, {K: val.EArrEnd}, {K: val.EObjEnd}}
		doc := val.Stream{{K: val.EObjStart, N: 4}, {K: val.EKey, S: "a"}, {K: val.EString, S: "a" + id}, {K: val.EKey, S: "x"}}
		doc = append(doc, sub...)
		doc = append(doc, val.Event{K: val.EKey, S: "s"})
		doc = append(doc, sub...)
		doc = append(doc, val.Event{K: val.EKey, S: "z"}, val.Event{K: val.EInt, I: int64(g)}, val.Event{K: val.EObjEnd})
		var t c19UserTarget
		if err := u.SetTarget(&t); err != nil {
			return out, "SetTarget: " + err.Error()
		}
		var sink structform.Visitor = u
		if yield {
			y := mon.NewMonitor()
			y.NoRecord = true
			y.Next = structform.EnsureExtVisitor(u)
			y.OnEvent = func() { runtime.Gosched() }
			sink = y
		}
		if rep == 2 {
			// through the JSON parser, one byte per Write
			var w mon.CountingWriter
			if err := replay(doc, codec.JSON.NewVisitor(&w, codec.JSONOpts{})); err != nil {
				return out, "encode: " + err.Error()
			}
			if _, err := codec.JSON.ParseReader(&c19Reader{data: w.Buf, n: 1}, sink); err != nil {
				return out, "parse+unfold: " + err.Error()
			}
		} else if err := replay(doc, sink); err != nil {
			return out, "unfold: " + err.Error()
		}
		out = append(out, t)
	}
	return out, ""
}
