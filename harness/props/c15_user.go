package props

import (
	"fmt"
	"reflect"
	"strings"

	"github.com/elastic/go-structform/gotype"

	"verif/harness/codec"
	"verif/harness/gen"
	"verif/harness/hook"
	"verif/harness/mon"
	"verif/harness/run"
	"verif/harness/zoo"
)

// C15 `alias-user-state`: the target is filled through the library's user
// extension points (gotype.Expander / an UnfoldState registered with
// gotype.Unfolders).  The state keeps the key and string values it is handed -
// Go strings, immutable by the language's contract - in the target and, at the
// moment of the call, writes a quoted copy into its log.  After the buffers
// the parser read from have been overwritten and the same parser and unfolder
// have processed further input, every retained string must still read as the
// copy taken when it was handed over.
func c15UserState(c *run.C) {
	r := c.R
	cd := codec.All[c.Idx%3]
	vo := gen.GoValueOpts{MaxLen: 5, IfaceTypes: []reflect.Type{gen.TString, reflect.TypeOf(map[string]interface{}{}), reflect.TypeOf([]string{}), reflect.TypeOf(map[string]string{}), reflect.TypeOf(0)}}
	if cd.Name != "json" {
		vo.BadUTF8 = true
	}
	vg := &gen.ValueGen{R: r, O: vo}
	dt := gen.Pick(r, []reflect.Type{reflect.TypeOf(map[string]interface{}{}), reflect.TypeOf(map[string]string{}), reflect.TypeOf(map[string][]string{}), reflect.TypeOf(map[string]map[string]string{})})
	v1 := vg.Value(dt, 0)
	v2 := sameShape(v1)
	var d1, d2 mon.CountingWriter
	if err := gotype.Fold(v1.Interface(), cd.NewVisitor(&d1, codec.JSONOpts{})); err != nil {
		return
	}
	if err := gotype.Fold(v2.Interface(), cd.NewVisitor(&d2, codec.JSONOpts{})); err != nil {
		return
	}
	sizes := gen.Pick(r, [][]int{{1}, {len(d1.Buf) + 1}, {r.Range(1, 7)}, {r.Range(1, 5), r.Range(1, 70), r.Range(1, 3)}, {64, 1, 63, 65}})
	entry := gen.Pick(r, []string{"Write", "ParseReader", "Decoder", "Parse"})
	if entry == "Write" && !hook.Enabled {
		entry = "ParseReader"
	}
	kind := gen.Pick(r, []string{"expander", "expander-field", "registered-state"})
	c.Begin(map[string]interface{}{"codec": cd.Name, "doc1": hexs(d1.Buf), "doc2": hexs(d2.Buf), "sizes": sizes, "entry": entry, "target": kind})

	type holder struct {
		A string
		X zoo.Recorder
		Z string
	}
	type target struct {
		ptr interface{}
		log func() (log, keys, strs []string)
	}
	mk := func() target {
		switch kind {
		case "expander":
			t := &zoo.Recorder{}
			return target{t, func() ([]string, []string, []string) { return t.Log, t.Keys, t.Strs }}
		case "expander-field":
			// the whole document goes to the state of field X
			h := &holder{}
			return target{&h.X, func() ([]string, []string, []string) { return h.X.Log, h.X.Keys, h.X.Strs }}
		default:
			t := &zoo.Stateful{}
			return target{t, func() ([]string, []string, []string) { return t.Log, t.Keys, t.Strs }}
		}
	}
	var uopts []gotype.UnfoldOption
	if kind == "registered-state" {
		uopts = append(uopts, gotype.Unfolders(zoo.UserUnfolders()...))
	}
	t1 := mk()
	u, err := gotype.NewUnfolder(t1.ptr, uopts...)
	if err != nil {
		c.Violationf("refused-supported", "alias-user:refused", "NewUnfolder refused a %s target: %v", kind, err)
		return
	}
	if r.P(1, 3) {
		u.EnableKeyCache(gen.Pick(r, []int{1, 2, 8}))
	}
	parser := cd.NewParser(u)
	var perr error
	feed := func(doc []byte) {
		switch entry {
		case "Write":
			for _, ch := range mon.Chunks(doc, sizes) {
				if _, perr = parser.Write(ch); perr != nil {
					return
				}
				mon.Scribble(ch)
			}
			if ferr, has := hook.Finalize(parser); has {
				perr = ferr
			}
		case "ParseReader":
			_, perr = cd.ParseReader(&mon.ChunkReader{Data: doc, Sizes: sizes, EOFWithData: len(doc)%2 == 1}, u)
		case "Decoder":
			d := cd.NewDecoder(&mon.ChunkReader{Data: doc, Sizes: sizes, EOFWithData: len(doc)%2 == 1}, gen.Pick(r, []int{1, 3, 16, 64, 4096}), u)
			perr = d.Next()
		default:
			cp := exactCopy(doc)
			perr = parser.Parse(cp)
			mon.Scribble(cp)
		}
	}
	if !c.Guard("alias-user.first", func() { feed(d1.Buf) }) {
		return
	}
	if perr != nil {
		c.Violationf("unfold-error", "alias-user:first:"+kind, "unfolding a document into a %s target failed: %v\ndoc=%s", kind, perr, hexs(d1.Buf))
		return
	}
	for round := 0; round < 2; round++ {
		t2 := mk()
		if !c.Guard("alias-user.followup", func() {
			if err := u.SetTarget(t2.ptr); err != nil {
				perr = err
				return
			}
			feed(d2.Buf)
		}) {
			return
		}
		if perr != nil {
			c.Violationf("unfold-error", "alias-user:followup:"+kind, "unfolding the follow-up document into a %s target failed: %v\ndoc=%s", kind, perr, hexs(d2.Buf))
			return
		}
	}
	log, keys, strs := t1.log()
	var wantKeys, wantStrs []string
	for _, l := range log {
		switch {
		case strings.HasPrefix(l, "key:"):
			wantKeys = append(wantKeys, l[4:])
		case strings.HasPrefix(l, "string:"):
			wantStrs = append(wantStrs, l[7:])
		}
	}
	cmp := func(what string, kept, want []string) bool {
		if len(kept) != len(want) {
			c.Violationf("harness", "alias-user:harness", "%d retained %s, %d logged", len(kept), what, len(want))
			return false
		}
		for i := range kept {
			if q := fmt.Sprintf("%q", kept[i]); q != want[i] {
				c.Violationf("alias", "alias-user:"+what+":"+cd.Name+":"+entry, "a %s handed to the user's unfold state (%s target) changed after the parser's buffers were overwritten / reused (%s, %s, chunk sizes %v): was %s when handed over, reads %s now\ndoc=%s",
					what, kind, cd.Name, entry, sizes, want[i], q, hexs(d1.Buf))
				return false
			}
		}
		return true
	}
	if !cmp("key", keys, wantKeys) || !cmp("string", strs, wantStrs) {
		return
	}
	c.Observe("user_state_cases_"+kind, 1)
	c.Observe("user_state_entry_"+entry, 1)
	c.Observe("user_state_keys_checked", len(keys))
	c.Observe("user_state_strings_checked", len(strs))
	c.Nontrivial(gen.Mix(151, uint64(c.Idx%3), gen.HashBytes(d1.Buf), gen.HashString(fmt.Sprint(sizes, entry, kind))))
}

func init() {
	ch := run.Lookup("C15")
	ch.Suites = append(ch.Suites,
		&run.Suite{Name: "alias-user-state", N: tierN(30000, 1000000), Case: c15UserState,
			Require: []string{"user_state_cases_expander", "user_state_cases_registered-state", "user_state_keys_checked", "user_state_strings_checked"}},
		&run.Suite{Name: "alias-user-state-race", Build: "race", N: tierN(1500, 100000), Case: c15UserState})
}
