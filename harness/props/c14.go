package props

import (
	"fmt"
	"reflect"
	"runtime"

	"github.com/elastic/go-structform/gotype"

	"verif/harness/gen"
	"verif/harness/hook"
	"verif/harness/model"
	"verif/harness/mon"
	"verif/harness/run"
	"verif/harness/val"
	"verif/harness/zoo"
)

// C14: a mismatching document makes Unfold return an error, never crash or
// corrupt; Reset + SetTarget give a fresh unfolder.

var canaryType = reflect.TypeOf([64]byte{})

// canaryHolder builds struct{Pre [64]byte; T t; Post [64]byte} and a slice
// of three such holders; the target is the middle field of the middle
// element.
func canaryHolder(t reflect.Type) (holder reflect.Value, target reflect.Value, check func() string) {
	ht := reflect.StructOf([]reflect.StructField{
		{Name: "Pre", Type: canaryType},
		{Name: "T", Type: t},
		{Name: "Post", Type: canaryType},
	})
	sl := reflect.MakeSlice(reflect.SliceOf(ht), 3, 3)
	fill := func(v reflect.Value, b byte) {
		for i := 0; i < 64; i++ {
			v.Index(i).SetUint(uint64(b))
		}
	}
	for i := 0; i < 3; i++ {
		fill(sl.Index(i).Field(0), 0xC3)
		fill(sl.Index(i).Field(2), 0x3C)
	}
	target = sl.Index(1).Field(1).Addr()
	check = func() string {
		for i := 0; i < 3; i++ {
			for j := 0; j < 64; j++ {
				if sl.Index(i).Field(0).Index(j).Uint() != 0xC3 {
					return fmt.Sprintf("canary before element %d overwritten at byte %d", i, j)
				}
				if sl.Index(i).Field(2).Index(j).Uint() != 0x3C {
					return fmt.Sprintf("canary after element %d overwritten at byte %d", i, j)
				}
			}
			if i != 1 && !sl.Index(i).Field(1).IsZero() {
				return fmt.Sprintf("neighbouring element %d was written to", i)
			}
		}
		return ""
	}
	return sl, target, check
}

var hugeAnnounce = intsThatFit(1<<16, 1<<20, 1<<31-1, 1<<31, 1<<40, 1<<62, 1<<63-1)

// c14Stream builds the stream of a case: a random well-formed stream, the
// fold of a value of another type, or a stream with an announced length the
// elements do not back.
func c14Stream(r *gen.Rand) (val.Stream, string) {
	switch r.Intn(4) {
	case 0:
		return gen.Stream(r, gen.StreamOpts{MaxDepth: 5, MaxNodes: 30, Extended: true, Refs: true, BadUTF8: true, SpecialF: true, TypedBasic: true, Deep: true}), "random"
	case 1:
		_, v := genTypeValue(r, gen.GoTypeOpts{MaxDepth: 3, Extra: zoo.Supported}, gen.GoValueOpts{BadUTF8: true, SpecialF: true})
		mv, err := model.Fold(v, nil)
		if err != nil {
			return gen.Stream(r, gen.StreamOpts{}), "random"
		}
		em := &emitter{r: r, refs: true, floatInt: true}
		em.emit(mv)
		return em.out, "fold-of-other-type"
	case 2:
		// directed shapes
		short := gen.ShortStreams()
		s := short[r.Intn(len(short))]
		switch r.Intn(3) {
		case 0:
			return s, "short"
		case 1:
			return append(append(val.Stream{{K: val.EArrStart, N: -1}}, s...), val.Event{K: val.EArrEnd}), "short-in-array"
		default:
			return append(append(val.Stream{{K: val.EObjStart, N: 1}, {K: val.EKeyRef, S: gen.Pick(r, []string{"f1", "n1", "a", "k"})}}, s...), val.Event{K: val.EObjEnd}), "short-in-object"
		}
	default:
		// huge announced length that the stream does not back: the stream is
		// cut right after a few elements (the caller abandons it)
		n := gen.Pick(r, hugeAnnounce)
		var s val.Stream
		depth := r.Intn(3)
		for i := 0; i < depth; i++ {
			if r.Bool() {
				s = append(s, val.Event{K: val.EArrStart, N: -1})
			} else {
				s = append(s, val.Event{K: val.EObjStart, N: -1}, val.Event{K: val.EKey, S: gen.Pick(r, []string{"f1", "n1", "a", "k"})})
			}
		}
		if r.Bool() {
			s = append(s, val.Event{K: val.EArrStart, N: n, BT: 0})
		} else {
			s = append(s, val.Event{K: val.EObjStart, N: n})
			s = append(s, val.Event{K: val.EKey, S: "k"})
		}
		for i := r.Intn(3); i > 0; i-- {
			s = append(s, gen.IntEvent(r))
			if s[len(s)-2].K.IsKey() {
				s = append(s, val.Event{K: val.EKey, S: "k2"})
			}
		}
		if s[len(s)-1].K.IsKey() {
			s = s[:len(s)-1]
		}
		return s, "huge-announced-length"
	}
}

// c14Perturbed folds a value of the target type itself (model fold) and
// replaces ONE sub-value, at any depth, by a value of another shape (null,
// scalar, array, object): everything before and after the mismatch fits the
// target, so whatever the unfolder does at the mismatch - refuse it or accept
// it - the members that follow are delivered into the state it left behind.
func c14Perturbed(r *gen.Rand, t reflect.Type) (val.Stream, bool) {
	vg := &gen.ValueGen{R: r, O: gen.GoValueOpts{BadUTF8: true}}
	pv := vg.Value(t, 0)
	mv, err := model.Fold(pv, nil)
	if err != nil {
		return nil, false
	}
	nodes := 0
	val.Map(mv, func(v val.V) val.V { nodes++; return v })
	pick, i := r.Intn(nodes), 0
	obj := val.V{K: val.Obj, Keys: []string{"k"}, A: []val.V{val.VInt(1)}}
	repl := gen.Pick(r, []val.V{val.VNil(), val.VNil(), val.VBool(true), val.VInt(7), val.VStr("x"), val.VF64(1.5),
		val.VArr(), val.VArr(val.VInt(1), val.VStr("y")), {K: val.Obj}, obj})
	mv = val.Map(mv, func(v val.V) val.V {
		i++
		if i-1 == pick {
			return repl
		}
		return v
	})
	em := &emitter{r: r, refs: true, floatInt: true}
	em.emit(mv)
	return em.out, true
}

type c14Case struct {
	Type   string     `json:"type"`
	How    string     `json:"how"`
	Stream val.Stream `json:"stream"`
	K      int        `json:"abandon_after,omitempty"`
}

func probeValueFor(r *gen.Rand, t reflect.Type) (reflect.Value, val.Stream, bool) {
	vg := &gen.ValueGen{R: r, O: gen.GoValueOpts{ZeroDropped: true}}
	pv := vg.Value(t, 0)
	mv, err := model.Fold(pv, nil)
	if err != nil {
		return pv, nil, false
	}
	return pv, val.FromValue(mv, r.Bool()), true
}

func c14Mismatch(c *run.C) {
	r := c.R
	tg := gen.NewTypeGen(r, gen.GoTypeOpts{MaxDepth: 3, InlineStructOnly: true, Extra: zoo.Supported})
	t := tg.Type(0)
	s, how := c14Stream(r)
	if r.P(1, 4) {
		if ps, ok := c14Perturbed(r, t); ok {
			s, how = ps, "own-value-with-one-mismatch"
		}
	}
	c.Begin(c14Case{Type: t.String(), How: how, Stream: s})
	_, target, canary := canaryHolder(t)
	u, err := gotype.NewUnfolder(target.Interface())
	if err != nil {
		c.Observe("targets_refused", 1)
		return
	}
	var before, after runtime.MemStats
	runtime.ReadMemStats(&before)
	var uerr error
	delivered := 0
	ok := c.Guard("unfold.mismatch", func() {
		uerr = mon.Replay(s, u, mon.ReplayOpts{ScribbleRefs: true, After: func(i int, err error) { delivered = i + 1 }})
	})
	runtime.ReadMemStats(&after)
	if !ok {
		return
	}
	if d := canary(); d != "" {
		c.Violationf("corruption", "unfold:canary", "memory outside the target was written: %s\ntype=%s\nstream=%s", d, t, s)
		return
	}
	alloc := after.TotalAlloc - before.TotalAlloc
	c.ObserveMax("max_alloc_bytes_per_stream", int(alloc))
	payload := 0
	for _, e := range s[:delivered] {
		payload += len(e.S)
		if e.X != nil {
			payload += 16 * reflect.ValueOf(e.X).Len()
		}
	}
	limit := uint64(512<<10) + 2048*uint64(delivered) + 64*uint64(payload)
	if alloc > limit {
		c.Violationf("alloc", "unfold:alloc:"+how, "unfolder allocated %d bytes for %d events (%d payload bytes); budget %d\ntype=%s\nstream=%s", alloc, delivered, payload, limit, t, s)
		return
	}
	if uerr != nil {
		c.Observe("mismatch_errors", 1)
	} else {
		c.Observe("mismatch_accepted", 1)
	}
	c.Observe("how_"+how, 1)
	c.Nontrivial(gen.Mix(140, gen.HashString(t.String()), gen.HashString(s.String())))
	if len(s) < 12 && len(t.String()) < 120 {
		c.Sample("mismatch", map[string]interface{}{"type": t.String(), "how": how, "stream": s.String(), "error": fmt.Sprint(uerr)})
	}
}

// abandon a document after every event index k, then Reset + SetTarget(fresh)
// + probe: the result must equal a brand-new unfolder's.
func c14Abandon(c *run.C) {
	r := c.R
	tg := gen.NewTypeGen(r, gen.GoTypeOpts{MaxDepth: 3, InlineStructOnly: true, Extra: zoo.Supported})
	t := tg.Type(0)
	// a sixth of the cases: an unfolder configured with user unfolders
	// (gotype.Unfolders) and a target that reaches them; the new unfolder it
	// is compared with has the same configuration
	userMode := r.P(1, 6)
	var uopts []gotype.UnfoldOption
	if userMode {
		uopts = append(uopts, gotype.Unfolders(zoo.UserUnfolders()...))
		t = gen.Pick(r, zoo.UserTargets)
		c.Observe("abandon_cases_with_user_unfolders", 1)
	}
	var s val.Stream
	how := ""
	if r.Bool() || userMode {
		// a matching document, so that abandoning happens deep inside
		vg := &gen.ValueGen{R: r, O: gen.GoValueOpts{BadUTF8: !userMode, SpecialF: !userMode}}
		mv, err := model.Fold(vg.Value(t, 0), nil)
		if err == nil {
			em := &emitter{r: r, refs: true, extras: !userMode, shuffle: true, floatInt: true}
			em.emit(mv)
			s, how = em.out, "matching"
		}
	}
	if s == nil {
		s, how = c14Stream(r)
	}
	if len(s) > 120 {
		s = s[:120]
	}
	pv, probe, okp := probeValueFor(r, t)
	if !okp {
		c.Observe("abandon_skipped", 1)
		return
	}
	// what a brand-new unfolder makes of the probe
	fresh := reflect.New(t)
	uf, err := gotype.NewUnfolder(fresh.Interface(), uopts...)
	if err != nil {
		c.Observe("targets_refused", 1)
		return
	}
	var ferr error
	if !c.Guard("unfold.fresh-probe", func() { ferr = mon.Replay(probe, uf, mon.ReplayOpts{}) }) {
		return
	}
	var idle []int
	if hook.Enabled {
		u0, _ := gotype.NewUnfolder(nil)
		idle = hook.Depths(u0)
	}
	ks := make([]int, 0, len(s)+1)
	for k := 0; k <= len(s); k++ {
		ks = append(ks, k)
	}
	if w := streamWeight(s); w > 4000 {
		// a typed container event with 2^15 / 2^16 elements: abandon points
		// at both ends and in the middle only (a case stays linear in its size)
		ks = []int{0, 1, 2, len(s) / 2, len(s) - 1, len(s)}
		c.Observe("abandon_sampled_heavy_streams", 1)
	}
	for _, k := range ks {
		if k < 0 || k > len(s) {
			continue
		}
		c.Begin(c14Case{Type: t.String(), How: how, Stream: s, K: k})
		_, target, canary := canaryHolder(t)
		u, err := gotype.NewUnfolder(target.Interface(), uopts...)
		if err != nil {
			return
		}
		var uerr error
		if !c.Guard("unfold.abandoned", func() { uerr = mon.Replay(s[:k], u, mon.ReplayOpts{ScribbleRefs: true}) }) {
			return
		}
		_ = uerr
		if d := canary(); d != "" {
			c.Violationf("corruption", "unfold:canary", "memory outside the target was written: %s\ntype=%s\nstream prefix=%s", d, t, s[:k])
			return
		}
		// Reset, new target, probe
		again := reflect.New(t)
		var serr, perr error
		if !c.Guard("unfold.reset+probe", func() {
			u.Reset()
			if hook.Enabled {
				if d := hook.Depths(u); !reflect.DeepEqual(d, idle) {
					panic(fmt.Sprintf("verif: stacks not idle after Reset: %v (idle %v)", d, idle))
				}
			}
			serr = u.SetTarget(again.Interface())
			if serr == nil {
				perr = mon.Replay(probe, u, mon.ReplayOpts{})
			}
		}) {
			return
		}
		if serr != nil {
			c.Violationf("reset", "unfold:settarget-after-reset", "SetTarget after Reset failed: %v\ntype=%s", serr, t)
			return
		}
		if (perr == nil) != (ferr == nil) {
			c.Violationf("reset", "unfold:probe-error-differs", "after abandoning at event %d of %d and Reset the probe returned %v, a new unfolder returns %v\ntype=%s\nabandoned prefix=%s\nprobe=%s", k, len(s), perr, ferr, t, s[:k], probe)
			return
		}
		if d := eqGoPlain(fresh.Elem(), again.Elem(), "direct", "$"); d != "" {
			c.Violationf("reset", "unfold:probe-value-differs", "after abandoning at event %d of %d and Reset the probe built another value than a new unfolder: %s\ntype=%s\nabandoned prefix=%s\nprobe=%s", k, len(s), d, t, s[:k], probe)
			return
		}
		c.Observe("abandon_points", 1)
	}
	_ = pv
	c.Observe("abandoned_documents", 1)
	if ferr == nil {
		c.Observe("probes_accepted", 1)
	}
	c.Nontrivial(gen.Mix(141, gen.HashString(t.String()), gen.HashString(s.String())))
	if len(s) < 15 && len(t.String()) < 100 {
		c.Sample("abandon", map[string]interface{}{"type": t.String(), "stream": s.String(), "probe": probe.String()})
	}
}

// targets the library cannot represent must be refused by SetTarget.
func c14Targets(c *run.C) {
	types := append([]reflect.Type{}, zoo.Unsupported...)
	types = append(types, reflect.TypeOf([3]int{}), reflect.TypeOf(zoo.WithArray{}), reflect.TypeOf([]map[int]string{}), reflect.TypeOf(map[string][2]int{}),
		reflect.TypeOf([]zoo.Stringer{}), reflect.TypeOf(map[string]zoo.Stringer{}), reflect.TypeOf(struct{ P *map[bool]int }{}), reflect.TypeOf(map[uint8]interface{}{}))
	t := types[c.Idx%len(types)]
	c.Begin(refusalCase{t.String(), "SetTarget", nil})
	u, err := gotype.NewUnfolder(nil)
	if err != nil {
		c.Violationf("harness", "harness:new", "NewUnfolder(nil): %v", err)
		return
	}
	target := reflect.New(t)
	var serr error
	if !c.Guard("SetTarget", func() { serr = u.SetTarget(target.Interface()) }) {
		return
	}
	if serr == nil {
		// feed something and see what happens to memory
		_, tgt, canary := canaryHolder(t)
		u2, err2 := gotype.NewUnfolder(tgt.Interface())
		if err2 == nil {
			c.Guard("unfold.unsupported-target", func() {
				mon.Replay(val.Stream{{K: val.EObjStart, N: -1}, {K: val.EKey, S: "m"}, {K: val.EObjStart, N: 1}, {K: val.EKey, S: "k"}, {K: val.EString, S: "v"}, {K: val.EObjEnd}, {K: val.EObjEnd}}, u2, mon.ReplayOpts{})
			})
			if d := canary(); d != "" {
				c.Violationf("corruption", "unfold:canary", "unsupported target %s accepted and memory outside it written: %s", t, d)
				return
			}
		}
		c.Violationf("accepted-unsupported", "unfold:accepted-unsupported-target:"+t.String(), "SetTarget accepted a target of type %s, which the library cannot represent", t)
		return
	}
	c.Observe("unsupported_targets_refused", 1)
	c.Nontrivial(gen.Mix(142, gen.HashString(t.String())))
}

// nil targets: a typed nil pointer of a supported type has nothing to unfold
// into; it must be refused (or every event must return an error), not panic.
func c14NilTargets(c *run.C) {
	r := c.R
	base := []reflect.Type{reflect.TypeOf(0), gen.TIface, reflect.TypeOf((*int)(nil)), reflect.TypeOf([]int{}), reflect.TypeOf([]zoo.Plain{}), reflect.TypeOf(map[string]int{}),
		reflect.TypeOf(map[string]zoo.Plain{}), reflect.TypeOf(zoo.Plain{}), reflect.TypeOf(""), reflect.TypeOf([]interface{}{}), reflect.TypeOf(map[string]interface{}{}), reflect.TypeOf(zoo.NamedInts{})}
	t := base[c.Idx%len(base)]
	viaSet := (c.Idx/len(base))%2 == 1
	nilPtr := reflect.Zero(reflect.PtrTo(t)).Interface() // (*T)(nil)
	c.Begin(refusalCase{"(*" + t.String() + ")(nil)", map[bool]string{true: "SetTarget", false: "NewUnfolder"}[viaSet], nil})
	var u *gotype.Unfolder
	var err error
	if !c.Guard("nil-target", func() {
		if viaSet {
			u, err = gotype.NewUnfolder(nil)
			if err == nil {
				err = u.SetTarget(nilPtr)
			}
		} else {
			u, err = gotype.NewUnfolder(nilPtr)
		}
	}) {
		return
	}
	if err != nil {
		c.Observe("nil_targets_refused", 1)
		c.Nontrivial(gen.Mix(143, uint64(c.Idx)))
		return
	}
	// accepted: then the events of any document must fail cleanly
	v := (&gen.ValueGen{R: r, O: gen.GoValueOpts{MaxLen: 2}}).Value(t, 0)
	mv, merr := model.Fold(v, nil)
	if merr != nil {
		return
	}
	em := &emitter{r: r}
	em.emit(mv)
	var uerr error
	if !c.Guard("unfold.nil-target", func() { uerr = mon.Replay(em.out, u, mon.ReplayOpts{}) }) {
		return
	}
	if uerr == nil {
		c.Violationf("accepted-unsupported", "unfold:nil-target-accepted", "a document was unfolded 'successfully' into the nil pointer (*%s)(nil)", t)
		return
	}
	c.Observe("nil_targets_failing_cleanly", 1)
	c.Nontrivial(gen.Mix(143, uint64(c.Idx)))
}

func c14Suites(build string) []*run.Suite {
	sfx := ""
	div := 1
	if build != "" {
		sfx = "-" + build
		div = 8
	}
	return []*run.Suite{
		{Name: "mismatch" + sfx, Build: build, N: tierN(150000/div, 4000000/div), Case: c14Mismatch, Require: []string{"mismatch_errors", "mismatch_accepted", "how_huge-announced-length"}},
		{Name: "abandon" + sfx, Build: build, N: tierN(12000/div, 300000/div), Case: c14Abandon, Require: []string{"abandon_points", "probes_accepted"}},
		{Name: "targets" + sfx, Build: build, N: tierN(32, 32), Case: c14Targets, Require: []string{"unsupported_targets_refused"}},
		{Name: "nil-targets" + sfx, Build: build, N: tierN(48, 480), Case: c14NilTargets},
	}
}

func init() {
	suites := c14Suites("")
	suites = append(suites, c14Suites("race")...)
	asan := c14Suites("asan")
	for _, s := range asan {
		n := s.N
		s.N = func(tier string) int {
			if tier != "thorough" {
				return 0
			}
			return n(tier)
		}
		s.Require = nil
	}
	suites = append(suites, asan...)
	run.Register(&run.Check{
		ID:    "C14",
		Level: "exploration",
		Rule: "pairs (well-formed stream, generated target type): random streams, the documented fold of a value of ANOTHER generated type (re-emitted in random widths, strings by reference), every well-formed stream of <= 3 events bare / inside an array / inside an object under a plausible key, " +
			"and streams announcing 2^16..2^63-1 elements that they do not back (abandoned after 0..2 elements), at nesting depth 0..2. The target is the middle field of struct{pre [64]byte; T; post [64]byte} inside the middle element of a 3-element slice (canaries + neighbours verified after every run). " +
			"Monitors: panic guard; TotalAlloc delta <= 512KiB + 2KiB/event + 64B/payload byte; the same workload under the race+checkptr build and (thorough) the ASan build. " +
			"abandon: each document is cut after event k for EVERY k, then Reset (hook: all nine unfolder stacks idle), SetTarget(fresh), probe document: error verdict and value equal those of a brand-new unfolder. " +
			"targets: non-string-keyed maps, arrays, non-empty interfaces, chan/func/complex (also nested) must be refused by SetTarget. distinct_nontrivial = distinct (type, stream).",
		Assumptions: []string{
			"what a successful unfold of a mismatching-but-accepted document stores is C13's business; here only crash, corruption, allocation and reset behaviour are judged",
			"allocation is measured with runtime.ReadMemStats in a single-goroutine worker; the budget is two orders of magnitude above what matching documents need",
			"checkptr/ASan only see invalid pointer use on executed paths; canaries only see writes that land in the 64 bytes around the target or in the neighbouring slice elements",
		},
		Suites: suites,
	})
}

// streamWeight counts events, elements of extended events included.
func streamWeight(s val.Stream) int {
	w := 0
	for _, e := range s {
		w++
		if e.X != nil {
			if rv := reflect.ValueOf(e.X); rv.Kind() == reflect.Slice || rv.Kind() == reflect.Map {
				w += rv.Len()
			}
		}
	}
	return w
}
