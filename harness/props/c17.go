package props

import (
	"bytes"
	"fmt"
	"io"
	"reflect"

	"github.com/elastic/go-structform/gotype"

	"verif/harness/codec"
	"verif/harness/gen"
	"verif/harness/hook"
	"verif/harness/model"
	"verif/harness/mon"
	"verif/harness/run"
	"verif/harness/val"
	"verif/harness/zoo"
)

// C17: a reused parser, encoder, iterator or unfolder behaves like a fresh
// one.

func c17Streams(r *gen.Rand, idx int, n int, container bool) []val.Stream {
	short := gen.ShortStreams()
	var out []val.Stream
	for i := 0; i < n; i++ {
		switch {
		case !container && r.P(1, 2):
			out = append(out, short[(idx*7+i*13+r.Intn(len(short)))%len(short)])
		default:
			out = append(out, gen.Stream(r, gen.StreamOpts{MaxDepth: 5, MaxNodes: 25, Extended: true, Refs: true, BadUTF8: true, TypedBasic: true, Deep: true, Container: container}))
		}
	}
	return out
}

// c17HistLen draws the number of documents an instance has processed before
// the probe: 0..6 mostly, and 7..40 for one case in 16 (a leak of one entry
// per document only overflows a 32-entry pre-allocated stack after 32).
func c17HistLen(c *run.C) int {
	r := c.R
	if r.P(1, 16) {
		c.Observe("long_histories_7_to_40", 1)
		return 7 + r.Intn(34)
	}
	return r.Intn(7)
}

func idleCheck(c *run.C, what string, inst interface{}, idle []int, after string) bool {
	if !hook.Enabled || idle == nil {
		return true
	}
	d := hook.Depths(inst)
	if !reflect.DeepEqual(d, idle) {
		c.Violationf("state", what+":not-idle", "%s: nesting stacks are not at their idle depth after %s: %v (new instance: %v)", what, after, d, idle)
		return false
	}
	c.Observe("idle_depth_checks", 1)
	return true
}

// encoders: the probe's bytes written by a used encoder equal those of a
// new encoder.
func c17Encoders(c *run.C) {
	r := c.R
	cd := codec.All[c.Idx%3]
	o := codec.JSONOptsFromIndex(r.Intn(8) | 4)
	m := c17HistLen(c)
	hist := c17Streams(r, c.Idx, m, false)
	probe := c17Streams(r, c.Idx+1, 1, false)[0]
	c.Begin(map[string]interface{}{"codec": cd.Name, "json_opts": o.Index(), "history": hist, "probe": probe})
	var w mon.CountingWriter
	v := cd.NewVisitor(&w, o)
	var idle []int
	if hook.Enabled {
		idle = hook.Depths(cd.NewVisitor(io.Discard, o))
	}
	for i, s := range hist {
		var err error
		if !c.Guard(cd.Name+".encode-history", func() { err = mon.Replay(s, v, mon.ReplayOpts{ScribbleRefs: true}) }) {
			return
		}
		if err != nil {
			c.Violationf("encode-error", cd.Name+":encode-error", "%s encoder failed on document %d of the history: %v\nstream=%s", cd.Name, i, err, s)
			return
		}
		if !idleCheck(c, cd.Name+" encoder", v, idle, fmt.Sprintf("document %d (%s)", i, s)) {
			return
		}
	}
	if jv, isJSON := v.(interface {
		SetEscapeHTML(bool)
		SetExplicitRadixPoint(bool)
		SetIgnoreInvalidFloat(bool)
	}); isJSON && r.Bool() {
		// the options of a used encoder are changed before the probe: it must
		// then write what a new encoder with these options writes
		o = codec.JSONOptsFromIndex(r.Intn(8) | 4)
		jv.SetEscapeHTML(o.EscapeHTML)
		jv.SetExplicitRadixPoint(o.ExplicitRadixPoint)
		jv.SetIgnoreInvalidFloat(o.IgnoreInvalidFloat)
		c.Observe("encoder_options_changed_before_probe", 1)
	}
	off := len(w.Buf)
	var e1, e2 error
	if !c.Guard(cd.Name+".encode-probe", func() { e1 = mon.Replay(probe, v, mon.ReplayOpts{}) }) {
		return
	}
	used := w.Buf[off:]
	fresh, e2 := encode(cd, o, probe)
	if (e1 == nil) != (e2 == nil) {
		c.Violationf("reuse", cd.Name+":encoder-error-differs", "used %s encoder returned %v for the probe, a new one %v", cd.Name, e1, e2)
		return
	}
	if !bytes.Equal(used, fresh) && !mapOrderOnly(cd.Name, used, fresh) {
		c.Violationf("reuse", cd.Name+":encoder-bytes-differ", "%s encoder used for %d documents writes other bytes for the probe than a new encoder\nused =%s\nfresh=%s\nhistory=%v\nprobe=%s", cd.Name, m, hexs(used), hexs(fresh), hist, probe)
		return
	}
	if !idleCheck(c, cd.Name+" encoder", v, idle, "the probe") {
		return
	}
	c.Observe("encoder_histories_"+cd.Name, 1)
	c.Observe("history_documents", m)
	c.Nontrivial(gen.Mix(170, uint64(c.Idx%3), gen.HashString(fmt.Sprint(hist, probe))))
	if m > 0 && m < 3 && len(probe) < 5 {
		c.Sample("encoder", map[string]interface{}{"codec": cd.Name, "history": fmt.Sprint(hist), "probe": probe.String()})
	}
}

// mapOrderOnly: typed-map events iterate in random order, so two encodings
// of the same stream may differ in member order only; compare as values.
func mapOrderOnly(codecName string, a, b []byte) bool {
	ra, rb := refDecode(codecName, a), refDecode(codecName, b)
	if ra.Status != 0 || rb.Status != 0 || len(ra.Values) != len(rb.Values) {
		return false
	}
	for i := range ra.Values {
		x, y := ra.Values[i], rb.Values[i]
		markUnordered(&x)
		markUnordered(&y)
		if val.Equal(x, y, val.NumExact) != "" {
			return false
		}
	}
	return len(a) == len(b)
}

func markUnordered(v *val.V) {
	if v.K == val.Obj {
		v.Unordered = true
	}
	for i := range v.A {
		markUnordered(&v.A[i])
	}
}

func c17Doc(r *gen.Rand, cd *codec.Codec, container bool) []byte {
	if r.Bool() {
		for {
			b := gen.ForeignDoc(r, cd.Name, 5, 25, container).Bytes
			// JSON numbers outside the 64-bit / float64 range may be rejected (C04)
			if rr := refDecode(cd.Name, b); !rr.Has("big-int") && !rr.Has("float-overflow") {
				return b
			}
		}
	}
	for {
		s := gen.Stream(r, gen.StreamOpts{MaxDepth: 5, MaxNodes: 25, Extended: true, Refs: true, BadUTF8: cd.Name != "json", SpecialF: cd.Name != "json", TypedBasic: true, Deep: true, Container: container})
		b, err := encode(cd, codec.JSONOptsFromIndex(r.Intn(8)|4), s)
		if err == nil {
			return b
		}
	}
}

// parsers: Parse / Write*+end on one Parser instance.
func c17Parsers(c *run.C) {
	r := c.R
	cd := codec.All[c.Idx%3]
	m := c17HistLen(c)
	var hist [][]byte
	for i := 0; i < m; i++ {
		hist = append(hist, c17Doc(r, cd, false))
	}
	probe := c17Doc(r, cd, false)
	var hx []string
	for _, d := range hist {
		hx = append(hx, hexs(d))
	}
	c.Begin(map[string]interface{}{"codec": cd.Name, "history": hx, "probe": hexs(probe)})
	fm := mon.NewMonitor()
	if err := cd.Parse(probe, fm.WithRefs()); err != nil {
		c.Observe("parser_probe_rejected", 1)
		return
	}
	um := mon.NewMonitor()
	p := cd.NewParser(um.WithRefs())
	var idle []int
	if hook.Enabled {
		idle = hook.Depths(cd.NewParser(mon.NewMonitor()))
	}
	feed := func(doc []byte) (err error) {
		if hook.Enabled && r.Bool() {
			for _, ch := range mon.Chunks(doc, []int{r.Range(1, 9), r.Range(1, 40)}) {
				if _, err = p.Write(ch); err != nil {
					return err
				}
			}
			err, _ = hook.Finalize(p)
			return err
		}
		return p.Parse(doc)
	}
	for i, d := range hist {
		var err error
		ok, _ := guardCall(c, cd.Name+".parse-history", func() int { return um.NEvents }, func() { err = feed(d) })
		if !ok {
			return
		}
		if err != nil {
			// the reference tells whether the document was valid at all
			if refDecode(cd.Name, d).Status == 0 {
				c.Violationf("reuse", cd.Name+":parser-history-rejected", "used %s parser rejected valid document %d of the history: %v\ndoc=%s", cd.Name, i, err, hexs(d))
			}
			return
		}
		if !idleCheck(c, cd.Name+" parser", p, idle, fmt.Sprintf("document %d (%s)", i, hexs(d))) {
			return
		}
	}
	before := len(um.Events)
	var err error
	ok, _ := guardCall(c, cd.Name+".parse-probe", func() int { return um.NEvents }, func() { err = feed(probe) })
	if !ok {
		return
	}
	if err != nil {
		c.Violationf("reuse", cd.Name+":parser-probe-error", "%s parser used for %d documents rejects the probe a new parser accepts: %v\nprobe=%s\nhistory=%v", cd.Name, m, err, hexs(probe), hx)
		return
	}
	if d := sameEvents(fm.Events, um.Events[before:]); d != "" {
		c.Violationf("reuse", cd.Name+":parser-events-differ", "%s parser used for %d documents reports other events for the probe than a new parser: %s\nprobe=%s\nhistory=%v", cd.Name, m, d, hexs(probe), hx)
		return
	}
	if !idleCheck(c, cd.Name+" parser", p, idle, "the probe") {
		return
	}
	c.Observe("parser_histories_"+cd.Name, 1)
	c.Observe("history_documents", m)
	c.Nontrivial(gen.Mix(171, uint64(c.Idx%3), gen.HashBytes(probe), gen.HashString(fmt.Sprint(hx))))
}

// decoders: the probe is the last document of a stream read by one decoder.
func c17Decoders(c *run.C) {
	r := c.R
	cd := codec.All[c.Idx%3]
	m := c17HistLen(c)
	var in []byte
	var hx []string
	for i := 0; i < m; i++ {
		d := c17Doc(r, cd, cd.Name == "json")
		hx = append(hx, hexs(d))
		in = append(in, d...)
		if cd.Name == "json" {
			in = append(in, ' ')
		}
	}
	probe := c17Doc(r, cd, false)
	all := append(append([]byte{}, in...), probe...)
	useReader := r.Bool()
	sizes := []int{r.Range(1, 9), r.Range(1, 50)}
	buf := gen.Pick(r, []int{0, 1, 3, 16, 64, 4096})
	c.Begin(map[string]interface{}{"codec": cd.Name, "history": hx, "probe": hexs(probe), "reader": useReader, "sizes": sizes, "buf": buf})
	fm := mon.NewMonitor()
	var fd codec.Decoder
	if useReader {
		fd = cd.NewDecoder(&mon.ChunkReader{Data: probe, Sizes: sizes, EOFWithData: len(probe)%2 == 1}, buf, fm.WithRefs())
	} else {
		fd = cd.NewBytesDecoder(probe, fm.WithRefs())
	}
	var ferr error
	ok, _ := guardCall(c, cd.Name+".fresh-decoder", func() int { return fm.NEvents }, func() { ferr = fd.Next() })
	if !ok {
		return
	}
	if ferr != nil {
		c.Observe("decoder_probe_rejected", 1)
		return
	}
	um := mon.NewMonitor()
	var ud codec.Decoder
	if useReader {
		ud = cd.NewDecoder(&mon.ChunkReader{Data: all, Sizes: sizes, EOFWithData: len(probe)%2 == 1}, buf, um.WithRefs())
	} else {
		ud = cd.NewBytesDecoder(all, um.WithRefs())
	}
	var idle []int
	if hook.Enabled {
		idle = hook.Depths(cd.NewBytesDecoder(nil, mon.NewMonitor()))
	}
	before := 0
	for i := 0; i <= m; i++ {
		before = len(um.Events)
		var err error
		ok, _ := guardCall(c, cd.Name+".decoder-next", func() int { return um.NEvents }, func() { err = ud.Next() })
		if !ok {
			return
		}
		if err != nil {
			if refDecode(cd.Name, all).Status == 0 && len(refDecode(cd.Name, all).Values) == m+1 {
				c.Violationf("reuse", cd.Name+":decoder-next-error", "%s decoder: Next #%d of %d returned %v\nstream=%s", cd.Name, i+1, m+1, err, hexs(all))
			}
			return
		}
		if hook.Enabled && idle != nil {
			d := hook.Depths(ud)
			// the last entry is the number of buffered, not yet parsed bytes: not a nesting stack
			if !reflect.DeepEqual(d[:len(d)-1], idle[:len(idle)-1]) {
				c.Violationf("state", cd.Name+" decoder:not-idle", "%s decoder: parser stacks are not idle after Next #%d: %v (new: %v)", cd.Name, i+1, d, idle)
				return
			}
			c.Observe("idle_depth_checks", 1)
		}
	}
	if d := sameEvents(fm.Events, um.Events[before:]); d != "" {
		c.Violationf("reuse", cd.Name+":decoder-events-differ", "%s decoder that has read %d documents reports other events for the probe than a new decoder: %s\nprobe=%s\nhistory=%v", cd.Name, m, d, hexs(probe), hx)
		return
	}
	c.Observe("decoder_histories_"+cd.Name, 1)
	c.Observe("history_documents", m)
	c.Nontrivial(gen.Mix(172, uint64(c.Idx%3), gen.HashBytes(all), uint64(buf)))
}

// iterator: Fold on one Iterator for several values, types seen and unseen.
func c17Iterator(c *run.C) {
	r := c.R
	m := c17HistLen(c)
	to := gen.GoTypeOpts{MaxDepth: 3, Extra: zoo.Supported}
	vo := gen.GoValueOpts{BadUTF8: true, SpecialF: true}
	type tv struct {
		t reflect.Type
		v reflect.Value
	}
	var hist []tv
	for i := 0; i < m; i++ {
		t, v := genTypeValue(r, to, vo)
		hist = append(hist, tv{t, v})
	}
	var pt reflect.Type
	var pv reflect.Value
	seen := false
	if m > 0 && r.Bool() {
		// a type the iterator has compiled before, another value
		pt = hist[r.Intn(m)].t
		pv = (&gen.ValueGen{R: r, O: vo}).Value(pt, 0)
		seen = true
	} else {
		pt, pv = genTypeValue(r, to, vo)
	}
	var desc []string
	for _, h := range hist {
		desc = append(desc, h.t.String())
	}
	c.Begin(map[string]interface{}{"history_types": desc, "probe_type": pt.String(), "probe_value": valueString(pv), "seen_before": seen})
	if _, err := model.Fold(pv, nil); err != nil {
		return
	}
	fm := mon.NewMonitor()
	var ferr error
	if !c.Guard("fresh-iterator", func() { ferr = gotype.Fold(pv.Interface(), fm) }) {
		return
	}
	um := mon.NewMonitor()
	it, err := gotype.NewIterator(um)
	if err != nil {
		c.Violationf("harness", "iterator:new", "NewIterator: %v", err)
		return
	}
	for i, h := range hist {
		var err error
		if !c.Guard("iterator.history", func() { err = it.Fold(h.v.Interface()) }) {
			return
		}
		if err != nil {
			if _, merr := model.Fold(h.v, nil); merr == nil {
				c.Violationf("reuse", "iterator:history-error", "used iterator failed on value %d of the history: %v\ntype=%s", i, err, h.t)
			}
			return
		}
	}
	before := len(um.Events)
	var uerr error
	if !c.Guard("iterator.probe", func() { uerr = it.Fold(pv.Interface()) }) {
		return
	}
	if (uerr == nil) != (ferr == nil) {
		c.Violationf("reuse", "iterator:error-differs", "iterator used for %d values returned %v for the probe, a new one %v\ntype=%s", m, uerr, ferr, pt)
		return
	}
	if ferr != nil {
		return
	}
	got, want := um.Events[before:], fm.Events
	gv, e1 := got.Values()
	wv, e2 := want.Values()
	if e1 != nil || e2 != nil || len(gv) != 1 || len(wv) != 1 {
		c.Violationf("reuse", "iterator:malformed", "probe events malformed: %v / %v", e1, e2)
		return
	}
	// map iteration order is random: compare event multiset via values, and event counts
	markUnordered(&gv[0])
	markUnordered(&wv[0])
	if d := val.Equal(wv[0], gv[0], val.NumExact); d != "" || len(got) != len(want) {
		c.Violationf("reuse", "iterator:events-differ", "iterator used for %d values (probe type seen before: %v) emits other events for the probe than a new iterator: %s (%d vs %d events)\ntype=%s\nvalue=%s\nused =%s\nfresh=%s", m, seen, d, len(got), len(want), pt, valueString(pv), got, want)
		return
	}
	c.Observe("iterator_histories", 1)
	if seen {
		c.Observe("iterator_probe_type_seen_before", 1)
	} else {
		c.Observe("iterator_probe_type_new", 1)
	}
	c.Observe("history_documents", m)
	c.Nontrivial(gen.Mix(173, gen.HashString(fmt.Sprint(desc)), gen.HashString(pt.String()), gen.HashString(valueString(pv))))
}

// unfolder: SetTarget + document, several times, then the probe.
func c17Unfolder(c *run.C) {
	r := c.R
	m := c17HistLen(c)
	to := gen.GoTypeOpts{MaxDepth: 3, InlineStructOnly: true, Extra: zoo.Supported}
	vo := gen.GoValueOpts{BadUTF8: true, SpecialF: true, ZeroDropped: true}
	type doc struct {
		t reflect.Type
		s val.Stream
	}
	// a third of the histories run with a key cache (the unfolder's only
	// configuration) small enough to evict; half of those unfold into
	// map-typed targets only, where the cache is consulted
	cacheCap := -1
	mapsOnly := false
	if r.P(1, 3) {
		cacheCap = gen.Pick(r, []int{0, 1, 2, 3, 8})
		mapsOnly = r.Bool()
		vo.MaxLen = 5
	}
	mapTypes := []reflect.Type{reflect.TypeOf(map[string]int{}), reflect.TypeOf(map[string]interface{}{}), reflect.TypeOf([]map[string]string{}), gen.TIface,
		reflect.TypeOf(map[string]map[string]bool{}), reflect.TypeOf(map[string]zoo.Plain{}), reflect.TypeOf(struct{ M map[string]uint8 }{})}
	// a sixth of the histories run an unfolder configured with user unfolders
	// (gotype.Unfolders: primitive, processing and state unfolders) into
	// targets that reach them - compared with a new unfolder of the same
	// configuration, like everything else here
	userMode := cacheCap < 0 && r.P(1, 5)
	var uopts []gotype.UnfoldOption
	if userMode {
		uopts = append(uopts, gotype.Unfolders(zoo.UserUnfolders()...))
		vo.BadUTF8, vo.SpecialF = false, false
	}
	mk := func() (doc, bool) {
		t, v := genTypeValue(r, to, vo)
		if userMode {
			t = gen.Pick(r, zoo.UserTargets)
			v = (&gen.ValueGen{R: r, O: vo}).Value(t, 0)
		}
		if mapsOnly {
			t = gen.Pick(r, mapTypes)
			v = (&gen.ValueGen{R: r, O: vo}).Value(t, 0)
		}
		mv, err := model.Fold(v, nil)
		if err != nil {
			return doc{}, false
		}
		em := &emitter{r: r, refs: true, extras: !userMode, shuffle: true, floatInt: true, bad: !userMode, special: !userMode}
		em.emit(mv)
		return doc{t, em.out}, true
	}
	var hist []doc
	for i := 0; i < m; i++ {
		d, ok := mk()
		if !ok {
			return
		}
		hist = append(hist, d)
	}
	probe, ok := mk()
	if !ok {
		return
	}
	if m > 0 && r.Bool() {
		probe.t = hist[r.Intn(m)].t // same type as before, (mis)matching document: both must behave alike
	}
	var desc []string
	for _, h := range hist {
		desc = append(desc, h.t.String())
	}
	c.Begin(map[string]interface{}{"history_types": desc, "probe_type": probe.t.String(), "probe": probe.s, "key_cache": cacheCap})
	ft := reflect.New(probe.t)
	fu, err := gotype.NewUnfolder(ft.Interface(), uopts...)
	if err != nil {
		return
	}
	if cacheCap >= 0 {
		fu.EnableKeyCache(cacheCap)
	}
	var ferr error
	if !c.Guard("fresh-unfolder", func() { ferr = mon.Replay(probe.s, fu, mon.ReplayOpts{ScribbleRefs: true}) }) {
		return
	}
	u, _ := gotype.NewUnfolder(nil, uopts...)
	if userMode {
		c.Observe("unfolder_histories_with_user_unfolders", 1)
	}
	if cacheCap >= 0 {
		u.EnableKeyCache(cacheCap)
		c.Observe("unfolder_histories_with_key_cache", 1)
	}
	var idle []int
	if hook.Enabled {
		idle = hook.Depths(u)
	}
	for i, h := range hist {
		tgt := reflect.New(h.t)
		var err error
		if !c.Guard("unfolder.history", func() {
			if err = u.SetTarget(tgt.Interface()); err == nil {
				err = mon.Replay(h.s, u, mon.ReplayOpts{ScribbleRefs: true})
			}
		}) {
			return
		}
		if err != nil {
			c.Observe("unfolder_history_errors", 1)
			return // documents must be completely processed for C17 to apply
		}
		if !idleCheck(c, "unfolder", u, idle, fmt.Sprintf("document %d into %s", i, h.t)) {
			return
		}
		if r.P(1, 3) {
			// Reset between complete documents (drops the target): the next
			// SetTarget - possibly of a type this unfolder never compiled -
			// must find the instance configured as it was created
			if !c.Guard("unfolder.Reset", func() { u.Reset() }) {
				return
			}
			c.Observe("unfolder_resets_between_documents", 1)
		}
	}
	ut := reflect.New(probe.t)
	var uerr error
	if !c.Guard("unfolder.probe", func() {
		if uerr = u.SetTarget(ut.Interface()); uerr == nil {
			uerr = mon.Replay(probe.s, u, mon.ReplayOpts{ScribbleRefs: true})
		}
	}) {
		return
	}
	if (uerr == nil) != (ferr == nil) {
		c.Violationf("reuse", "unfolder:error-differs", "unfolder used for %d documents returned %v for the probe, a new one %v\ntype=%s\nprobe=%s", m, uerr, ferr, probe.t, probe.s)
		return
	}
	if d := eqGoPlain(ft.Elem(), ut.Elem(), "direct", "$"); d != "" {
		c.Violationf("reuse", "unfolder:value-differs", "unfolder used for %d documents builds another value than a new unfolder: %s\ntype=%s\nprobe=%s", m, d, probe.t, probe.s)
		return
	}
	if uerr == nil && !idleCheck(c, "unfolder", u, idle, "the probe") {
		return
	}
	c.Observe("unfolder_histories", 1)
	c.Observe("history_documents", m)
	c.Nontrivial(gen.Mix(174, gen.HashString(fmt.Sprint(desc)), gen.HashString(probe.t.String()), gen.HashString(probe.s.String())))
}

func init() {
	run.Register(&run.Check{
		ID:    "C17",
		Level: "exploration",
		Rule: "histories of m in 0..6 complete documents through ONE instance, then a probe, per instance kind: 3 encoders (probe bytes equal a new encoder's), 3 parsers (one-shot Parse or Write*+end on the same Parser; probe events equal), " +
			"3x2 pull decoders (bytes / chunking reader; events of the last Next equal a new decoder's on the probe alone), the fold Iterator (probe type compiled before or new; events equal), the Unfolder (SetTarget per document; probe value and error verdict equal). " +
			"Documents mix all well-formed <= 3-event streams, generated trees with extended events and typed containers, foreign documents, nesting beyond the pre-allocated 32/64-entry stacks. " +
			"Hook assertion after every completed document: every nesting stack (json states/first/inArray, ubjson state/valueState/length, cborl state/length, the unfolder's six context stacks and three value buffers) is at the depth of a new instance. " +
			"distinct_nontrivial = distinct (instance kind, history, probe).",
		Assumptions: []string{
			"documents of a history are valid (the property speaks of completely processed documents); invalid ones end the case",
			"typed-map events iterate in random order: byte/event comparisons fall back to value comparison when only member order differs",
		},
		Suites: []*run.Suite{
			{Name: "encoders", N: tierN(60000, 2000000), Case: c17Encoders, Require: hookedReq([]string{"encoder_histories_json", "encoder_histories_ubjson", "encoder_histories_cborl"}, "idle_depth_checks")},
			{Name: "parsers", N: tierN(60000, 2000000), Case: c17Parsers, Require: []string{"parser_histories_json", "parser_histories_ubjson", "parser_histories_cborl"}},
			{Name: "decoders", N: tierN(60000, 2000000), Case: c17Decoders, Require: []string{"decoder_histories_json", "decoder_histories_ubjson", "decoder_histories_cborl"}},
			{Name: "iterator", N: tierN(40000, 1200000), Case: c17Iterator, Require: []string{"iterator_histories", "iterator_probe_type_seen_before", "iterator_probe_type_new"}},
			{Name: "unfolder", N: tierN(40000, 1200000), Case: c17Unfolder, Require: []string{"unfolder_histories", "unfolder_histories_with_key_cache"}},
		},
	})
}
