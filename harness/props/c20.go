package props

import (
	"fmt"
	"reflect"
	"runtime"

	"github.com/elastic/go-structform/gotype"

	"verif/harness/codec"
	"verif/harness/gen"
	"verif/harness/hook"
	"verif/harness/model"
	"verif/harness/mon"
	"verif/harness/run"
	"verif/harness/val"
	"verif/harness/zoo"
)

// C20: the unfolder's key cache never changes results, for any capacity.

var c20Caps = []int{0, 1, 2, 3, 5, 8, 64}

var c20Elems = func() []reflect.Type {
	ts := append([]reflect.Type{}, gen.ScalarTypes()...)
	ts = append(ts, gen.TIface, reflect.TypeOf(zoo.Plain{}), reflect.TypeOf([]int{}), reflect.TypeOf(map[string]string{}), reflect.TypeOf(&zoo.Plain{}), reflect.TypeOf([]string{}))
	return ts
}()

// lru is the reference cache used only to COUNT hits, misses and evictions
// for the evidence; its recency order is not an oracle.
type lru struct {
	cap                     int
	keys                    []string
	hits, misses, evictions int
}

func (l *lru) touch(k string) {
	for i, x := range l.keys {
		if x == k {
			l.hits++
			l.keys = append(append(l.keys[:i:i], l.keys[i+1:]...), k)
			return
		}
	}
	l.misses++
	if l.cap > 0 && len(l.keys) >= l.cap {
		l.keys = l.keys[1:]
		l.evictions++
	}
	if l.cap > 0 {
		l.keys = append(l.keys, k)
	}
}

// c20BigCaps: capacities far above any number of keys a document has.  The
// capacity is a bound, not a size: enabling the cache must not cost memory in
// proportion to it.  (Capacities between 2^21 and 2^30 are left out on
// purpose: an implementation that allocates by capacity would take gigabytes
// per worker there instead of failing at once.)
var c20BigCaps = intsThatFit(100, 1000, 4096, 1<<16, 1<<20, 1<<31-1, 1<<31, 1<<32-1, 1<<32, 1<<40, 1<<62+1, 1<<63-1)

func c20One(c *run.C) { c20Run(c, c20Caps[c.Idx%len(c20Caps)]) }

func c20Big(c *run.C) { c20Run(c, c20BigCaps[c.Idx%len(c20BigCaps)]) }

func c20Run(c *run.C, capacity int) {
	r := c.R
	e := c20Elems[(c.Idx/len(c20Caps))%len(c20Elems)]
	var t reflect.Type
	switch (c.Idx / (len(c20Caps) * len(c20Elems))) % 4 {
	case 0:
		t = reflect.MapOf(gen.TString, e)
	case 1:
		t = reflect.MapOf(gen.TString, reflect.MapOf(gen.TString, e))
	case 2:
		t = reflect.StructOf([]reflect.StructField{{Name: "M", Type: reflect.MapOf(gen.TString, e)}, {Name: "L", Type: reflect.SliceOf(reflect.MapOf(gen.TString, e))}})
	default:
		t = reflect.SliceOf(reflect.MapOf(gen.TString, e))
	}
	// key alphabet
	nk := r.Range(2, 12)
	var alphabet []string
	for len(alphabet) < nk {
		var k string
		switch r.Intn(6) {
		case 0:
			k = fmt.Sprintf("k%d", len(alphabet))
		case 1:
			k = gen.Pick(r, []string{"", "a", "ab", "abc", "abcd", "ключ", "日本", "a b"})
		case 2:
			k = "prefix_shared_by_many_keys_" + fmt.Sprint(r.Intn(4))
		case 3:
			k = gen.String(r, true)
		default:
			k = fmt.Sprintf("key-%c", 'a'+byte(len(alphabet)))
		}
		dup := false
		for _, x := range alphabet {
			if x == k {
				dup = true
			}
		}
		if !dup {
			alphabet = append(alphabet, k)
		}
	}
	ndocs := r.Range(1, 8)
	vg := &gen.ValueGen{R: r, O: gen.GoValueOpts{BadUTF8: true, MaxLen: 4}}
	var vals []reflect.Value
	var streams []val.Stream
	for d := 0; d < ndocs; d++ {
		v := vg.Value(t, 0)
		rekey(r, v, alphabet, 0)
		mv, err := model.Fold(v, nil)
		if err != nil {
			return
		}
		em := &emitter{r: r, refs: true}
		em.emit(mv)
		// every key by reference: that is the path through the cache
		for i := range em.out {
			if em.out[i].K == val.EKey {
				em.out[i].K = val.EKeyRef
			}
		}
		vals = append(vals, v)
		streams = append(streams, em.out)
	}
	// re-enabling schedule: -1 = leave the cache alone before document d
	reenable := make([]int, ndocs)
	nre := 0
	for d := range reenable {
		reenable[d] = -1
		if d > 0 && r.P(1, 5) {
			if r.Bool() {
				reenable[d] = capacity
			} else {
				reenable[d] = gen.Pick(r, c20Caps)
			}
			nre++
		}
	}
	path := "direct"
	var cd *codec.Codec
	if r.P(1, 3) {
		cd = codec.All[r.Intn(3)]
		path = cd.Name
		if path == "json" {
			return // invalid UTF-8 keys would be rewritten; the binary codecs keep the bytes
		}
	}
	c.Begin(map[string]interface{}{"capacity": capacity, "type": t.String(), "keys": alphabet, "docs": ndocs, "path": path, "reenable_before_doc": reenable, "streams": streams})

	resetBefore := make([]bool, ndocs)
	for i := range resetBefore {
		resetBefore[i] = r.P(1, 3)
	}
	reuseArena := cd != nil && r.P(1, 3)
	if reuseArena {
		c.Observe("sequences_from_one_reused_read_buffer", 1)
	}
	runAll := func(withCache bool) ([]reflect.Value, error, *lru, bool) {
		var arena []byte
		u, err := gotype.NewUnfolder(nil)
		if err != nil {
			return nil, err, nil, true
		}
		ref := &lru{cap: capacity}
		ok := true
		if withCache {
			var before, after runtime.MemStats
			runtime.ReadMemStats(&before)
			ok = c.Guard("EnableKeyCache", func() { u.EnableKeyCache(capacity) })
			if !ok {
				return nil, nil, nil, false
			}
			runtime.ReadMemStats(&after)
			c.ObserveMax("max_alloc_bytes_by_EnableKeyCache", int(after.TotalAlloc-before.TotalAlloc))
			if a := after.TotalAlloc - before.TotalAlloc; a > 1<<20 {
				c.Violationf("alloc", "cache:alloc-by-capacity", "EnableKeyCache(%d) allocated %d bytes before any key was seen: the capacity is a bound, not a size", capacity, a)
				return nil, nil, nil, false
			}
		}
		var out []reflect.Value
		for d, s := range streams {
			if withCache && d > 0 && reenable[d] >= 0 {
				// enabling the cache again (same or another capacity) between documents
				n := reenable[d]
				if !c.Guard("EnableKeyCache-again", func() { u.EnableKeyCache(n) }) {
					return nil, nil, nil, false
				}
				ref = &lru{cap: n, hits: ref.hits, misses: ref.misses, evictions: ref.evictions}
			}
			tgt := reflect.New(t)
			var uerr error
			ok = c.Guard(fmt.Sprintf("unfold.cache=%v", withCache), func() {
				if d > 0 && resetBefore[d] {
					u.Reset() // the documented way to prepare an unfolder for its next target
				}
				if uerr = u.SetTarget(tgt.Interface()); uerr != nil {
					return
				}
				if cd == nil {
					uerr = mon.Replay(s, u, mon.ReplayOpts{ScribbleRefs: true})
					return
				}
				buf, eerr := encode(cd, codec.JSONOpts{}, s)
				if eerr != nil {
					uerr = eerr
					return
				}
				chunk := r.Range(1, 64)
				if reuseArena {
					// one read buffer for every document of the sequence: the
					// next document's bytes (other keys of the same lengths at
					// the same offsets) replace this document's
					if cap(arena) < len(buf) {
						arena = make([]byte, 2*len(buf)+64)
					}
					b := arena[:len(buf):len(buf)]
					copy(b, buf)
					uerr = cd.Parse(b, u)
					return
				}
				if !hook.Enabled {
					// without the finalize hook only the one-shot entry point
					// completes a document (counted containers, top-level numbers)
					uerr = cd.Parse(buf, u)
					mon.Scribble(buf)
					return
				}
				p := cd.NewParser(u)
				for _, ch := range mon.Chunks(buf, []int{chunk}) {
					if _, uerr = p.Write(ch); uerr != nil {
						return
					}
					mon.Scribble(ch)
				}
				if ferr, has := hook.Finalize(p); has {
					uerr = ferr
				}
			})
			if !ok {
				return nil, nil, nil, false
			}
			if uerr != nil {
				return out, fmt.Errorf("document %d: %v", d, uerr), ref, true
			}
			if withCache {
				for _, ev := range s {
					if ev.K == val.EKeyRef {
						ref.touch(ev.S)
					}
				}
			}
			out = append(out, tgt)
		}
		if withCache && hook.Enabled {
			keys := hook.KeyCacheKeys(u)
			if capacity > 0 && len(keys) > capacity {
				c.Observe("cache_larger_than_capacity", 1)
			}
			c.ObserveMax("max_cached_keys", len(keys))
		}
		return out, nil, ref, true
	}
	with, e1, ref, ok := runAll(true)
	if !ok {
		return
	}
	without, e2, _, ok := runAll(false)
	if !ok {
		return
	}
	if e2 != nil {
		if cd != nil && hasBigUintAny(vals) {
			return // known finding of C11 (ubjson uint64 above MaxInt64)
		}
		c.Violationf("unfold-error", "cache:baseline-error", "unfolding without key cache failed: %v\ntype=%s", e2, t)
		return
	}
	if e1 != nil {
		c.Violationf("cache", "cache:error", "with a key cache of capacity %d unfolding failed (%v), without it succeeds\ntype=%s keys=%q", capacity, e1, t, alphabet)
		return
	}
	for d := range streams {
		if diff := eqGoPlain(without[d].Elem(), with[d].Elem(), "direct", "$"); diff != "" {
			c.Violationf("cache", "cache:result-differs", "document %d of %d: result with key cache (capacity %d) differs from the result without: %s\ntype=%s\nkeys=%q\nwith   =%s\nwithout=%s", d, ndocs, capacity, diff, t, alphabet, valueString(with[d].Elem()), valueString(without[d].Elem()))
			return
		}
		if diff := eqGo(vals[d], with[d].Elem(), path, "$"); diff != "" {
			c.Violationf("mismatch", "cache:value", "document %d: result differs from the document's value: %s\ntype=%s", d, diff, t)
			return
		}
	}
	// cached keys must stay intact after their source bytes were scribbled: the
	// comparisons above already read every key of every earlier target again
	c.Observe("sequences_capacity_"+fmt.Sprint(capacity), 1)
	c.Observe("documents", ndocs)
	c.Observe("cache_hits", ref.hits)
	c.Observe("cache_misses", ref.misses)
	c.Observe("cache_evictions", ref.evictions)
	c.Observe("cache_reenabled", nre)
	if len(alphabet) > capacity {
		c.Observe("sequences_with_more_keys_than_capacity", 1)
	}
	c.Nontrivial(gen.Mix(200, uint64(capacity), gen.HashString(t.String()), gen.HashString(fmt.Sprint(streams))))
	if ndocs <= 2 && len(streams[0]) < 12 {
		c.Sample("cache", map[string]interface{}{"capacity": capacity, "type": t.String(), "keys": alphabet, "streams": fmt.Sprint(streams)})
	}
}

func hasBigUintAny(vs []reflect.Value) bool {
	for _, v := range vs {
		if hasBigUint(v, 0) {
			return true
		}
	}
	return false
}

// rekey replaces the keys of every map in v by keys from the alphabet.
func rekey(r *gen.Rand, v reflect.Value, alphabet []string, depth int) {
	if depth > 6 {
		return
	}
	switch v.Kind() {
	case reflect.Map:
		if v.IsNil() {
			return
		}
		nm := reflect.MakeMap(v.Type())
		for _, k := range v.MapKeys() {
			e := reflect.New(v.Type().Elem()).Elem()
			e.Set(v.MapIndex(k))
			rekey(r, e, alphabet, depth+1)
			nm.SetMapIndex(reflect.ValueOf(gen.Pick(r, alphabet)).Convert(v.Type().Key()), e)
		}
		// a few more entries so that capacities are exceeded
		for i := r.Intn(4); i > 0; i-- {
			e := reflect.New(v.Type().Elem()).Elem()
			(&gen.ValueGen{R: r, O: gen.GoValueOpts{MaxLen: 2}}).Value(v.Type().Elem(), depth+2)
			nm.SetMapIndex(reflect.ValueOf(gen.Pick(r, alphabet)).Convert(v.Type().Key()), e)
		}
		v.Set(nm)
	case reflect.Slice:
		for i := 0; i < v.Len(); i++ {
			rekey(r, v.Index(i), alphabet, depth+1)
		}
	case reflect.Struct:
		for i := 0; i < v.NumField(); i++ {
			if v.Type().Field(i).PkgPath == "" {
				rekey(r, v.Field(i), alphabet, depth+1)
			}
		}
	case reflect.Ptr:
		if !v.IsNil() {
			rekey(r, v.Elem(), alphabet, depth+1)
		}
	case reflect.Interface:
		// leave generic content alone
	}
}

func init() {
	var req []string
	for _, n := range c20Caps {
		req = append(req, fmt.Sprintf("sequences_capacity_%d", n))
	}
	req = append(req, "cache_hits", "cache_misses", "cache_evictions", "sequences_with_more_keys_than_capacity")
	run.Register(&run.Check{
		ID:    "C20",
		Level: "exploration",
		Rule: "sequences of 1..8 documents unfolded by ONE unfolder (EnableKeyCache called again with the same or another capacity before a fifth of the later documents) into map-typed targets (map[string]E, map[string]map[string]E, struct{M map[string]E; L []map[string]E}, []map[string]E for E in the 14 scalar kinds, interface{}, structs, pointers, slices, maps), " +
			"object keys drawn from an alphabet of 2..12 keys (empty, one letter, shared long prefixes, non-ASCII, arbitrary bytes) so that capacities {0,1,2,3,5,8,64} see hits, misses, evictions and re-insertions after eviction; " +
			"every key is delivered by reference from a buffer that is overwritten afterwards: with filler as soon as the callback returns, or - as a producer with one read buffer does - by the next key / the next document of the sequence (other keys of the same length at the same place); directly, or through the ubjson/cborl parser. " +
			"Oracle: each document's target with EnableKeyCache(n) == the target of an identical run without cache == the document's value (all earlier targets are re-read at the end, so a cached key whose bytes were overwritten would show). " +
			"Suite capacities: the same with capacities {100, 1000, 4096, 2^16, 2^20, 2^31-1, 2^31, 2^32-1, 2^32, 2^40, 2^62+1, 2^63-1} and TotalAlloc measured around EnableKeyCache itself (<= 1 MiB: the capacity bounds the cache, it must not size an allocation; a worker killed by the allocation is a violation with the journaled case as witness). " +
			"A reference LRU only counts hits/misses/evictions for this evidence. distinct_nontrivial = distinct (capacity, type, document sequence).",
		Assumptions: []string{
			"the eviction order is not an oracle: the property promises unchanged results, not a policy",
			"JSON is not used as a path here (it rewrites invalid UTF-8 keys); key bytes reach the cache through direct OnKeyRef calls and the two binary parsers",
		},
		Suites: []*run.Suite{
			{Name: "sequences", N: tierN(7*21*4*200, 7*21*4*4000), Case: c20One, Require: req},
			{Name: "capacities", N: tierN(12*21*4*8, 12*21*4*200), Case: c20Big, Batch: 252, Require: []string{"sequences_capacity_4096", "sequences_capacity_1048576", "sequences_capacity_2147483647", "sequences_capacity_9223372036854775807", "cache_hits"}},
		},
	})
}
