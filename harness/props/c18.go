package props

import (
	"fmt"
	"io"

	"verif/harness/codec"
	"verif/harness/gen"
	"verif/harness/mon"
	"verif/harness/ref"
	"verif/harness/run"
	"verif/harness/val"
)

// C18: pull decoders deliver one top-level value per Next and then io.EOF.

type c18Case struct {
	Codec     string `json:"codec"`
	In        string `json:"in_hex"`
	Docs      int    `json:"docs"`
	Reader    bool   `json:"reader"`
	Sizes     []int  `json:"sizes,omitempty"`
	Buf       int    `json:"bufsize,omitempty"`
	EOFData   bool   `json:"eof_with_data,omitempty"`
	Truncated int    `json:"truncated_at,omitempty"`
}

// c18Stream builds k documents of the format; ends[i] is the offset just
// past document i (before any separator).
func c18Stream(r *gen.Rand, cd *codec.Codec, k int) (in []byte, vals []val.V, starts []int) {
	for i := 0; i < k; i++ {
		var d gen.Doc
		if r.P(1, 4) {
			s := gen.Stream(r, gen.StreamOpts{MaxDepth: 4, MaxNodes: 20, Extended: true, Refs: true, BadUTF8: cd.Name != "json", SpecialF: cd.Name != "json", Deep: true})
			b, err := encode(cd, codec.JSONOptsFromIndex(r.Intn(8)|4), s)
			if err == nil {
				d = gen.Doc{Bytes: b, Values: []val.V{val.Norm(cd.Name, s.Value(), true)}}
			}
		}
		if d.Bytes == nil {
			d = gen.ForeignDoc(r, cd.Name, 4, 20, r.P(1, 3))
		}
		if cd.Name == "json" {
			// the property speaks of whitespace-separated values
			if i > 0 {
				in = append(in, gen.Pick(r, []string{" ", "\n", "\t ", "\r\n", "  "})...)
			}
		} else if cd.Name == "ubjson" && r.P(1, 8) {
			in = append(in, 'N')
		}
		starts = append(starts, len(in))
		in = append(in, d.Bytes...)
		vals = append(vals, d.Values[0])
	}
	if cd.Name == "json" && r.Bool() {
		in = append(in, gen.Pick(r, []string{" ", "\n", "  \t"})...)
	}
	if cd.Name == "ubjson" && r.P(1, 8) {
		in = append(in, 'N')
	}
	return
}

func c18One(c *run.C) {
	r := c.R
	cd := codec.All[c.Idx%3]
	k := r.Intn(6)
	in, want, starts := c18Stream(r, cd, k)
	// the reference must see exactly these k values (guards the JSON
	// separator logic of the harness)
	rr := refDecode(cd.Name, in)
	if rr.Status != ref.OK || len(rr.Values) != k || rr.Has("big-int") || rr.Has("float-overflow") {
		c.Observe("stream_skipped", 1)
		return
	}
	mode := val.NumExact
	if cd.Name == "json" {
		mode = val.NumLoose
	}
	useReader := r.P(2, 3)
	var sizes []int
	buf := 0
	eofData := false
	if useReader {
		switch r.Intn(4) {
		case 0:
			sizes = []int{1}
		case 1:
			sizes = nil
		case 2:
			sizes = []int{r.Range(1, 5), r.Range(1, 3), r.Range(1, 100), r.Range(1, 2)}
		default:
			n := r.Range(2, 8)
			for i := 0; i < n; i++ {
				sizes = append(sizes, r.Range(1, 40))
			}
		}
		if len(sizes) > 1 && r.P(1, 6) {
			// one read of the cycle returns (0, nil): io.Reader allows it and
			// asks callers to treat it as "nothing happened"
			sizes[r.Intn(len(sizes))] = 0
			c.Observe("reader_streams_with_empty_reads", 1)
		}
		buf = gen.Pick(r, []int{0, 1, 2, 3, 7, 16, 64, 4096})
		eofData = r.Bool()
	}
	truncAt := 0
	truncated := false
	data := in
	if k > 0 && r.P(1, 4) {
		// cut inside the last value
		lastStart := starts[k-1]
		lastEnd := rr.Ends[k-1]
		if lastEnd-lastStart >= 2 {
			cut := lastStart + 1 + r.Intn(lastEnd-lastStart-1)
			pr := refDecode(cd.Name, in[:cut])
			if pr.Status == ref.Truncated {
				numeric, hasDigit := false, false
				if cd.Name == "json" {
					numeric, hasDigit = jsonNumericTail(in[:cut])
				}
				// a number prefix is a complete (lenient) number only at top
				// level; inside an open array or object the stream is cut
				// whatever the number looks like
				topLevelScalar := jsonTailAtTopLevel(in[:cut])
				if !(numeric && hasDigit && topLevelScalar) {
					truncated, truncAt, data = true, cut, in[:cut]
				}
			}
		}
	}
	c.Begin(c18Case{cd.Name, hexs(data), k, useReader, sizes, buf, eofData, truncAt})

	m := mon.NewMonitor()
	var d codec.Decoder
	type callRes struct {
		err    error
		events int
		docs   int
		idle   bool
	}
	var calls []callRes
	ok, _ := guardCall(c, cd.Name+".Decoder", func() int { return m.NEvents }, func() {
		if useReader {
			d = cd.NewDecoder(&mon.ChunkReader{Data: data, Sizes: sizes, EOFWithData: eofData}, buf, m.WithRefs())
		} else {
			d = cd.NewBytesDecoder(append([]byte{}, data...), m.WithRefs())
		}
		for i := 0; i < k+3; i++ {
			err := d.Next()
			calls = append(calls, callRes{err, len(m.Events), m.Docs, m.Idle()})
			if err != nil && err != io.EOF {
				return
			}
		}
	})
	if !ok {
		return
	}
	if m.Violation != "" {
		c.Violationf("contract", cd.Name+":contract", "%s decoder violated the visitor contract at event %d: %s\nin=%s", cd.Name, m.ViolAt, m.Violation, hexs(data))
		return
	}
	what := fmt.Sprintf("%s decoder (reader=%v sizes=%v buf=%d eofWithData=%v)", cd.Name, useReader, sizes, buf, eofData)
	if truncated {
		// some call must return an error that is neither nil nor io.EOF, and
		// no more than k-1 complete values may be delivered before it
		var final error
		for i, cr := range calls {
			if cr.err != nil {
				final = cr.err
				break
			}
			// a call that succeeds has delivered one complete value, also in
			// a stream that turns out to be cut later on
			if cr.docs != i+1 || !cr.idle {
				c.Violationf("next", cd.Name+":cut-value-delivered-as-complete", "%s: Next #%d returned nil although the visitor has seen %d complete values (idle=%v) - the stream is cut inside value #%d (at %d)\nin=%s\nevents=%s", what, i+1, cr.docs, cr.idle, k, truncAt, hexs(data), m.Events[:cr.events])
				return
			}
		}
		if final == nil || final == io.EOF {
			c.Violationf("truncation-accepted", cd.Name+":truncation", "%s: stream cut inside its last value (at %d) ended with %v\nin=%s", what, truncAt, final, hexs(data))
			return
		}
		c.Observe("truncated_streams_reported", 1)
		c.Nontrivial(gen.Mix(uint64(c.Idx%3), gen.HashBytes(data), 1))
		return
	}
	prevEvents := 0
	for i := 0; i < k; i++ {
		if i >= len(calls) {
			c.Violationf("next", cd.Name+":short", "%s: only %d Next calls happened for %d documents\nin=%s", what, len(calls), k, hexs(data))
			return
		}
		cr := calls[i]
		if cr.err != nil {
			c.Violationf("next", fmt.Sprintf("%s:next-error:%v", cd.Name, cr.err == io.EOF), "%s: Next #%d of %d returned %v instead of nil\nin=%s\nevents so far=%s", what, i+1, k, cr.err, hexs(data), m.Events[:cr.events])
			return
		}
		if cr.docs != i+1 || !cr.idle {
			c.Violationf("next", cd.Name+":not-one-value", "%s: after Next #%d the visitor has seen %d complete values (idle=%v), expected exactly %d\nin=%s\nevents=%s", what, i+1, cr.docs, cr.idle, i+1, hexs(data), m.Events[:cr.events])
			return
		}
		seg := m.Events[prevEvents:cr.events]
		vs, err := seg.Values()
		if err != nil || len(vs) != 1 {
			c.Violationf("next", cd.Name+":segment", "%s: events delivered by Next #%d are not exactly one value (%v)\nevents=%s", what, i+1, err, seg)
			return
		}
		if dd := val.Equal(want[i], vs[0], mode); dd != "" {
			c.Violationf("mismatch", cd.Name+":value", "%s: Next #%d delivered another value than document %d: %s\nin=%s\nevents=%s", what, i+1, i+1, dd, hexs(data), seg)
			return
		}
		prevEvents = cr.events
	}
	for j := k; j < k+2; j++ {
		if j >= len(calls) {
			c.Violationf("next", cd.Name+":short", "%s: Next #%d never happened\nin=%s", what, j+1, hexs(data))
			return
		}
		cr := calls[j]
		if cr.err != io.EOF {
			c.Violationf("next", cd.Name+":no-eof", "%s: Next #%d after %d documents returned %v instead of io.EOF\nin=%s", what, j+1, k, cr.err, hexs(data))
			return
		}
		if cr.events != prevEvents {
			c.Violationf("next", cd.Name+":events-at-eof", "%s: Next #%d returned io.EOF but delivered %d events\nin=%s", what, j+1, cr.events-prevEvents, hexs(data))
			return
		}
	}
	c.Observe("streams_ok_"+cd.Name, 1)
	c.Observe("documents", k)
	if useReader {
		c.Observe("reader_streams", 1)
	} else {
		c.Observe("bytes_streams", 1)
	}
	if k == 0 {
		c.Observe("empty_streams", 1)
	}
	c.Nontrivial(gen.Mix(uint64(c.Idx%3), gen.HashBytes(data), uint64(buf), gen.HashString(fmt.Sprint(sizes))))
	if k >= 2 && len(data) < 200 {
		c.Sample("stream", c18Case{cd.Name, hexs(data), k, useReader, sizes, buf, eofData, 0})
	}
}

func init() {
	run.Register(&run.Check{
		ID:    "C18",
		Level: "exploration",
		Rule: "streams of k in 0..5 documents per format (foreign and own-encoder documents incl. top-level scalars; JSON separated by random whitespace or nothing where legal, trailing whitespace; UBJSON no-ops between values) " +
			"read through NewBytesDecoder or NewDecoder over a chunking reader (1-byte, whole, mixed, random read sizes; buffer sizes 1,2,3,7,16,64,4096; io.EOF with or after the last data); a quarter of the streams is cut inside its last value. " +
			"Oracle over the recorded history of Next calls: calls 1..k return nil, after call i the visitor has seen exactly i complete values and the events delivered by call i are exactly one value equal to document i (reference value), " +
			"calls k+1 and k+2 return io.EOF without events; a cut stream makes some call return an error other than io.EOF. distinct_nontrivial = distinct (codec, bytes, reader schedule, buffer size).",
		Assumptions: []string{
			"a reader may return (0, nil) once per cycle of read sizes (io.Reader allows it; a decoder has to read again); never several times in a row",
			"JSON streams ending in a lenient number prefix (\"1.\", \"1e\") are not used as truncation witnesses",
		},
		Suites: []*run.Suite{
			{Name: "streams", N: tierN(180000, 6000000), Case: c18One, Require: []string{"streams_ok_json", "streams_ok_ubjson", "streams_ok_cborl", "truncated_streams_reported", "reader_streams", "bytes_streams", "empty_streams"}},
		},
	})
}
