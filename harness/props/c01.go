package props

import (
	"fmt"

	"verif/harness/codec"
	"verif/harness/gen"
	"verif/harness/mon"
	"verif/harness/run"
	"verif/harness/val"
)

// C01: encode -> decode preserves every value.

type c01Case struct {
	Codec  string     `json:"codec"`
	Opts   int        `json:"json_opts"`
	Stream val.Stream `json:"stream"`
}

// roundTrip encodes s with codec cd and parses the bytes back with the same
// codec; it reports any deviation from the normalised stream value.
func roundTrip(c *run.C, cd *codec.Codec, o codec.JSONOpts, s val.Stream) {
	expect := s.Value()
	var buf []byte
	var encErr error
	if !c.Guard(cd.Name+".encode", func() { buf, encErr = encode(cd, o, s) }) {
		return
	}
	nonFinite := hasNonFiniteStream(s)
	if encErr != nil {
		if cd.Name == "json" && nonFinite && !o.IgnoreInvalidFloat {
			c.Observe("json_nonfinite_refused", 1)
			return
		}
		c.Violationf("encode-error", cd.Name+":encode-error", "%s encoder returned %v for well-formed stream %s", cd.Name, encErr, s)
		return
	}
	if cd.Name == "json" && nonFinite && !o.IgnoreInvalidFloat {
		c.Violationf("mismatch", "json:nonfinite-accepted", "json encoder accepted a non-finite float without ignoreInvalidFloat: %q", buf)
		return
	}
	m, perr := parseWholeGuarded(c, cd, buf)
	if m == nil {
		return
	}
	if perr != nil {
		c.Violationf("parse-error", cd.Name+":parse-own-output", "%s parser rejects its own encoder's output: %v\nbytes=%s\nstream=%s", cd.Name, perr, hexs(buf), s)
		return
	}
	vs, err := m.Events.Values()
	if err != nil || len(vs) != 1 {
		c.Violationf("mismatch", cd.Name+":not-one-value", "%s: parsing own output yields %d values (%v)\nbytes=%s\nstream=%s\nevents=%s", cd.Name, len(vs), err, hexs(buf), s, m.Events)
		return
	}
	want := val.Norm(cd.Name, expect, o.IgnoreInvalidFloat)
	if d := val.Equal(want, vs[0], val.Mode(cd.Name)); d != "" {
		c.Violationf("mismatch", cd.Name+":value", "%s round trip changed the value: %s\nbytes=%s\nstream=%s\nevents=%s", cd.Name, d, hexs(buf), s, m.Events)
	}
	c.Observe("roundtrips_"+cd.Name, 1)
	c.Observe("events_parsed", len(m.Events))
	if d := val.Equal(want, vs[0], val.Mode(cd.Name)); d != "" {
		return
	}
	// the same bytes through ONE parser that lives as long as the worker
	// process and has parsed every earlier case's output (entry points Parse,
	// ParseString and Write + end of input alternating): the value must not
	// depend on what the instance read before
	lm := mon.NewMonitor()
	var lerr error
	how := ""
	if !c.Guard(cd.Name+".long-lived-parser", func() { how, lerr = parseLongLived(cd, buf, lm, c.R) }) {
		longLived[cd.Name] = nil
		return
	}
	prev := longLivedPrev[cd.Name]
	if lerr != nil {
		longLived[cd.Name] = nil
		c.Violationf("parse-error", cd.Name+":long-lived-parse-own-output", "%s parser that has parsed other documents before rejects its own encoder's output (%s): %v\nbytes=%s\nprevious document=%s", cd.Name, how, lerr, hexs(buf), hexs(prev))
		return
	}
	lvs, err := lm.Events.Values()
	if err != nil || len(lvs) != 1 {
		longLived[cd.Name] = nil
		c.Violationf("mismatch", cd.Name+":long-lived-not-one-value", "%s: a parser that has parsed other documents before yields %d values (%v) for one (%s)\nbytes=%s\nprevious document=%s\nevents=%s", cd.Name, len(lvs), err, how, hexs(buf), hexs(prev), lm.Events)
		return
	}
	if d := val.Equal(want, lvs[0], val.Mode(cd.Name)); d != "" {
		longLived[cd.Name] = nil
		c.Violationf("mismatch", cd.Name+":long-lived-value", "%s round trip through a parser that has parsed other documents before changed the value (%s): %s\nbytes=%s\nprevious document=%s\nstream=%s\nevents=%s", cd.Name, how, d, hexs(buf), hexs(prev), s, lm.Events)
		return
	}
	longLivedPrev[cd.Name] = append([]byte{}, buf...)
	c.Observe("long_lived_parser_roundtrips", 1)
}

func c01Tree(c *run.C) {
	r := c.R
	s := gen.Stream(r, gen.StreamOpts{MaxDepth: 6, MaxNodes: 50, Extended: true, Refs: true, BadUTF8: true, SpecialF: true, TypedBasic: true, Deep: true})
	cd := codec.All[c.Idx%3]
	o := codec.JSONOptsFromIndex((c.Idx / 3) % 8)
	c.Begin(c01Case{cd.Name, o.Index(), s})
	roundTrip(c, cd, o, s)
	if nonTrivialStream(s) {
		c.Nontrivial(gen.Mix(uint64(c.Idx%3), uint64(o.Index()), gen.HashString(s.String())))
	}
	if len(s) > 4 {
		c.Sample("tree", map[string]interface{}{"codec": cd.Name, "json_opts": o.Index(), "stream": s.String()})
	}
}

// exhaustive integer blocks: (kind, codec, block of 4096 16-bit patterns)
var c01IntKinds = []val.Kind{val.EInt8, val.EInt16, val.EInt32, val.EInt64, val.EInt, val.EByte, val.EUint8, val.EUint16, val.EUint32, val.EUint64, val.EUint}

func c01Ints(c *run.C) {
	kinds := c01IntKinds
	per := 16 // blocks of 4096
	k := kinds[(c.Idx/per)%len(kinds)]
	cd := codec.All[(c.Idx/(per*len(kinds)))%3]
	blk := c.Idx % per
	c.Begin(map[string]interface{}{"codec": cd.Name, "kind": k.String(), "block": blk})
	o := codec.JSONOptsFromIndex(c.Idx % 8)
	n := 0
	try := func(e val.Event) {
		roundTrip(c, cd, o, val.Stream{e})
		n++
	}
	for x := blk * 4096; x < (blk+1)*4096; x++ {
		switch k {
		case val.EInt8:
			if x < 256 {
				try(val.Event{K: k, I: int64(int8(x))})
			}
		case val.EByte, val.EUint8:
			if x < 256 {
				try(val.Event{K: k, U: uint64(x)})
			}
		case val.EInt16, val.EInt32, val.EInt64, val.EInt:
			try(val.Event{K: k, I: int64(int16(x))})
		default:
			try(val.Event{K: k, U: uint64(x)})
		}
	}
	// boundary ±2 values of wider kinds
	if blk == 0 {
		for _, b := range gen.Boundaries {
			for d := -2; d <= 2; d++ {
				mag := b + uint64(d)
				switch k {
				case val.EInt32:
					if mag <= 1<<31 {
						if mag < 1<<31 {
							try(val.Event{K: k, I: int64(mag)})
						}
						try(val.Event{K: k, I: -int64(mag)})
					}
				case val.EInt64, val.EInt:
					if mag <= 1<<63 {
						if mag < 1<<63 {
							try(val.Event{K: k, I: int64(mag)})
						}
						try(val.Event{K: k, I: -int64(mag-1) - 1})
					}
				case val.EUint32:
					if mag < 1<<32 {
						try(val.Event{K: k, U: mag})
					}
				case val.EUint64, val.EUint:
					try(val.Event{K: k, U: mag})
				}
			}
		}
	}
	c.Observe("exhaustive_int_values", n)
	c.Nontrivial(gen.Mix(1, uint64(c.Idx)))
}

// all strings of length <= 2 over all byte values, as value and as key.
func c01Strings(c *run.C) {
	cd := codec.All[c.Idx%3]
	first := c.Idx / 3 // 0..256 ; 256 = the empty string and all 1-byte strings
	o := codec.JSONOptsFromIndex(c.Idx % 8)
	c.Begin(map[string]interface{}{"codec": cd.Name, "first_byte": first})
	n := 0
	try := func(s string) {
		roundTrip(c, cd, o, val.Stream{{K: val.EString, S: s}})
		roundTrip(c, cd, o, val.Stream{{K: val.EObjStart, N: -1}, {K: val.EKey, S: s}, {K: val.EStringRef, S: s}, {K: val.EObjEnd}})
		n++
	}
	if first == 256 {
		try("")
		for b := 0; b < 256; b++ {
			try(string([]byte{byte(b)}))
		}
	} else {
		for b := 0; b < 256; b++ {
			try(string([]byte{byte(first), byte(b)}))
		}
	}
	c.Observe("exhaustive_strings", n)
	c.Nontrivial(gen.Mix(2, uint64(c.Idx)))
}

// floats: dense sweep of float classes as single values, each codec/option.
func c01Floats(c *run.C) {
	r := c.R
	cd := codec.All[c.Idx%3]
	o := codec.JSONOptsFromIndex((c.Idx / 3) % 8)
	var s val.Stream
	s = append(s, val.Event{K: val.EArrStart, N: -1})
	for i := 0; i < 64; i++ {
		if r.Bool() {
			s = append(s, val.Event{K: val.EFloat64, F: gen.Float64Bits(r, o.IgnoreInvalidFloat || cd.Name != "json")})
		} else {
			s = append(s, val.Event{K: val.EFloat32, F: uint64(gen.Float32Bits(r, o.IgnoreInvalidFloat || cd.Name != "json"))})
		}
	}
	s = append(s, val.Event{K: val.EArrEnd})
	c.Begin(c01Case{cd.Name, o.Index(), s})
	roundTrip(c, cd, o, s)
	c.Observe("float_values", 64)
	c.Nontrivial(gen.Mix(3, uint64(c.Idx), gen.HashString(s.String())))
}

func parseWholeGuarded(c *run.C, cd *codec.Codec, buf []byte) (m *monT, err error) {
	var mm *monT
	ok, _ := guardCall(c, cd.Name+".Parse", func() int {
		if mm == nil {
			return 0
		}
		return mm.NEvents
	}, func() {
		mm = newMon()
		err = cd.Parse(buf, mm.WithRefs())
	})
	if !ok {
		return nil, fmt.Errorf("panicked")
	}
	return mm, err
}

func init() {
	run.Register(&run.Check{
		ID:    "C01",
		Level: "exploration",
		Rule: "cases: (a) generated one-value event streams (nesting <= 6 or chains up to 90 deep, all scalar kinds with width-boundary bias, arbitrary byte strings, " +
			"empty/duplicate/non-ASCII keys, announced and unknown lengths, extended events, by-reference strings) x {json,ubjson,cborl} x 8 JSON option settings; " +
			"(b) exhaustive: every 8/16-bit pattern in every integer event kind plus all boundary±2 values, every string of length <= 2 over all 256 byte values as value and as key; " +
			"(c) arrays of 64 floats from the float class mix. Each is encoded by the library encoder and parsed by the same format's parser; oracle: recorded value == norm_codec(stream value). " +
			"distinct_nontrivial counts distinct (codec, options, stream) whose stream holds a container, a number outside -24..23, a non-empty string or a float; exhaustive blocks count once each.",
		Assumptions: []string{
			"expected values are computed by the harness from the generated events, never by library code",
			"integer width, announced length, by-reference delivery and expansion of extended events are not compared",
			"JSON: Int vs integral float considered equal (decimal text cannot distinguish them); float32 compared after rounding the parsed number to float32",
		},
		Suites: []*run.Suite{
			{Name: "trees", N: tierN(300000, 15000000), Case: c01Tree, Require: []string{"roundtrips_json", "roundtrips_ubjson", "roundtrips_cborl"}},
			{Name: "ints", N: tierN(16*11*3, 16*11*3), Case: c01Ints, Require: []string{"exhaustive_int_values"}},
			{Name: "strings", N: tierN(257*3, 257*3), Case: c01Strings, Require: []string{"exhaustive_strings"}},
			{Name: "floats", N: tierN(20000, 500000), Case: c01Floats},
		},
	})
}
