package props

import (
	"fmt"
	"math"
	"reflect"

	structform "github.com/elastic/go-structform"
	"github.com/elastic/go-structform/gotype"

	"verif/harness/codec"
	"verif/harness/gen"
	"verif/harness/hook"
	"verif/harness/model"
	"verif/harness/mon"
	"verif/harness/run"
	"verif/harness/val"
	"verif/harness/zoo"
)

// C13: unfolding assigns exactly the stream's value; unknown members are
// skipped.

// feedUnfolder pushes the stream into u, directly or through a codec.
func feedUnfolder(c *run.C, u structform.Visitor, s val.Stream, path string) (err error, ok bool) {
	ok = c.Guard("unfold."+path, func() {
		if path == "direct" {
			err = mon.Replay(s, u, mon.ReplayOpts{ScribbleRefs: true})
			return
		}
		cd := codec.ByName(path)
		var buf []byte
		buf, err = encode(cd, codec.JSONOpts{IgnoreInvalidFloat: true}, s)
		if err != nil {
			err = fmt.Errorf("verif: encode failed: %v", err)
			return
		}
		// chunks are private copies scribbled after each Write: by-reference
		// strings must have been copied by then
		if hook.Enabled && c.R.Bool() {
			p := cd.NewParser(u)
			for _, ch := range mon.Chunks(buf, []int{c.R.Range(1, 9), c.R.Range(1, 30), c.R.Range(1, 5)}) {
				if _, err = p.Write(ch); err != nil {
					return
				}
				mon.Scribble(ch)
			}
			if ferr, has := hook.Finalize(p); has {
				err = ferr
				return
			}
			return
		}
		cp := append([]byte{}, buf...)
		err = cd.Parse(cp, u)
		mon.Scribble(cp)
	})
	return err, ok
}

// (a) target interface{}
func c13Generic(c *run.C) {
	r := c.R
	path := c11Paths[c.Idx%4]
	s := gen.Stream(r, gen.StreamOpts{MaxDepth: 6, MaxNodes: 50, Extended: true, Refs: true, BadUTF8: path != "json", SpecialF: path != "json", TypedBasic: true, Deep: true, NoDupKeys: true})
	if c.Idx%8 == 5 {
		// deeper than any pre-allocated stack or buffer of the unfolder
		levels := gen.Pick(r, []int{4, 5, 6, 8, 9, 16, 17, 31, 32, 33, 40, 65})
		s = gen.WrapDeep(r, s, levels)
		c.Observe("generic_deep_wrapped", 1)
	}
	c.Begin(map[string]interface{}{"path": path, "stream": s})
	var target interface{}
	u, err := gotype.NewUnfolder(&target)
	if err != nil {
		c.Violationf("unfold-error", "generic:new", "NewUnfolder(&interface{}) failed: %v", err)
		return
	}
	if r.P(1, 4) {
		u.EnableKeyCache(gen.Pick(r, []int{0, 1, 3, 16}))
		c.Observe("generic_with_key_cache", 1)
	}
	err, ok := feedUnfolder(c, u, s, path)
	if !ok {
		return
	}
	if err != nil {
		c.Violationf("unfold-error", "generic:"+path+":"+errClass(err), "unfolding a well-formed stream into interface{} (%s) failed: %v\nstream=%s", path, err, s)
		return
	}
	got, merr := model.Fold(reflect.ValueOf(&target).Elem(), nil)
	if merr != nil {
		c.Violationf("mismatch", "generic:unrepresentable", "unfolder built a value the data model cannot represent: %v (%#v)", merr, target)
		return
	}
	want := val.Norm(path, s.Value(), true)
	mode := val.NumExact
	if path == "json" {
		mode = val.NumJSON
	}
	if d := val.Equal(want, got, mode); d != "" {
		c.Violationf("mismatch", "generic:"+path+":"+mismatchClass(d), "interface{} target holds another value than the stream (%s): %s\nstream=%s\ntarget=%s", path, d, s, clipStr(fmt.Sprintf("%#v", target)))
		return
	}
	c.Observe("generic_"+path, 1)
	countGoKinds(c, reflect.ValueOf(target), 0)
	c.Nontrivial(gen.Mix(uint64(c.Idx%4), gen.HashString(s.String())))
	if len(s) > 3 && len(s) < 30 {
		c.Sample("generic", map[string]interface{}{"path": path, "stream": s.String()})
	}
}

func clipStr(s string) string {
	if len(s) > 1500 {
		return s[:1500] + "…"
	}
	return s
}

// countGoKinds records which Go shapes the generic unfolder produced.
func countGoKinds(c *run.C, v reflect.Value, depth int) {
	if !v.IsValid() || depth > 3 {
		return
	}
	switch v.Kind() {
	case reflect.Slice:
		if v.Type().Elem().Kind() != reflect.Interface {
			c.Observe("generic_typed_slices", 1)
		}
		for i := 0; i < v.Len() && i < 4; i++ {
			countGoKinds(c, v.Index(i), depth+1)
		}
	case reflect.Map:
		if v.Type().Elem().Kind() != reflect.Interface {
			c.Observe("generic_typed_maps", 1)
		}
	case reflect.Interface:
		if !v.IsNil() {
			countGoKinds(c, v.Elem(), depth)
		}
	}
}

// ---------------------------------------------------------------------------
// (b) typed targets

type emitter struct {
	r        *gen.Rand
	extras   bool
	shuffle  bool
	refs     bool
	bad      bool
	special  bool
	nExtras  int
	floatInt bool // allow integer<->float width changes
	noF32    bool // JSON path: a float32 event is written with float32 precision, so widths must not be narrowed to it
	out      val.Stream
}

func (e *emitter) intEvent(v val.V) val.Event {
	r := e.r
	var kinds []val.Kind
	if v.Neg {
		n := v.Int64()
		if n >= math.MinInt8 {
			kinds = append(kinds, val.EInt8)
		}
		if n >= math.MinInt16 {
			kinds = append(kinds, val.EInt16)
		}
		if n >= math.MinInt32 {
			kinds = append(kinds, val.EInt32)
		}
		kinds = append(kinds, val.EInt64, val.EInt)
		k := gen.Pick(r, kinds)
		if e.floatInt && r.P(1, 8) && n > -(1<<24) {
			if r.Bool() && !e.noF32 {
				return val.Event{K: val.EFloat32, F: uint64(math.Float32bits(float32(n)))}
			}
			return val.Event{K: val.EFloat64, F: math.Float64bits(float64(n))}
		}
		return val.Event{K: k, I: n}
	}
	u := v.Mag
	if u <= math.MaxInt8 {
		kinds = append(kinds, val.EInt8)
	}
	if u <= math.MaxUint8 {
		kinds = append(kinds, val.EUint8, val.EByte)
	}
	if u <= math.MaxInt16 {
		kinds = append(kinds, val.EInt16)
	}
	if u <= math.MaxUint16 {
		kinds = append(kinds, val.EUint16)
	}
	if u <= math.MaxInt32 {
		kinds = append(kinds, val.EInt32)
	}
	if u <= math.MaxUint32 {
		kinds = append(kinds, val.EUint32)
	}
	if u <= math.MaxInt64 {
		kinds = append(kinds, val.EInt64, val.EInt)
	}
	kinds = append(kinds, val.EUint64, val.EUint)
	if e.floatInt && r.P(1, 8) && u < 1<<24 {
		if r.Bool() && !e.noF32 {
			return val.Event{K: val.EFloat32, F: uint64(math.Float32bits(float32(u)))}
		}
		return val.Event{K: val.EFloat64, F: math.Float64bits(float64(u))}
	}
	k := gen.Pick(r, kinds)
	if k >= val.EInt8 && k <= val.EInt {
		return val.Event{K: k, I: int64(u)}
	}
	return val.Event{K: k, U: u}
}

func (e *emitter) emit(v val.V) {
	r := e.r
	switch v.K {
	case val.Nil:
		e.out = append(e.out, val.Event{K: val.ENil})
	case val.Bool:
		e.out = append(e.out, val.Event{K: val.EBool, B: v.B})
	case val.Str:
		k := val.EString
		if e.refs && r.Bool() {
			k = val.EStringRef
		}
		e.out = append(e.out, val.Event{K: k, S: v.S})
	case val.Int:
		e.out = append(e.out, e.intEvent(v))
	case val.F32:
		f := math.Float32frombits(uint32(v.Bits))
		if f == f && r.Bool() {
			e.out = append(e.out, val.Event{K: val.EFloat64, F: math.Float64bits(float64(f))})
		} else {
			e.out = append(e.out, val.Event{K: val.EFloat32, F: v.Bits})
		}
	case val.F64:
		f := math.Float64frombits(v.Bits)
		if f == f && float64(float32(f)) == f && r.Bool() && !(f == 0 && math.Signbit(f)) && !e.noF32 {
			e.out = append(e.out, val.Event{K: val.EFloat32, F: uint64(math.Float32bits(float32(f)))})
		} else {
			e.out = append(e.out, val.Event{K: val.EFloat64, F: v.Bits})
		}
	case val.Arr:
		n := -1
		if r.Bool() {
			n = len(v.A)
		}
		e.out = append(e.out, val.Event{K: val.EArrStart, N: n})
		for _, x := range v.A {
			e.emit(x)
		}
		e.out = append(e.out, val.Event{K: val.EArrEnd})
	case val.Obj:
		idx := make([]int, len(v.A))
		for i := range idx {
			idx[i] = i
		}
		if v.IsStruct && e.shuffle {
			for i := len(idx) - 1; i > 0; i-- {
				j := r.Intn(i + 1)
				idx[i], idx[j] = idx[j], idx[i]
			}
		}
		// positions of extra members
		extraAt := map[int]int{}
		nx := 0
		if v.IsStruct && e.extras {
			nx = r.Intn(3)
			for i := 0; i < nx; i++ {
				extraAt[r.Intn(len(idx)+1)]++
			}
		}
		n := -1
		if r.Bool() {
			n = len(v.A) + nx
		}
		e.out = append(e.out, val.Event{K: val.EObjStart, N: n})
		emitExtras := func(pos int) {
			for i := 0; i < extraAt[pos]; i++ {
				e.nExtras++
				e.key(fmt.Sprintf("zz_extra_%d", e.nExtras))
				x := gen.Stream(r, gen.StreamOpts{MaxDepth: 4, MaxNodes: 15, Extended: true, Refs: e.refs, BadUTF8: e.bad, SpecialF: e.special, TypedBasic: true})
				e.out = append(e.out, x...)
			}
		}
		for pos, i := range idx {
			emitExtras(pos)
			e.key(v.Keys[i])
			e.emit(v.A[i])
		}
		emitExtras(len(idx))
		e.out = append(e.out, val.Event{K: val.EObjEnd})
	}
}

func (e *emitter) key(k string) {
	kk := val.EKey
	if e.refs && e.r.Bool() {
		kk = val.EKeyRef
	}
	e.out = append(e.out, val.Event{K: kk, S: k})
}

// sentinelFor builds a value of type t whose scalar and string fields (also
// of by-value nested structs) hold recognisable values, with every slice,
// map, pointer and interface left nil.
func sentinelFor(r *gen.Rand, t reflect.Type) reflect.Value {
	v := reflect.New(t).Elem()
	fillSentinel(r, v)
	return v
}

func fillSentinel(r *gen.Rand, v reflect.Value) {
	switch v.Kind() {
	case reflect.Bool:
		v.SetBool(true)
	case reflect.String:
		v.SetString("sentinel")
	case reflect.Int, reflect.Int8, reflect.Int16, reflect.Int32, reflect.Int64:
		v.SetInt(int64(77 + r.Intn(20)))
	case reflect.Uint, reflect.Uint8, reflect.Uint16, reflect.Uint32, reflect.Uint64:
		v.SetUint(uint64(77 + r.Intn(20)))
	case reflect.Float32, reflect.Float64:
		v.SetFloat(77.5)
	case reflect.Struct:
		for i := 0; i < v.NumField(); i++ {
			if v.Type().Field(i).PkgPath == "" {
				fillSentinel(r, v.Field(i))
			}
		}
	}
}

// merge computes the value a correct unfolder leaves in a target that held
// base after unfolding the (tag-filtered) fold of v: mentioned fields take
// v's value, unmentioned ones keep what base held.  Pointers, slice elements
// and map values are created afresh by the unfolder, so below them the base
// is the zero value.
func merge(base, v reflect.Value) reflect.Value {
	t := v.Type()
	out := reflect.New(t).Elem()
	switch t.Kind() {
	case reflect.Struct:
		if hasCustomFold(t) {
			out.Set(v)
			return out
		}
		out.Set(base)
		for i := 0; i < t.NumField(); i++ {
			f := t.Field(i)
			if f.PkgPath != "" {
				continue
			}
			tag := gen.ParseFieldTag(f)
			if tag.Omit {
				continue
			}
			if tag.OmitEmpty && !tag.Inline && model.Empty(v.Field(i)) {
				continue
			}
			out.Field(i).Set(merge(base.Field(i), v.Field(i)))
		}
	case reflect.Ptr:
		if foldsToNil(v) {
			return out // null: the pointer is reset
		}
		p := reflect.New(t.Elem())
		p.Elem().Set(merge(reflect.Zero(t.Elem()), v.Elem()))
		out.Set(p)
	case reflect.Slice:
		n := v.Len()
		sl := reflect.MakeSlice(t, n, n)
		for i := 0; i < n; i++ {
			sl.Index(i).Set(merge(reflect.Zero(t.Elem()), v.Index(i)))
		}
		out.Set(sl)
	case reflect.Map:
		m := reflect.MakeMap(t)
		for _, k := range v.MapKeys() {
			m.SetMapIndex(k, merge(reflect.Zero(t.Elem()), v.MapIndex(k)))
		}
		out.Set(m)
	default:
		out.Set(v)
	}
	return out
}

func hasCustomFold(t reflect.Type) bool {
	m := reflect.TypeOf((*zoo.Modeler)(nil)).Elem()
	return t.Implements(m) || reflect.PtrTo(t).Implements(m)
}

func c13Typed(c *run.C) {
	r := c.R
	path := c11Paths[c.Idx%4]
	// interface positions hold generic data only: a struct inside an interface
	// unfolds into a map, where an "extra" member is a real entry
	vo := gen.GoValueOpts{IfaceTypes: []reflect.Type{reflect.TypeOf(false), gen.TString, reflect.TypeOf(int(0)), reflect.TypeOf(int64(0)), reflect.TypeOf(uint64(0)),
		reflect.TypeOf(float64(0)), reflect.TypeOf(float32(0)), reflect.TypeOf([]interface{}{}), reflect.TypeOf(map[string]interface{}{}), reflect.TypeOf([]int{}), reflect.TypeOf([]string{}),
		reflect.TypeOf(map[string]int{}), reflect.TypeOf(map[string]string{})}}
	if path != "json" {
		vo.BadUTF8, vo.SpecialF = true, true
	}
	tg := gen.NewTypeGen(r, gen.GoTypeOpts{MaxDepth: 4, InlineStructOnly: true, Extra: zoo.Supported})
	t := tg.Struct(0)
	vg := &gen.ValueGen{R: r, O: vo}
	v := vg.Value(t, 0)
	mv, merr := model.Fold(v, nil)
	if merr != nil {
		c.Observe("typed_skipped_unrepresentable", 1)
		return
	}
	em := &emitter{r: r, extras: true, shuffle: true, refs: true, bad: vo.BadUTF8, special: vo.SpecialF, floatInt: true, noF32: path == "json"}
	em.emit(mv)
	s := em.out
	tags := typeTags(t)
	if path == "ubjson" && hasBigUint(v, 0) {
		tags = append(tags, "ubjson-uint-above-maxint64-typed")
	}
	if skipForeignFinding(c, "C13", tags) {
		return
	}
	c.Begin(map[string]interface{}{"path": path, "type": t.String(), "value": valueString(v), "stream": s, "tags": tags})
	for _, tg := range tags {
		c.Tag(tg)
	}
	sent := sentinelFor(r, t)
	target := reflect.New(t)
	target.Elem().Set(sent)
	u, err := gotype.NewUnfolder(target.Interface())
	if err != nil {
		c.Violationf("refused-supported", "typed:refused", "NewUnfolder refused a supported target: %v\ntype=%s", err, t)
		return
	}
	if r.P(1, 4) {
		u.EnableKeyCache(gen.Pick(r, []int{0, 1, 3, 16}))
		c.Observe("typed_with_key_cache", 1)
	}
	err, ok := feedUnfolder(c, u, s, path)
	if !ok {
		return
	}
	if err != nil {
		c.Violationf("unfold-error", "typed:"+path+":"+errClass(err), "unfolding into a matching typed target (%s, %d extra members) failed: %v\ntype=%s\nstream=%s", path, em.nExtras, err, t, s)
		return
	}
	want := merge(sent, v)
	if d := eqGoPlain(want, target.Elem(), path, "$"); d != "" {
		c.Violationf("mismatch", "typed:"+path+":"+mismatchClass(d), "typed target differs from the expected merge of stream and previous content (%s): %s\ntype=%s\nstream=%s\nexpected=%s\ngot     =%s", path, d, t, s, valueString(want), valueString(target.Elem()))
		return
	}
	c.Observe("typed_"+path, 1)
	c.Observe("extra_members_skipped", em.nExtras)
	if em.nExtras > 0 {
		c.Observe("typed_with_extras", 1)
	}
	c.Nontrivial(gen.Mix(130, uint64(c.Idx%4), gen.HashString(t.String()), gen.HashString(s.String())))
	if len(t.String()) < 160 {
		c.Sample("typed", map[string]interface{}{"path": path, "type": t.String(), "stream": s.String()})
	}
}

// number conversion sweep: every numeric event kind into every numeric
// target kind for values that fit both.
func c13Numbers(c *run.C) {
	r := c.R
	nums := gen.ScalarTypes()[2:] // ints, uints, floats
	tt := nums[c.Idx%len(nums)]
	for i := 0; i < 200; i++ {
		ev := gen.IntEvent(r)
		if r.P(1, 6) {
			f := float64(r.Intn(1<<20) - 1<<19)
			if r.Bool() {
				ev = val.Event{K: val.EFloat64, F: math.Float64bits(f)}
			} else {
				ev = val.Event{K: val.EFloat32, F: uint64(math.Float32bits(float32(f)))}
			}
		}
		x := ev.ScalarValue()
		// does x fit the target kind exactly?
		target := reflect.New(tt)
		want, fits := convertExact(x, tt)
		if !fits {
			continue
		}
		c.Begin(map[string]interface{}{"target": tt.String(), "event": ev.String()})
		u, err := gotype.NewUnfolder(target.Interface())
		if err != nil {
			c.Violationf("refused-supported", "numbers:refused", "NewUnfolder(*%s): %v", tt, err)
			return
		}
		var uerr error
		if !c.Guard("unfold.number", func() { uerr = mon.Replay(val.Stream{ev}, u, mon.ReplayOpts{}) }) {
			return
		}
		if uerr != nil {
			c.Violationf("unfold-error", "numbers:error:"+tt.String(), "%s into %s failed although the value fits: %v", ev, tt, uerr)
			return
		}
		if d := eqGoPlain(want, target.Elem(), "direct", "$"); d != "" {
			c.Violationf("mismatch", "numbers:value:"+tt.String(), "%s into %s: %s", ev, tt, d)
			return
		}
		c.Observe("number_conversions", 1)
	}
	c.Nontrivial(gen.Mix(131, uint64(c.Idx)))
}

// convertExact converts number x to Go type t if it is exactly
// representable.
func convertExact(x val.V, t reflect.Type) (reflect.Value, bool) {
	out := reflect.New(t).Elem()
	switch t.Kind() {
	case reflect.Int, reflect.Int8, reflect.Int16, reflect.Int32, reflect.Int64:
		var n int64
		switch x.K {
		case val.Int:
			if !x.IsIntInInt64() {
				return out, false
			}
			n = x.Int64()
		default:
			f := x.Float64()
			if f != math.Trunc(f) || math.Abs(f) > 1<<52 {
				return out, false
			}
			n = int64(f)
		}
		if out.OverflowInt(n) {
			return out, false
		}
		out.SetInt(n)
	case reflect.Uint, reflect.Uint8, reflect.Uint16, reflect.Uint32, reflect.Uint64:
		var n uint64
		switch x.K {
		case val.Int:
			if x.Neg {
				return out, false
			}
			n = x.Mag
		default:
			f := x.Float64()
			if f != math.Trunc(f) || f < 0 || f > 1<<52 {
				return out, false
			}
			n = uint64(f)
		}
		if out.OverflowUint(n) {
			return out, false
		}
		out.SetUint(n)
	default:
		var f float64
		switch x.K {
		case val.Int:
			if x.Mag > 1<<24 {
				return out, false
			}
			f = float64(x.Mag)
			if x.Neg {
				f = -f
			}
		default:
			f = x.Float64()
		}
		if t.Kind() == reflect.Float32 && float64(float32(f)) != f {
			return out, false
		}
		out.SetFloat(f)
	}
	return out, true
}

func init() {
	run.Register(&run.Check{
		ID:    "C13",
		Level: "exploration",
		Rule: "generic: generated well-formed streams (all scalar kinds, extended typed array/map events, element-type hints, by-value and by-reference strings/keys with the referenced bytes scribbled after each callback, announced and unknown lengths, nesting up to 90) " +
			"unfolded into an empty interface directly and through each codec (parsers fed whole or in scribbled chunks); oracle: data-model value of the resulting Go data == stream value (codec-normalised). " +
			"typed: for generated struct types (all tag combinations, nested/inline structs, pointers, slices, maps, interfaces, zoo types) the documented fold of a generated value is re-emitted with every number in a random width that still holds it " +
			"(incl. integral floats), struct members shuffled, 0..2 extra members with arbitrary nested values (incl. by-reference strings/keys and extended events) inserted at random positions of every struct object, strings by reference; " +
			"the target is pre-filled with sentinels; oracle: mentioned fields == value, unmentioned fields == sentinel, no error. numbers: every numeric event kind x every numeric target kind for values that fit. " +
			"distinct_nontrivial = distinct (path, type, stream).",
		Assumptions: []string{
			"behaviour for numbers that do not fit the target width is not demanded",
			"sentinels sit in scalar/string fields of the target struct and of by-value nested structs only (what happens to stale slice elements, map entries or pointed-to structs that the unfolder replaces is not specified)",
			"Go types chosen by the generic unfolder (int8 vs int64, []int8 vs []interface{}) are observed, not compared: the property speaks of the value",
		},
		Suites: []*run.Suite{
			{Name: "generic", N: tierN(120000, 4000000), Case: c13Generic, Require: []string{"generic_direct", "generic_json", "generic_ubjson", "generic_cborl", "generic_typed_slices"}},
			{Name: "typed", N: tierN(120000, 4000000), Case: c13Typed, Require: []string{"typed_direct", "typed_json", "typed_ubjson", "typed_cborl", "typed_with_extras", "extra_members_skipped"}},
			{Name: "numbers", N: tierN(12*200, 12*5000), Case: c13Numbers, Require: []string{"number_conversions"}},
		},
	})
}

// generic-typed: where the stream announces an element type (basic start
// event with a base type, or an extended typed event), the empty-interface
// target must hold the corresponding typed slice / map.
var baseTypeGo = map[structform.BaseType]reflect.Type{
	structform.AnyType: gen.TIface, structform.ZeroType: gen.TIface,
	structform.ByteType: reflect.TypeOf(uint8(0)), structform.Uint8Type: reflect.TypeOf(uint8(0)),
	structform.StringType: gen.TString, structform.BoolType: reflect.TypeOf(false),
	structform.IntType: reflect.TypeOf(int(0)), structform.Int8Type: reflect.TypeOf(int8(0)), structform.Int16Type: reflect.TypeOf(int16(0)),
	structform.Int32Type: reflect.TypeOf(int32(0)), structform.Int64Type: reflect.TypeOf(int64(0)),
	structform.UintType: reflect.TypeOf(uint(0)), structform.Uint16Type: reflect.TypeOf(uint16(0)), structform.Uint32Type: reflect.TypeOf(uint32(0)),
	structform.Uint64Type: reflect.TypeOf(uint64(0)), structform.Float32Type: reflect.TypeOf(float32(0)), structform.Float64Type: reflect.TypeOf(float64(0)),
}

func c13GenericTyped(c *run.C) {
	r := c.R
	kinds := append(append([]val.Kind{}, gen.ExtArrayKinds...), gen.ExtObjectKinds...)
	k := kinds[c.Idx%len(kinds)]
	ev := gen.ExtEvent(r, k, []int{0, 1, -1}[(c.Idx/len(kinds))%3], true, true)
	bt := val.BaseTypeOf(k)
	// the same content as extended event or as its announced basic expansion
	s := val.Stream{ev}
	how := "extended"
	if (c.Idx/(3*len(kinds)))%2 == 1 {
		s = s.Expand(false)
		how = "announced-basic"
		if r.Bool() {
			s[0].N = -1 // announced element type, unknown length
		}
	}
	nested := (c.Idx/(6*len(kinds)))%2 == 1
	if nested {
		s = append(append(val.Stream{{K: val.EObjStart, N: -1}, {K: val.EKeyRef, S: "x"}}, s...), val.Event{K: val.EObjEnd})
	}
	c.Begin(map[string]interface{}{"how": how, "nested": nested, "stream": s})
	var target interface{}
	u, err := gotype.NewUnfolder(&target)
	if err != nil {
		return
	}
	var uerr error
	if !c.Guard("unfold.generic-typed", func() { uerr = mon.Replay(s, u, mon.ReplayOpts{ScribbleRefs: true}) }) {
		return
	}
	if uerr != nil {
		c.Violationf("unfold-error", "generic-typed:error", "unfolding %s into interface{} failed: %v", s, uerr)
		return
	}
	got := target
	if nested {
		m, ok := target.(map[string]interface{})
		if !ok {
			c.Violationf("mismatch", "generic-typed:outer", "enclosing object became %T", target)
			return
		}
		got = m["x"]
	}
	et := baseTypeGo[bt]
	var want reflect.Type
	if k.IsExtArray() {
		want = reflect.SliceOf(et)
	} else {
		want = reflect.MapOf(gen.TString, et)
	}
	if got == nil || reflect.TypeOf(got) != want {
		c.Violationf("mismatch", "generic-typed:type:"+how, "stream announcing element type %s (%s) unfolded into %T, expected %s\nstream=%s", bt, how, got, want, s)
		return
	}
	gv, merr := model.Fold(reflect.ValueOf(got), nil)
	if merr != nil {
		return
	}
	if d := val.Equal(ev.ExtValue(), gv, val.NumExact); d != "" {
		c.Violationf("mismatch", "generic-typed:value", "typed container holds another value: %s\nstream=%s", d, s)
		return
	}
	c.Observe("generic_typed_containers", 1)
	c.Nontrivial(gen.Mix(132, uint64(c.Idx), gen.HashString(s.String())))
}

func init() {
	chk := run.Lookup("C13")
	chk.Suites = append(chk.Suites, &run.Suite{Name: "generic-typed", N: tierN(29*3*2*2*20, 29*3*2*2*400), Case: c13GenericTyped, Require: []string{"generic_typed_containers"}})
}
