package props

import "verif/harness/run"

// The same case functions under GOARCH=386 (the 386 binary runs natively on
// this host): int is 32 bits wide there, so every length, count and index
// that the parsers convert with int(...) is exercised with values that do not
// fit (2^31 .. 2^64-1): a truncated length becomes a negative or small slice
// bound (panic) or makes a truncated input look complete.
func init() {
	add := func(id, name string, n func(string) int, f func(*run.C), req ...string) {
		run.Lookup(id).Suites = append(run.Lookup(id).Suites, &run.Suite{Name: name + "-386", Build: "386", N: n, Case: f, Require: req})
	}
	add("C03", "lengths", tierN(6000, 150000), c03Lengths, "length_calls")
	add("C03", "tiny", tierN(3*(257+60), 3*(257+60)), c03Tiny, "tiny_inputs")
	add("C03", "mutants", tierN(20000, 600000), c03Mutants, "calls")
	// Only the hostile-input suites run here: their oracles (no panic, no hang,
	// bounded allocation, truncation verdict) do not depend on the harness'
	// own value generators, which are not 32-bit clean.
}
