package props

import (
	"bytes"
	"encoding/binary"
	"fmt"
	"io"
	"runtime"
	"runtime/debug"

	structform "github.com/elastic/go-structform"

	"verif/harness/codec"
	"verif/harness/gen"
	"verif/harness/hook"
	"verif/harness/mon"
	"verif/harness/run"
)

// Large inputs (64 KiB .. 2 MiB) of extreme shapes: one very long string,
// key or number literal, hundreds of thousands of nesting levels, hundreds of
// thousands of tiny values.  They decide the "time and memory proportional to
// the input" clause of C03 (suite "scaling") and the chunking independence of
// C02 on inputs that span many internal buffer refills (suite "large").

type largeShape struct {
	name  string
	build func(L int) []byte
}

func rep(s string, n int) []byte { return bytes.Repeat([]byte(s), n) }

func cat(parts ...[]byte) []byte { return bytes.Join(parts, nil) }

func be32(n int) []byte { return binary.BigEndian.AppendUint32(nil, uint32(n)) }

var largeShapes = map[string][]largeShape{
	"json": {
		{"string", func(L int) []byte { return cat([]byte(`"`), rep("a", L), []byte(`"`)) }},
		{"string-escapes", func(L int) []byte { return cat([]byte(`"`), rep(`\n`, L/2), []byte(`"`)) }},
		{"string-backslashes", func(L int) []byte { return cat([]byte(`"`), rep(`\\`, L/2), []byte(`"`)) }},
		{"key-backslashes", func(L int) []byte { return cat([]byte(`{"`), rep(`\\`, L/2), []byte(`":1}`)) }},
		{"string-unicode-escapes", func(L int) []byte { return cat([]byte(`"`), rep("\\u00e9", L/6), []byte(`"`)) }},
		{"string-multibyte", func(L int) []byte { return cat([]byte(`"`), rep("€", L/3), []byte(`"`)) }},
		{"digits", func(L int) []byte { return cat([]byte(`[`), rep("7", L), []byte(`]`)) }},
		{"fraction", func(L int) []byte { return cat([]byte(`[0.`), rep("0", L), []byte(`1]`)) }},
		{"deep-arrays", func(L int) []byte { return cat(rep("[", L/2), rep("]", L/2)) }},
		{"deep-objects", func(L int) []byte { return cat(rep(`{"a":`, L/6), []byte("1"), rep("}", L/6)) }},
		{"many-elements", func(L int) []byte { return cat([]byte("["), rep("1,", L/2), []byte("1]")) }},
		{"many-members", func(L int) []byte { return cat([]byte("{"), rep(`"k":1,`, L/6), []byte(`"k":1}`)) }},
		{"many-strings", func(L int) []byte { return cat([]byte("["), rep(`"ab",`, L/5), []byte(`""]`)) }},
		{"whitespace", func(L int) []byte { return cat(rep(" ", L), []byte("[1] ")) }},
		{"long-key", func(L int) []byte { return cat([]byte(`{"`), rep("k", L), []byte(`":1}`)) }},
		{"unterminated-string", func(L int) []byte { return cat([]byte(`["`), rep("a", L)) }},
		{"unclosed-arrays", func(L int) []byte { return rep("[", L) }},
		{"many-documents", func(L int) []byte { return rep("[1] ", L/4) }},
	},
	"ubjson": {
		{"string", func(L int) []byte { return cat([]byte("Sl"), be32(L), rep("a", L)) }},
		{"high-precision", func(L int) []byte { return cat([]byte("Hl"), be32(L), rep("7", L)) }},
		{"many-elements", func(L int) []byte { return cat([]byte("["), rep("i\x01", L/2), []byte("]")) }},
		{"deep-arrays", func(L int) []byte { return cat(rep("[", L/2), rep("]", L/2)) }},
		{"deep-objects", func(L int) []byte { return cat(rep("{i\x01k", L/5), []byte("Z"), rep("}", L/5)) }},
		{"typed-int8", func(L int) []byte { return cat([]byte("[$i#l"), be32(L), rep("\x01", L)) }},
		{"typed-uint8", func(L int) []byte { return cat([]byte("[$U#l"), be32(L), rep("\xfe", L)) }},
		{"typed-float64", func(L int) []byte {
			return cat([]byte("[$D#l"), be32(L/8), rep("\x3f\xf0\x00\x00\x00\x00\x00\x00", L/8))
		}},
		{"typed-strings", func(L int) []byte { return cat([]byte("[$S#l"), be32(L/3), rep("i\x01a", L/3)) }},
		{"typed-arrays", func(L int) []byte { return cat([]byte("[$[#l"), be32(L), rep("]", L)) }},
		{"counted", func(L int) []byte { return cat([]byte("[#l"), be32(L), rep("Z", L)) }},
		{"many-members", func(L int) []byte { return cat([]byte("{"), rep("i\x01ki\x01", L/5), []byte("}")) }},
		{"typed-members", func(L int) []byte { return cat([]byte("{$i#l"), be32(L/4), rep("i\x01k\x01", L/4)) }},
		{"noops", func(L int) []byte { return cat(rep("N", L), []byte("Z")) }},
		{"noops-in-array", func(L int) []byte { return cat([]byte("["), rep("N", L), []byte("]")) }},
		{"long-key", func(L int) []byte { return cat([]byte("{l"), be32(L), rep("k", L), []byte("Z}")) }},
		{"unbacked-string", func(L int) []byte { return cat([]byte("[Sl"), be32(2*L), rep("a", L)) }},
		{"many-documents", func(L int) []byte { return rep("[Z]", L/3) }},
	},
	"cborl": {
		{"text", func(L int) []byte { return cat([]byte{0x7a}, be32(L), rep("a", L)) }},
		{"bytes", func(L int) []byte { return cat([]byte{0x5a}, be32(L), rep("\x80", L)) }},
		{"array-definite", func(L int) []byte { return cat([]byte{0x9a}, be32(L), rep("\x01", L)) }},
		{"array-indefinite", func(L int) []byte { return cat([]byte{0x9f}, rep("\x01", L), []byte{0xff}) }},
		{"array-of-floats", func(L int) []byte {
			return cat([]byte{0x9a}, be32(L/9), rep("\xfb\x3f\xf0\x00\x00\x00\x00\x00\x00", L/9))
		}},
		{"array-of-strings", func(L int) []byte { return cat([]byte{0x9f}, rep("\x62ab", L/3), []byte{0xff}) }},
		{"deep-definite", func(L int) []byte { return cat(rep("\x81", L), []byte{0x01}) }},
		{"deep-indefinite", func(L int) []byte { return cat(rep("\x9f", L/2), rep("\xff", L/2)) }},
		{"deep-maps", func(L int) []byte { return cat(rep("\xa1\x61k", L/3), []byte{0xf6}) }},
		{"map-definite", func(L int) []byte { return cat([]byte{0xba}, be32(L/3), rep("\x61k\x01", L/3)) }},
		{"map-indefinite", func(L int) []byte { return cat([]byte{0xbf}, rep("\x61k\x01", L/3), []byte{0xff}) }},
		{"long-key", func(L int) []byte { return cat([]byte{0xa1, 0x7a}, be32(L), rep("k", L), []byte{0x01}) }},
		{"unbacked-text", func(L int) []byte { return cat([]byte{0x81, 0x7a}, be32(2*L), rep("a", L)) }},
		{"unclosed-arrays", func(L int) []byte { return rep("\x9f", L) }},
		{"many-documents", func(L int) []byte { return rep("\x81\xf6", L/2) }},
	},
}

type hashWriter struct {
	h uint64
	n int
}

func (w *hashWriter) Write(p []byte) (int, error) {
	h := w.h
	if h == 0 {
		h = 1469598103934665603
	}
	for _, b := range p {
		h = (h ^ uint64(b)) * 1099511628211
	}
	w.h = h
	w.n += len(p)
	return len(p), nil
}

type largeRun struct {
	err     error
	events  int
	docs    int
	hash    uint64
	alloc   uint64
	ok      bool
	maxIdle int
	depth   int
}

type largeMode struct {
	ep    int
	chunk int // bytes per Write / Read (0 = everything)
	buf   int // decoder buffer size
}

func (m largeMode) String() string {
	return fmt.Sprintf("%s/chunk=%d/buf=%d", epNames[m.ep], m.chunk, m.buf)
}

var largeModes = []largeMode{
	{epParse, 0, 0},
	{epParseString, 0, 0},
	{epWrite, 1, 0},
	{epWrite, 3, 0},
	{epWrite, 4099, 0},
	{epParseReader, 1, 0},
	{epParseReader, 17, 0},
	{epParseReader, 0, 0},
	{epBytesDecoder, 0, 0},
	{epReaderDecoder, 1, 16},
	{epReaderDecoder, 5, 4096},
	{epReaderDecoder, 0, 64},
	{epReaderDecoder, 0, 65536},
}

// fixedReader returns at most n bytes per Read without allocating.
type fixedReader struct {
	data []byte
	n    int
}

func (r *fixedReader) Read(p []byte) (int, error) {
	if len(r.data) == 0 {
		return 0, io.EOF
	}
	n := len(p)
	if r.n > 0 && n > r.n {
		n = r.n
	}
	if n > len(r.data) {
		n = len(r.data)
	}
	copy(p, r.data[:n])
	r.data = r.data[n:]
	mon.Progress++
	return n, nil
}

// runLarge delivers input through one entry point.  The consumer re-encodes
// the events as CBOR into a hash, so that two runs can be compared without
// keeping millions of events.
func runLarge(c *run.C, cd *codec.Codec, input []byte, mode largeMode) largeRun {
	var res largeRun
	hw := &hashWriter{}
	m := mon.NewMonitor()
	m.NoRecord = true
	m.Budget = 64 + 8*len(input)
	m.Next = structform.EnsureExtVisitor(codec.CBOR.NewVisitor(hw, codec.JSONOpts{}))
	own := append([]byte{}, input...)
	var before, after runtime.MemStats
	runtime.ReadMemStats(&before)
	ok, g := guardCall(c, cd.Name+"."+mode.String(), func() int { return m.NEvents }, func() {
		switch mode.ep {
		case epParse:
			res.err = cd.Parse(own, m)
		case epParseString:
			res.err = cd.ParseString(string(own), m)
		case epParseReader:
			_, res.err = cd.ParseReader(&fixedReader{data: own, n: mode.chunk}, m)
		case epWrite:
			p := cd.NewParser(m)
			for i := 0; i < len(own); i += mode.chunk {
				j := i + mode.chunk
				if j > len(own) {
					j = len(own)
				}
				mon.Progress++
				if _, err := p.Write(own[i:j]); err != nil {
					res.err = err
					return
				}
			}
			if err, has := hook.Finalize(p); has {
				res.err = err
			}
		case epBytesDecoder, epReaderDecoder:
			var d codec.Decoder
			if mode.ep == epBytesDecoder {
				d = cd.NewBytesDecoder(own, m)
			} else {
				d = cd.NewDecoder(&fixedReader{data: own, n: mode.chunk}, mode.buf, m)
			}
			for i := 0; i <= len(own)+2; i++ {
				if err := d.Next(); err != nil {
					if err != io.EOF {
						res.err = err
					}
					return
				}
			}
			res.err = fmt.Errorf("verif: decoder did not finish after %d successful Next calls", len(own)+3)
		}
	})
	runtime.ReadMemStats(&after)
	res.ok = ok
	res.events = m.NEvents
	res.docs = m.Docs
	res.depth = m.MaxDepth
	res.hash = hw.h
	res.alloc = after.TotalAlloc - before.TotalAlloc
	if g != nil {
		res.maxIdle = g.MaxIdle
	}
	return res
}

type largeCase struct {
	Codec string `json:"codec"`
	Shape string `json:"shape"`
	L     int    `json:"L"`
	Mode  string `json:"mode"`
}

// The parsers keep their nesting in explicit heap-allocated stacks, so the
// goroutine stack must not grow with the nesting depth of the input: the
// workers of these suites run with a 32 MiB goroutine stack limit (default:
// 1 GiB), which turns recursion per nesting level into a fatal "stack
// overflow" of the worker at 10^5..10^6 levels instead of 10^7.
const largeMaxStack = 32 << 20

func largePick(c *run.C) (*codec.Codec, largeShape, int) {
	debug.SetMaxStack(largeMaxStack)
	cd := codec.All[c.Idx%3]
	shapes := largeShapes[cd.Name]
	sh := shapes[(c.Idx/3)%len(shapes)]
	sizes := []int{1 << 16, 200003, 1 << 20}
	if c.Thorough() {
		sizes = append(sizes, 1<<21, 65537, 1<<19+1)
	}
	L := sizes[(c.Idx/(3*len(shapes)))%len(sizes)]
	return cd, sh, L
}

// c03Scaling: every mode over one (shape, size); allocation in proportion to
// the input, no hang, no panic, event budget; the CPU watchdog of the harness
// turns super-linear time into a hang verdict (a 1 MiB input delivered byte by
// byte costs well under a second when the work per byte is constant, and
// minutes when each write rescans what was buffered).
func c03Scaling(c *run.C) {
	cd, sh, L := largePick(c)
	input := sh.build(L)
	for _, mode := range largeModes {
		if mode.ep == epWrite && !hook.Enabled && cd.Name != "cborl" {
			continue
		}
		c.Begin(largeCase{cd.Name, sh.name, L, mode.String()})
		res := runLarge(c, cd, input, mode)
		if !res.ok {
			continue
		}
		c.Observe("scaling_calls", 1)
		c.Observe("scaling_bytes", len(input))
		c.Observe("scaling_events", res.events)
		c.ObserveMax("max_idle_loop_iterations", res.maxIdle)
		c.ObserveMax("max_alloc_permille_of_input", int(res.alloc*1000/uint64(len(input))))
		if res.err != nil {
			c.Observe("returned_error", 1)
		} else {
			c.Observe("returned_success", 1)
		}
		if res.events > 64+8*len(input) {
			c.Violationf("amplification", cd.Name+":events-out-of-proportion", "%s %s delivered %d events for %d input bytes (shape %s)", cd.Name, mode, res.events, len(input), sh.name)
			continue
		}
		// the consumer (contract automaton + CBOR re-encoder into a hash) costs
		// up to 260 bytes per nesting level (measured); the rest is the parser's
		limit := uint64(2<<20) + 96*uint64(len(input)) + 320*uint64(res.depth)
		if res.alloc > limit {
			c.Violationf("alloc", cd.Name+":alloc-out-of-proportion", "%s %s allocated %d bytes in total for %d input bytes of shape %s (budget %d)", cd.Name, mode, res.alloc, len(input), sh.name, limit)
		}
		if res.err != nil && len(res.err.Error()) > 5 && res.err.Error()[:6] == "verif:" {
			c.Violationf("decoder-loop", cd.Name+":"+epNames[mode.ep]+":loop", "%s %s: %v (shape %s, %d bytes)", cd.Name, mode, res.err, sh.name, len(input))
		}
	}
	c.Nontrivial(gen.Mix(16, uint64(c.Idx%3), gen.HashString(sh.name), uint64(L)))
	c.Sample("scaling", map[string]interface{}{"codec": cd.Name, "shape": sh.name, "bytes": len(input)})
}

// c02Large: the same inputs; every mode must report what the whole-buffer
// Parse reports (event count, completed documents, hash of the re-encoded
// events, accept/reject).
func c02Large(c *run.C) {
	cd, sh, L := largePick(c)
	input := sh.build(L)
	c.Begin(largeCase{cd.Name, sh.name, L, largeModes[0].String()})
	base := runLarge(c, cd, input, largeModes[0])
	if !base.ok {
		return
	}
	for _, mode := range largeModes[1:] {
		if mode.ep == epWrite && !hook.Enabled {
			continue
		}
		c.Begin(largeCase{cd.Name, sh.name, L, mode.String()})
		res := runLarge(c, cd, input, mode)
		if !res.ok {
			continue
		}
		c.Observe("large_comparisons", 1)
		c.Observe("large_events_compared", res.events)
		if (res.err == nil) != (base.err == nil) {
			c.Violationf("chunking", cd.Name+":large:verdict", "%s shape %s (%d bytes): Parse returned %v, %s returned %v", cd.Name, sh.name, len(input), base.err, mode, res.err)
			continue
		}
		if base.err != nil {
			continue // rejected input: only the verdict is compared (quantifier of C02)
		}
		if res.events != base.events || res.docs != base.docs || res.hash != base.hash {
			c.Violationf("chunking", cd.Name+":large:events", "%s shape %s (%d bytes): Parse delivered %d events / %d documents (hash %x), %s delivered %d / %d (hash %x)",
				cd.Name, sh.name, len(input), base.events, base.docs, base.hash, mode, res.events, res.docs, res.hash)
		}
	}
	c.Nontrivial(gen.Mix(26, uint64(c.Idx%3), gen.HashString(sh.name), uint64(L)))
	c.Sample("large", map[string]interface{}{"codec": cd.Name, "shape": sh.name, "bytes": len(input), "events": base.events, "accepted": base.err == nil})
}

func largeN(quickSizes, thoroughSizes int) func(string) int {
	return func(tier string) int {
		n := 0
		for _, s := range largeShapes {
			if len(s) > n {
				n = len(s)
			}
		}
		if tier == "thorough" {
			return 3 * n * thoroughSizes
		}
		return 3 * n * quickSizes
	}
}

func init() {
	run.Lookup("C03").Suites = append(run.Lookup("C03").Suites, &run.Suite{
		Name: "scaling", N: largeN(3, 6), Case: c03Scaling, CPUSeconds: 20, Batch: 2,
		Require: []string{"scaling_calls", "returned_error", "returned_success"},
	})
	run.Lookup("C02").Suites = append(run.Lookup("C02").Suites, &run.Suite{
		Name: "large", N: largeN(3, 6), Case: c02Large, CPUSeconds: 20, Batch: 2,
		Require: []string{"large_comparisons"},
	})
}
