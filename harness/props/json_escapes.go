package props

import (
	stdjson "encoding/json"
	"unicode/utf8"

	"verif/harness/codec"
	"verif/harness/gen"
	"verif/harness/ref"
	"verif/harness/run"
	"verif/harness/val"
)

// JSON strings assembled from escape FRAGMENTS: every sequence of up to three
// fragments (complete, truncated and lone escapes, surrogate halves, multi-byte
// runes), as value, key and array element, closed and unclosed.  The random
// generators practically never produce "a high surrogate followed by two hex
// digits and the closing quote at the very end of the buffer".

var escFragments = []string{
	`\ud800`, `\udc00`, `\ud83d`, `\ude00`, `\udbff`, `\udfff`,
	`\u`, `\u1`, `\u12`, `\u123`, `A`, `\u0080`, `\u007f`, `\u0000`, `￿`, `퟿`, ``,
	`\`, `\n`, `\"`, `\\`, `\/`, `\x`, `a`, "é", "\U0001F600", "\x80",
}

func escString(idx int) (string, bool) {
	n := len(escFragments)
	switch {
	case idx < n:
		return escFragments[idx], true
	case idx < n+n*n:
		i := idx - n
		return escFragments[i/n] + escFragments[i%n], true
	case idx < n+n*n+n*n*n:
		i := idx - n - n*n
		return escFragments[i/(n*n)] + escFragments[(i/n)%n] + escFragments[i%n], true
	}
	return "", false
}

func escTotal() int { n := len(escFragments); return n + n*n + n*n*n }

var escWrappers = [][2]string{{`"`, `"`}, {`["`, `"]`}, {`{"`, `":1}`}, {`{"k":"`, `"}`}, {`"`, ``}, {`["`, ``}, {`"`, `" `}}

// c03Escapes: every wrapper of 16 strings per case through every entry point
// (ParseString and the exact-capacity copies end exactly where the text ends).
func c03Escapes(c *run.C) {
	n := 0
	for k := 0; k < 16; k++ {
		s, ok := escString(c.Idx*16 + k)
		if !ok {
			break
		}
		for _, w := range escWrappers {
			c03One(c, codec.JSON, []byte(w[0]+s+w[1]), "escape-fragments", allEPs, c.R)
			n++
		}
	}
	c.Observe("escape_fragment_inputs", n)
	c.Nontrivial(gen.Mix(17, uint64(c.Idx)))
}

// c04Escapes: the texts among them that are valid JSON must be read with the
// value encoding/json assigns.
func c04Escapes(c *run.C) {
	for k := 0; k < 16; k++ {
		s, ok := escString(c.Idx*16 + k)
		if !ok {
			break
		}
		for _, w := range escWrappers[:4] {
			doc := []byte(w[0] + s + w[1])
			if !stdjson.Valid(doc) || !utf8.Valid(doc) {
				c.Observe("escape_texts_invalid", 1)
				continue
			}
			rr := ref.DecodeJSON(doc)
			if rr.Status != ref.OK || len(rr.Values) != 1 {
				continue
			}
			c.Begin(refCase{Codec: "json", Doc: hexs(doc), Text: clipb(doc), How: "escape-fragments"})
			if checkAgainstRef(c, codec.JSON, doc, []val.V{rr.Values[0]}, val.NumLoose, c.R) {
				c.Observe("escape_texts_equal_to_reference", 1)
			}
		}
	}
	c.Nontrivial(gen.Mix(18, uint64(c.Idx)))
}

func init() {
	n := (escTotal() + 15) / 16
	run.Lookup("C03").Suites = append(run.Lookup("C03").Suites, &run.Suite{Name: "json-escapes", N: tierN(n, n), Case: c03Escapes, Require: []string{"escape_fragment_inputs"}})
	run.Lookup("C04").Suites = append(run.Lookup("C04").Suites, &run.Suite{Name: "escapes", N: tierN(n, n), Case: c04Escapes, Require: []string{"escape_texts_equal_to_reference"}})
}
