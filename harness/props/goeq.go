package props

import (
	"fmt"
	"math"
	"reflect"

	"verif/harness/gen"
	"verif/harness/model"
	"verif/harness/val"
)

// eqGo compares an original Go value with its reconstruction: structural
// deep equality with nil == empty for slices and maps, omitted-when-empty
// fields left zero, dropped fields (unexported, '-', omit) zero in the
// reconstruction, interface-typed positions compared at value level under
// the codec's representation rules.  It returns "" or the first difference.
func eqGo(a, b reflect.Value, codec string, path string) string {
	return eqGoT(a, b, codec, path, true)
}

// eqGoPlain is eqGo without the struct-tag rules: every exported field is
// compared.
func eqGoPlain(a, b reflect.Value, codec string, path string) string {
	return eqGoT(a, b, codec, path, false)
}

func eqGoT(a, b reflect.Value, codec string, path string, tags bool) string {
	if a.Type() != b.Type() {
		return fmt.Sprintf("%s: type %s != %s", path, a.Type(), b.Type())
	}
	switch a.Kind() {
	case reflect.Bool:
		if a.Bool() != b.Bool() {
			return fmt.Sprintf("%s: %v != %v", path, a.Bool(), b.Bool())
		}
	case reflect.String:
		if a.String() != b.String() {
			return fmt.Sprintf("%s: %q != %q", path, a.String(), b.String())
		}
	case reflect.Int, reflect.Int8, reflect.Int16, reflect.Int32, reflect.Int64:
		if a.Int() != b.Int() {
			return fmt.Sprintf("%s: %d != %d", path, a.Int(), b.Int())
		}
	case reflect.Uint, reflect.Uint8, reflect.Uint16, reflect.Uint32, reflect.Uint64, reflect.Uintptr:
		if a.Uint() != b.Uint() {
			return fmt.Sprintf("%s: %d != %d", path, a.Uint(), b.Uint())
		}
	case reflect.Float32:
		x, y := float32(a.Float()), float32(b.Float())
		if codec == "json" && x == y { // -0 vs 0 through decimal text
			return ""
		}
		if math.Float32bits(x) != math.Float32bits(y) {
			return fmt.Sprintf("%s: %v(%#x) != %v(%#x)", path, x, math.Float32bits(x), y, math.Float32bits(y))
		}
	case reflect.Float64:
		x, y := a.Float(), b.Float()
		if math.Float64bits(x) != math.Float64bits(y) {
			if codec == "json" && x == y { // -0 vs 0 through decimal text
				return ""
			}
			return fmt.Sprintf("%s: %v(%#x) != %v(%#x)", path, x, math.Float64bits(x), y, math.Float64bits(y))
		}
	case reflect.Slice, reflect.Array:
		if a.Len() != b.Len() {
			return fmt.Sprintf("%s: length %d != %d", path, a.Len(), b.Len())
		}
		for i := 0; i < a.Len(); i++ {
			if d := eqGoT(a.Index(i), b.Index(i), codec, fmt.Sprintf("%s[%d]", path, i), tags); d != "" {
				return d
			}
		}
	case reflect.Map:
		if a.Len() != b.Len() {
			return fmt.Sprintf("%s: map size %d != %d", path, a.Len(), b.Len())
		}
		for _, k := range a.MapKeys() {
			bv := b.MapIndex(k)
			if !bv.IsValid() {
				return fmt.Sprintf("%s: key %q missing in the reconstruction", path, k.String())
			}
			if d := eqGoT(a.MapIndex(k), bv, codec, fmt.Sprintf("%s[%q]", path, k.String()), tags); d != "" {
				return d
			}
		}
	case reflect.Ptr:
		// "pointers fold as their target or as null when nil": a chain that
		// ends in nil at any level (or in a nil interface) is null, whatever
		// its depth; the reconstruction cannot know where the chain ended.
		na, nb := foldsToNil(a), foldsToNil(b)
		if na != nb {
			return fmt.Sprintf("%s: pointer folds to null: %v, reconstruction: %v", path, na, nb)
		}
		if !na {
			x, y := a, b
			for x.Kind() == reflect.Ptr {
				x = x.Elem()
			}
			for y.Kind() == reflect.Ptr {
				y = y.Elem()
			}
			return eqGoT(x, y, codec, path+".*", tags)
		}
	case reflect.Interface:
		ma, erra := model.Fold(a, nil)
		mb, errb := model.Fold(b, nil)
		if erra != nil || errb != nil {
			return fmt.Sprintf("%s: interface content not representable (%v / %v)", path, erra, errb)
		}
		ma = val.Norm(codec, ma, false)
		mode := val.NumLoose
		if d := val.Equal(ma, mb, mode); d != "" {
			return fmt.Sprintf("%s (interface, value level): %s", path, d)
		}
	case reflect.Struct:
		t := a.Type()
		for i := 0; i < t.NumField(); i++ {
			f := t.Field(i)
			tag := gen.ParseFieldTag(f)
			fp := path + "." + f.Name
			if !tags {
				if f.PkgPath != "" {
					continue
				}
				if d := eqGoT(a.Field(i), b.Field(i), codec, fp, tags); d != "" {
					return d
				}
				continue
			}
			if f.PkgPath != "" || tag.Omit {
				// dropped by folding: must still be zero in the fresh target
				if f.PkgPath == "" && !b.Field(i).IsZero() {
					return fmt.Sprintf("%s: dropped field is not zero in the reconstruction", fp)
				}
				continue
			}
			if tag.OmitEmpty && !tag.Inline && model.Empty(a.Field(i)) {
				if !zeroish(b.Field(i)) {
					return fmt.Sprintf("%s: field omitted as empty is not zero in the reconstruction", fp)
				}
				continue
			}
			if d := eqGoT(a.Field(i), b.Field(i), codec, fp, tags); d != "" {
				return d
			}
		}
	default:
		return fmt.Sprintf("%s: unsupported kind %s", path, a.Kind())
	}
	return ""
}

// foldsToNil: following pointers and interfaces from v ends in nil.
func foldsToNil(v reflect.Value) bool {
	for v.Kind() == reflect.Ptr || v.Kind() == reflect.Interface {
		if v.IsNil() {
			return true
		}
		v = v.Elem()
	}
	return false
}

// zeroish: zero value, or an empty (non-nil) slice/map.
func zeroish(v reflect.Value) bool {
	if v.IsZero() {
		return true
	}
	switch v.Kind() {
	case reflect.Slice, reflect.Map:
		return v.Len() == 0
	}
	return false
}
