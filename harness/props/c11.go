package props

import (
	"fmt"
	"math"
	"reflect"

	structform "github.com/elastic/go-structform"
	"github.com/elastic/go-structform/gotype"

	"verif/harness/codec"
	"verif/harness/gen"
	"verif/harness/model"
	"verif/harness/mon"
	"verif/harness/run"
	"verif/harness/zoo"
)

// C11: Fold then Unfold reproduces any supported Go value, directly or via a
// codec.

var c11Paths = []string{"direct", "json", "ubjson", "cborl"}

// hasBigUint: a typed (non-interface) uint/uint64 position holds a value
// above MaxInt64.
func hasBigUint(v reflect.Value, depth int) bool {
	if depth > 40 {
		return false
	}
	switch v.Kind() {
	case reflect.Uint, reflect.Uint64, reflect.Uintptr:
		return v.Uint() > math.MaxInt64
	case reflect.Ptr:
		return !v.IsNil() && hasBigUint(v.Elem(), depth+1)
	case reflect.Slice, reflect.Array:
		for i := 0; i < v.Len(); i++ {
			if hasBigUint(v.Index(i), depth+1) {
				return true
			}
		}
	case reflect.Map:
		for _, k := range v.MapKeys() {
			if hasBigUint(v.MapIndex(k), depth+1) {
				return true
			}
		}
	case reflect.Struct:
		for i := 0; i < v.NumField(); i++ {
			if hasBigUint(v.Field(i), depth+1) {
				return true
			}
		}
	}
	return false
}

// roundTripGo folds v and unfolds it into a fresh target of the same type
// along the given path.  It returns the reconstruction.
var lastRefusal error

// skipForeignFinding: case functions are shared between properties (C15 runs
// the C11/C13 pipelines under sanitizer builds).  A case hitting a recorded
// known finding of the owning property tells the borrowing property nothing.
func skipForeignFinding(c *run.C, owner string, tags []string) bool {
	if c.Prop == owner {
		return false
	}
	for _, t := range tags {
		if t == "ubjson-uint-above-maxint64-typed" {
			c.Observe("skipped_known_finding_of_"+owner, 1)
			return true
		}
	}
	return false
}

func roundTripGo(c *run.C, t reflect.Type, v reflect.Value, path string) (recon reflect.Value, refused bool, ok bool) {
	target := reflect.New(t)
	var u *gotype.Unfolder
	var uerr error
	if !c.Guard("gotype.NewUnfolder", func() { u, uerr = gotype.NewUnfolder(target.Interface()) }) {
		return recon, false, false
	}
	if uerr != nil {
		lastRefusal = uerr
		return recon, true, true
	}
	var err error
	stage := "fold"
	run1 := func() {
		if path == "direct" {
			err = gotype.Fold(v.Interface(), u)
			return
		}
		cd := codec.ByName(path)
		var w mon.CountingWriter
		enc := cd.NewVisitor(&w, codec.JSONOpts{})
		if err = gotype.Fold(v.Interface(), enc); err != nil {
			return
		}
		stage = "parse+unfold"
		if c.R.Bool() {
			err = cd.Parse(w.Buf, u)
		} else {
			_, err = cd.ParseReader(&mon.ChunkReader{Data: w.Buf, Sizes: []int{c.R.Range(1, 9), c.R.Range(1, 40)}, EOFWithData: c.R.Bool()}, u)
		}
	}
	if !c.Guard("roundtrip."+path, run1) {
		return recon, false, false
	}
	if err != nil {
		c.Violationf("unfold-error", path+":"+stage+":"+errClass(err), "round trip (%s) failed at %s: %v\ntype=%s\nvalue=%s", path, stage, err, t, valueString(v))
		return recon, false, false
	}
	return target.Elem(), false, true
}

func c11Generated(c *run.C) {
	r := c.R
	path := c11Paths[c.Idx%4]
	vo := gen.GoValueOpts{ZeroDropped: true}
	if path != "json" {
		vo.BadUTF8, vo.SpecialF = true, true
	}
	t, v := genTypeValue(r, gen.GoTypeOpts{MaxDepth: 4, InlineStructOnly: true, Extra: zoo.Supported}, vo)
	tags := typeTags(t)
	if path == "ubjson" && hasBigUint(v, 0) {
		tags = append(tags, "ubjson-uint-above-maxint64-typed")
	}
	if skipForeignFinding(c, "C11", tags) {
		return
	}
	c.Begin(goCase{Type: t.String(), Value: valueString(v), How: path, Tags: tags})
	for _, tg := range tags {
		c.Tag(tg)
	}
	recon, refused, ok := roundTripGo(c, t, v, path)
	if !ok {
		return
	}
	if refused {
		c.Violationf("refused-supported", "unfold:refused-supported", "NewUnfolder refused a target of a supported type: %v\ntype=%s", lastRefusal, t)
		return
	}
	if d := eqGo(v, recon, path, "$"); d != "" {
		c.Violationf("mismatch", path+":"+mismatchClass(d), "round trip (%s) changed the value: %s\ntype=%s\noriginal     =%s\nreconstructed=%s", path, d, t, valueString(v), valueString(recon))
		return
	}
	c.Observe("roundtrips_"+path, 1)
	for _, tg := range tags {
		c.Observe(tg, 1)
	}
	c.Nontrivial(gen.Mix(uint64(c.Idx%4), gen.HashString(t.String()), gen.HashString(valueString(v))))
	if len(t.String()) < 200 {
		c.Sample(path, goCase{Type: t.String(), Value: valueString(v), How: path})
	}
}

// top-level kinds that go through the specialised (non-reflection)
// unfolders: every scalar, []T, map[string]T for the 16 element kinds,
// interface{}.
func c11Primitive(c *run.C) {
	r := c.R
	path := c11Paths[c.Idx%4]
	elems := append([]reflect.Type{}, gen.ScalarTypes()...)
	elems = append(elems, gen.TIface)
	e := elems[(c.Idx/4)%len(elems)]
	var t reflect.Type
	switch (c.Idx / (4 * len(elems))) % 5 {
	case 0:
		t = e
	case 1:
		t = reflect.SliceOf(e)
	case 2:
		t = reflect.MapOf(gen.TString, e)
	case 3:
		t = reflect.SliceOf(reflect.SliceOf(e))
	default:
		t = reflect.MapOf(gen.TString, reflect.MapOf(gen.TString, e))
	}
	vo := gen.GoValueOpts{MaxLen: 6}
	if path != "json" {
		vo.BadUTF8, vo.SpecialF = true, true
	}
	vg := &gen.ValueGen{R: r, O: vo}
	v := vg.Value(t, 0)
	var tags []string
	if path == "ubjson" && hasBigUint(v, 0) {
		tags = append(tags, "ubjson-uint-above-maxint64-typed")
	}
	if skipForeignFinding(c, "C11", tags) {
		return
	}
	c.Begin(goCase{Type: t.String(), Value: valueString(v), How: path, Tags: tags})
	for _, tg := range tags {
		c.Tag(tg)
	}
	recon, refused, ok := roundTripGo(c, t, v, path)
	if !ok {
		return
	}
	if refused {
		c.Violationf("refused-supported", "unfold:refused-supported", "NewUnfolder refused a target of a supported type: %v\ntype=%s", lastRefusal, t)
		return
	}
	if d := eqGo(v, recon, path, "$"); d != "" {
		c.Violationf("mismatch", path+":"+mismatchClass(d), "round trip (%s) changed the value: %s\ntype=%s\noriginal     =%s\nreconstructed=%s", path, d, t, valueString(v), valueString(recon))
		return
	}
	c.Observe("primitive_roundtrips", 1)
	c.Nontrivial(gen.Mix(110, uint64(c.Idx%4), gen.HashString(t.String()), gen.HashString(valueString(v))))
}

// unsupported and self-referential types: refused with an error, never a
// crash.  Every case runs in a process of its own.
type refusalCase struct {
	Type string   `json:"type"`
	Op   string   `json:"op"`
	Tags []string `json:"tags"`
}

func c11Refusal(c *run.C) {
	types := append(append([]reflect.Type{}, zoo.Unsupported...), zoo.Recursive...)
	// array-kind targets and fields
	types = append(types, reflect.TypeOf([3]int{}), reflect.TypeOf(zoo.WithArray{}), reflect.TypeOf(struct {
		X int `struct:",inline"`
	}{}), reflect.TypeOf(struct {
		M map[string]int `struct:",inline,omitempty"`
	}{}))
	t := types[(c.Idx/2)%len(types)]
	op := []string{"fold", "unfold-target"}[c.Idx%2]
	tags := typeTags(t)
	if model.HasCycle(t) {
		tags = append(tags, "type:cycle")
	}
	c.Begin(refusalCase{t.String(), op, tags})
	for _, tg := range tags {
		c.Tag(tg)
	}
	recursive := model.HasCycle(t)
	switch op {
	case "fold":
		v := reflect.New(t).Elem()
		if recursive {
			// a small finite value of the recursive type
			vg := &gen.ValueGen{R: c.R, O: gen.GoValueOpts{MaxLen: 1}}
			v = vg.Value(t, 5)
		}
		m := mon.NewMonitor()
		var err error
		if !c.Guard("gotype.Fold", func() { err = gotype.Fold(v.Interface(), m) }) {
			return
		}
		if err != nil {
			c.Observe("fold_refused_with_error", 1)
		} else {
			if !recursive && !foldableAnyway(t) {
				c.Violationf("accepted-unsupported", "fold:accepted-unsupported", "Fold accepted a value of unsupported type %s and emitted %s", t, m.Events)
				return
			}
			c.Observe("fold_handled", 1)
		}
	default:
		target := reflect.New(t)
		var err error
		if !c.Guard("gotype.NewUnfolder", func() { _, err = gotype.NewUnfolder(target.Interface()) }) {
			return
		}
		if err != nil {
			c.Observe("target_refused_with_error", 1)
		} else {
			if !recursive && !targetableAnyway(t) {
				c.Violationf("accepted-unsupported", "unfold:accepted-unsupported-target:"+t.String(), "NewUnfolder accepted a target of unsupported type %s", t)
				return
			}
			c.Observe("target_handled", 1)
		}
	}
	c.Nontrivial(gen.Mix(111, gen.HashString(t.String()), uint64(c.Idx%2)))
	c.Sample("refusal", refusalCase{t.String(), op, tags})
}

// arrays fold fine (documented: slices and arrays fold as arrays).
// Values of a non-empty interface type fold as their dynamic value; only as
// unfold targets are they unrepresentable.
func foldableAnyway(t reflect.Type) bool {
	return t.Kind() == reflect.Array || t == reflect.TypeOf(zoo.WithArray{}) || t == reflect.TypeOf(zoo.WithNonEmptyIface{})
}

func targetableAnyway(t reflect.Type) bool { return false }

var _ = fmt.Sprint
var _ structform.Visitor

func init() {
	run.Register(&run.Check{
		ID:    "C11",
		Level: "exploration",
		Rule: "programs: generated Go types (bool, string, all int/uint/float widths, []T, map[string]T, pointer chains up to 3, interface{}, reflect.StructOf structs with every tag combination incl. inline structs, named and embedded zoo types) " +
			"x values (scalar class mix, nil/empty/non-empty at every nillable position, interface positions holding scalars, generic and typed slices/maps, structs, pointers) x {direct, json, ubjson, cborl} (codec paths parse whole or chunked); " +
			"primitive: every scalar kind, []T, map[string]T, [][]T, map[string]map[string]T for the 14 scalar kinds and interface{} as top-level target (the specialised non-reflection unfolders). " +
			"Oracle: deep equality of original and reconstruction (nil == empty slices/maps; omitted-when-empty fields zero; dropped fields zero; interface positions at value level under the codec's C01 rules; NaN by bits). " +
			"refusal: unsupported kinds (chan, func, complex, non-string-keyed maps, non-empty interfaces, arrays as targets, inline on scalars, inline+omitempty) and self-referential types, each in its own process: Fold / NewUnfolder must return an error or handle the type, never crash. " +
			"distinct_nontrivial = distinct (path, type, value).",
		Assumptions: []string{
			"fields that folding drops by design (unexported, '-', omit) are generated with zero values, since no round trip can reproduce them",
			"JSON path: strings are valid UTF-8 and floats finite (C01 documents what JSON does to the others)",
			"inline tags are generated on struct-kind fields only (the shape the unfolder supports; others must be refused, see the refusal suite)",
		},
		Suites: []*run.Suite{
			{Name: "generated", N: tierN(160000, 5000000), Case: c11Generated, Require: []string{"roundtrips_direct", "roundtrips_json", "roundtrips_ubjson", "roundtrips_cborl", "type:tag-inline", "type:tag-omitempty", "type:ptr", "type:interface"}},
			{Name: "primitive", N: tierN(4*15*5*20, 4*15*5*400), Case: c11Primitive, Require: []string{"primitive_roundtrips"}},
			{Name: "refusal", N: tierN(2*15, 2*15), Case: c11Refusal, Batch: 1},
		},
	})
}
