package props

import (
	"fmt"
	"io"

	structform "github.com/elastic/go-structform"

	"verif/harness/codec"
	"verif/harness/gen"
	"verif/harness/mon"
	"verif/harness/ref"
	"verif/harness/run"
	"verif/harness/val"
)

// C08: streaming transcoding between any two formats preserves the value.

type c08Case struct {
	Src   string `json:"src"`
	Dst   string `json:"dst"`
	Opts  int    `json:"json_opts"`
	In    string `json:"in_hex"`
	Mode  string `json:"mode"`
	Sizes []int  `json:"sizes"`
	Buf   int    `json:"bufsize,omitempty"`
}

// c08Source builds a source document (or a stream of container documents)
// of format src.
func c08Source(r *gen.Rand, src *codec.Codec) (in []byte, n int) {
	n = 1
	if r.P(3, 10) {
		n = r.Range(2, 4)
	}
	for i := 0; i < n; i++ {
		var b []byte
		if r.P(1, 3) {
			// the library's own encoder
			s := gen.Stream(r, gen.StreamOpts{MaxDepth: 5, MaxNodes: 40, Extended: true, Refs: true, BadUTF8: src.Name != "json", SpecialF: src.Name != "json", Container: n > 1, TypedBasic: true, Deep: true})
			var err error
			b, err = encode(src, codec.JSONOptsFromIndex(r.Intn(8)|4), s)
			if err != nil {
				b = nil
			}
		}
		if b == nil {
			b = gen.ForeignDoc(r, src.Name, 5, 40, n > 1).Bytes
		}
		if src.Name == "json" && i > 0 {
			in = append(in, gen.Pick(r, []string{"", " ", "\n", "\r\n\t"})...)
		}
		in = append(in, b...)
	}
	return in, n
}

func c08One(c *run.C) {
	r := c.R
	src := codec.All[c.Idx%3]
	dst := codec.All[(c.Idx/3)%3]
	o := codec.JSONOptsFromIndex((c.Idx / 9) % 8)
	in, ndocs := c08Source(r, src)
	rs := refDecode(src.Name, in)
	if rs.Status != ref.OK || len(rs.Values) != ndocs || rs.Has("big-int") || rs.Has("float-overflow") || rs.Unsupported() {
		c.Observe("source_skipped", 1)
		return
	}
	// expected target values
	want := make([]val.V, len(rs.Values))
	nonFinite := false
	for i, v := range rs.Values {
		if val.HasNonFinite(v) {
			nonFinite = true
		}
		want[i] = val.Norm(dst.Name, v, o.IgnoreInvalidFloat)
	}
	expectErr := dst.Name == "json" && nonFinite && !o.IgnoreInvalidFloat
	mode := val.Mode(dst.Name)

	sizes := [][]int{nil, {1}, {r.Range(1, 9), r.Range(1, 4), r.Range(1, 80)}}[r.Intn(3)]
	useDecoder := r.Bool()
	buf := gen.Pick(r, []int{1, 2, 3, 7, 16, 64, 4096})
	desc := c08Case{src.Name, dst.Name, o.Index(), hexs(in), "ParseReader", sizes, 0}
	if useDecoder {
		desc.Mode, desc.Buf = "Decoder.Next", buf
	}
	c.Begin(desc)

	var w mon.CountingWriter
	enc := dst.NewVisitor(&w, o)
	m := mon.NewMonitor()
	m.NoRecord = true
	m.Next = structform.EnsureExtVisitor(enc)
	var terr error
	ok, _ := guardCall(c, src.Name+"->"+dst.Name, func() int { return m.NEvents }, func() {
		rd := &mon.ChunkReader{Data: in, Sizes: sizes, EOFWithData: r.Bool()}
		if !useDecoder {
			_, terr = src.ParseReader(rd, m.WithRefs())
			return
		}
		d := src.NewDecoder(rd, buf, m.WithRefs())
		for i := 0; i < ndocs+2; i++ {
			if err := d.Next(); err != nil {
				if err != io.EOF {
					terr = err
				} else if i != ndocs {
					terr = fmt.Errorf("verif: decoder reported io.EOF after %d of %d documents", i, ndocs)
				}
				return
			}
		}
		terr = fmt.Errorf("verif: decoder delivered more than %d documents", ndocs)
	})
	if !ok {
		return
	}
	pair := src.Name + "->" + dst.Name
	if m.Violation != "" {
		c.Violationf("contract", pair+":contract", "%s parser violated the visitor contract at event %d: %s\nin=%s", src.Name, m.ViolAt, m.Violation, hexs(in))
		return
	}
	if expectErr {
		if terr == nil {
			c.Violationf("mismatch", pair+":nonfinite-accepted", "transcoding a non-finite float into JSON returned no error\nin=%s\nout=%q", hexs(in), clipb(w.Buf))
		} else {
			c.Observe("nonfinite_refused", 1)
		}
		return
	}
	if terr != nil {
		c.Violationf("transcode-error", pair+":error", "transcoding %s (%s) failed: %v\nin=%s\nout so far=%s", pair, desc.Mode, terr, hexs(in), hexs(w.Buf))
		return
	}
	rd := refDecode(dst.Name, w.Buf)
	if rd.Status != ref.OK {
		c.Violationf("invalid-output", pair+":invalid-output", "%s: target document rejected by the reference decoder (%s: %s)\nin=%s\nout=%s\ntext=%q", pair, rd.Status, rd.Err, hexs(in), hexs(w.Buf), clipb(w.Buf))
		return
	}
	if len(rd.Values) != len(want) {
		c.Violationf("mismatch", pair+":value-count", "%s: %d source values became %d target values\nin=%s\nout=%s", pair, len(want), len(rd.Values), hexs(in), hexs(w.Buf))
		return
	}
	for i := range want {
		if d := val.Equal(want[i], rd.Values[i], mode); d != "" {
			c.Violationf("mismatch", pair+":value", "%s changed value #%d: %s\nin=%s\nout=%s\ntext=%q", pair, i, d, hexs(in), hexs(w.Buf), clipb(w.Buf))
			return
		}
	}
	// decode-then-re-encode gives the same value
	for i, v := range rs.Values {
		b2, err := encode(dst, o, val.FromValue(v, r.Bool()))
		if err != nil {
			c.Violationf("mismatch", pair+":reencode-error", "re-encoding reference value #%d with the %s encoder failed: %v", i, dst.Name, err)
			return
		}
		r2 := refDecode(dst.Name, b2)
		if r2.Status != ref.OK || len(r2.Values) != 1 {
			c.Violationf("mismatch", pair+":reencode-invalid", "re-encoded value #%d is not a valid %s document", i, dst.Name)
			return
		}
		if d := val.Equal(r2.Values[0], rd.Values[i], mode); d != "" {
			c.Violationf("mismatch", pair+":reencode-differs", "%s: transcoded value #%d differs from decode-then-re-encode: %s\nin=%s\nout=%s", pair, i, d, hexs(in), hexs(w.Buf))
			return
		}
	}
	// the library's own target parser agrees
	pm, perr := parseWholeGuarded(c, dst, w.Buf)
	if pm == nil {
		return
	}
	if perr != nil {
		c.Violationf("mismatch", pair+":own-parser-rejects", "%s parser rejects the transcoded document: %v\nout=%s", dst.Name, perr, hexs(w.Buf))
		return
	}
	got, verr := pm.Events.Values()
	if verr != nil || len(got) != len(want) {
		c.Violationf("mismatch", pair+":own-parser-count", "%s parser reads %d values (%v) from the transcoded document, expected %d\nout=%s", dst.Name, len(got), verr, len(want), hexs(w.Buf))
		return
	}
	for i := range want {
		if d := val.Equal(want[i], got[i], mode); d != "" {
			c.Violationf("mismatch", pair+":own-parser-value", "%s parser reads another value #%d from the transcoded document: %s\nout=%s", dst.Name, i, d, hexs(w.Buf))
			return
		}
	}
	c.Observe("transcoded_"+pair, 1)
	c.Observe("documents", ndocs)
	if ndocs > 1 {
		c.Observe("streams", 1)
	}
	c.Nontrivial(gen.Mix(uint64(c.Idx%9), gen.HashBytes(in)))
	if len(in) > 10 && len(in) < 300 {
		c.Sample(pair, map[string]interface{}{"in_hex": hexs(in), "out_hex": hexs(w.Buf), "mode": desc.Mode, "sizes": sizes})
	}
}

func init() {
	req := []string{"streams", "nonfinite_refused"}
	for _, a := range codec.All {
		for _, b := range codec.All {
			req = append(req, "transcoded_"+a.Name+"->"+b.Name)
		}
	}
	run.Register(&run.Check{
		ID:    "C08",
		Level: "exploration",
		Rule: "sources: documents of each format from the foreign generators (CBOR byte strings, non-minimal integers, indefinite containers; UBJSON typed/counted containers, H, C, no-ops; JSON with whitespace, escapes, unknown lengths) and from the library's own encoders, " +
			"single or as a concatenated stream of 2..4 container documents; each is piped parser -> (contract monitor) -> encoder for all 9 (source,target) pairs, via ParseReader or a Decoder.Next loop, with whole / 1-byte / mixed read sizes, buffer sizes 1..4096, EOF with or after the last data. " +
			"Oracle: ref_target(out) == norm_target(ref_source(in)) per document == value of decode-then-re-encode == what the library's own target parser reads; non-finite floats into JSON without ignoreInvalidFloat must fail. " +
			"distinct_nontrivial = distinct (pair, source bytes).",
		Assumptions: []string{
			"source documents using spec-ambiguous UBJSON no-op placements, JSON numbers outside the 64-bit / float64 range or CBOR features outside the subset are skipped (covered by C04-C06)",
			"trusts the reference decoders on both sides",
		},
		Suites: []*run.Suite{
			{Name: "pairs", N: tierN(135000, 4500000), Case: c08One, Require: req},
		},
	})
}
