package props

import (
	"bytes"
	"encoding/binary"
	"fmt"
	"io"
	"runtime"
	"strings"

	"verif/harness/codec"
	"verif/harness/gen"
	"verif/harness/hook"
	"verif/harness/mon"
	"verif/harness/ref"
	"verif/harness/run"
)

// C03: parsers survive arbitrary bytes.

const (
	epParse = iota
	epParseString
	epParseReader
	epWrite
	epBytesDecoder
	epReaderDecoder
	numEntryPoints
)

var epNames = [...]string{"Parse", "ParseString", "ParseReader", "Write", "BytesDecoder.Next", "Decoder.Next"}

type hostileResult struct {
	ok      bool
	err     error // final error of the entry point (nil = accepted / clean)
	events  int
	nextOK  int // number of successful Next calls (decoders)
	budget  bool
	maxIdle int
}

// runHostile feeds input to one entry point under all monitors.
func runHostile(c *run.C, cd *codec.Codec, input []byte, ep int, sizes []int, bufSize int) hostileResult {
	var res hostileResult
	m := mon.NewMonitor()
	m.NoRecord = true
	m.Budget = 64 + 8*len(input)
	what := cd.Name + "." + epNames[ep]
	ok, g := guardCall(c, what, func() int { return m.NEvents }, func() {
		switch ep {
		case epParse:
			res.err = cd.Parse(exactCopy(input), m.WithRefs())
		case epParseString:
			res.err = cd.ParseString(string(input), m.WithRefs())
		case epParseReader:
			_, res.err = cd.ParseReader(&mon.ChunkReader{Data: input, Sizes: sizes, EOFWithData: len(input)%2 == 1}, m.WithRefs())
		case epWrite:
			p := cd.NewParser(m.WithRefs())
			for _, ch := range mon.Chunks(input, sizes) {
				mon.Progress++
				if _, err := p.Write(ch); err != nil {
					res.err = err
					return
				}
			}
			if err, has := hook.Finalize(p); has {
				res.err = err
			}
		case epBytesDecoder, epReaderDecoder:
			var d codec.Decoder
			if ep == epBytesDecoder {
				d = cd.NewBytesDecoder(exactCopy(input), m.WithRefs())
			} else {
				d = cd.NewDecoder(&mon.ChunkReader{Data: input, Sizes: sizes, EOFWithData: len(input)%2 == 1}, bufSize, m.WithRefs())
			}
			// every successful Next delivers at least one event or consumes
			// input; bound the loop by the input length.
			for i := 0; i <= len(input)+2; i++ {
				before := m.NEvents
				err := d.Next()
				if err != nil {
					res.err = err
					return
				}
				res.nextOK++
				if m.NEvents == before && i > len(input) {
					res.err = fmt.Errorf("verif: Next keeps succeeding without events")
					return
				}
			}
			res.err = fmt.Errorf("verif: decoder did not finish after %d successful Next calls on %d bytes", res.nextOK, len(input))
		}
	})
	res.ok = ok
	res.events = m.NEvents
	res.budget = m.NEvents > m.Budget
	if g != nil {
		res.maxIdle = g.MaxIdle
	}
	return res
}

// jsonNumericTail reports whether the JSON input ends in a top-level
// number-like token and whether that token contains a digit.
func jsonNumericTail(b []byte) (numeric, hasDigit bool) {
	t := bytes.TrimRight(b, " \t\r\n")
	i := len(t)
	for i > 0 && strings.IndexByte("+-.eE0123456789", t[i-1]) >= 0 {
		if t[i-1] >= '0' && t[i-1] <= '9' {
			hasDigit = true
		}
		i--
	}
	return i < len(t), hasDigit
}

// jsonTailAtTopLevel reports whether the numeric tail of b stands outside any
// open array, object or string: what precedes it is empty or a complete
// sequence of values for the reference decoder.  Only there is a number
// prefix such as "1." a (lenient) complete value; "[1." is a cut document.
func jsonTailAtTopLevel(b []byte) bool {
	t := bytes.TrimRight(b, " \t\r\n")
	i := len(t)
	for i > 0 && strings.IndexByte("+-.eE0123456789", t[i-1]) >= 0 {
		i--
	}
	prefix := bytes.TrimSpace(t[:i])
	return len(prefix) == 0 || refDecode("json", prefix).Status == ref.OK
}

type c03Case struct {
	Codec string   `json:"codec"`
	Input string   `json:"input_hex"`
	Entry string   `json:"entry"`
	Sizes []int    `json:"sizes,omitempty"`
	Buf   int      `json:"bufsize,omitempty"`
	How   string   `json:"how,omitempty"`
	Tags  []string `json:"tags,omitempty"`
}

func hostileTags(cd *codec.Codec, input []byte) []string {
	var tags []string
	if cd.Name == "ubjson" {
		for _, z := range []string{"$Z#", "$T#", "$F#", "$N#"} {
			if bytes.Contains(input, []byte(z)) {
				tags = append(tags, "ubjson-zero-width-typed")
				break
			}
		}
	}
	return tags
}

// c03One runs one input through the given entry points and applies the
// oracles.
func c03One(c *run.C, cd *codec.Codec, input []byte, how string, eps []int, r *gen.Rand) {
	rr := refDecode(cd.Name, input)
	truncated := rr.Status == ref.Truncated
	if truncated && cd.Name == "json" {
		if numeric, hasDigit := jsonNumericTail(input); numeric && hasDigit && jsonTailAtTopLevel(input) {
			// lenient number forms ("1.", "1e") are not demanded to fail
			truncated = false
		}
	}
	if truncated {
		c.Observe("inputs_truncated_by_reference", 1)
	}
	tags := hostileTags(cd, input)
	for _, ep := range eps {
		var sizes []int
		buf := 0
		if ep == epParseReader || ep == epWrite || ep == epReaderDecoder {
			switch r.Intn(3) {
			case 0:
				sizes = []int{1}
			case 1:
				sizes = []int{r.Range(1, 7), r.Range(1, 3), r.Range(1, 64)}
				if r.P(1, 5) {
					sizes[1] = 0 // an empty read / write in every cycle
				}
			default:
				sizes = nil // as much as fits
			}
			buf = gen.Pick(r, []int{0, 1, 2, 3, 7, 16, 64, 4096})
		}
		if ep == epWrite && !hook.Enabled && cd.Name != "cborl" {
			continue
		}
		desc := c03Case{cd.Name, hexs(input), epNames[ep], sizes, buf, how, tags}
		c.Begin(desc)
		for _, t := range tags {
			c.Tag(t)
		}
		res := runHostile(c, cd, input, ep, sizes, buf)
		c.Observe("calls", 1)
		c.ObserveMax("max_idle_loop_iterations", res.maxIdle)
		if !res.ok {
			continue
		}
		if res.budget {
			c.Violationf("amplification", cd.Name+":events-out-of-proportion", "%s %s delivered more than %d events for %d input bytes (%s)\ninput=%s",
				cd.Name, epNames[ep], 64+8*len(input), len(input), how, hexs(input))
			continue
		}
		if res.err != nil {
			c.Observe("returned_error", 1)
			if strings.HasPrefix(res.err.Error(), "verif:") {
				c.Violationf("decoder-loop", cd.Name+":"+epNames[ep]+":loop", "%s %s: %v\ninput=%s", cd.Name, epNames[ep], res.err, hexs(input))
				continue
			}
		} else {
			c.Observe("returned_success", 1)
		}
		if truncated {
			endAware := ep != epWrite
			if endAware && (res.err == nil || res.err == io.EOF) {
				c.Violationf("truncation-accepted", cd.Name+":"+epNames[ep]+":truncation", "%s %s returned %v for input that ends inside a value (reference: %s)\ninput=%s sizes=%v buf=%d",
					cd.Name, epNames[ep], res.err, rr.Err, hexs(input), sizes, buf)
			} else if endAware {
				c.Observe("truncations_reported", 1)
			}
		}
	}
}

var allEPs = []int{epParse, epParseString, epParseReader, epWrite, epBytesDecoder, epReaderDecoder}

// tiny: every byte string of length <= 2, and length 3 over the interesting
// alphabet.
func c03Tiny(c *run.C) {
	cd := codec.All[c.Idx%3]
	first := c.Idx / 3 // 0..255: first byte; 256: len<=1; 257..: length-3 blocks
	n := 0
	alpha := gen.Interesting(cd.Name)
	switch {
	case first < 256:
		for b := 0; b < 256; b++ {
			c03One(c, cd, []byte{byte(first), byte(b)}, "tiny2", allEPs, c.R)
			n++
		}
	case first == 256:
		c03One(c, cd, []byte{}, "empty", allEPs, c.R)
		for b := 0; b < 256; b++ {
			c03One(c, cd, []byte{byte(b)}, "tiny1", allEPs, c.R)
			n++
		}
	default:
		a := first - 257
		if a >= len(alpha) {
			return
		}
		for _, x := range alpha {
			for _, y := range alpha {
				c03One(c, cd, []byte{alpha[a], x, y}, "tiny3", []int{epParse, epReaderDecoder}, c.R)
				n++
			}
		}
	}
	c.Observe("tiny_inputs", n)
	c.Nontrivial(gen.Mix(10, uint64(c.Idx)))
}

func c03Mutants(c *run.C) {
	r := c.R
	cd := codec.All[c.Idx%3]
	base := gen.ForeignDoc(r, cd.Name, 4, 25, false)
	if r.P(1, 3) {
		s := gen.Stream(r, gen.StreamOpts{MaxDepth: 4, MaxNodes: 25, Extended: true, Refs: true, BadUTF8: true})
		if b, err := encode(cd, codec.JSONOptsFromIndex(4), s); err == nil {
			base.Bytes = b
		}
	}
	input, how := gen.Mutate(r, base.Bytes, gen.Interesting(cd.Name))
	for r.P(1, 3) {
		var h2 string
		input, h2 = gen.Mutate(r, input, gen.Interesting(cd.Name))
		how += "+" + h2
	}
	eps := []int{epParse, gen.Pick(r, []int{epParseString, epParseReader, epWrite}), gen.Pick(r, []int{epBytesDecoder, epReaderDecoder})}
	c03One(c, cd, input, how, eps, r)
	c.Nontrivial(gen.Mix(11, uint64(c.Idx%3), gen.HashBytes(input)))
	c.Sample("mutant", map[string]interface{}{"codec": cd.Name, "how": how, "input_hex": hexs(input)})
}

// prefixes: every proper prefix of a valid document.
func c03Prefixes(c *run.C) {
	r := c.R
	cd := codec.All[c.Idx%3]
	base := gen.ForeignDoc(r, cd.Name, 4, 20, r.Bool())
	if len(base.Bytes) > 300 {
		base.Bytes = base.Bytes[:300]
	}
	for cut := 0; cut < len(base.Bytes); cut++ {
		c03One(c, cd, base.Bytes[:cut], "prefix", []int{epParse, epParseReader, epBytesDecoder, epReaderDecoder}, r)
	}
	c.Observe("prefix_inputs", len(base.Bytes))
	c.Nontrivial(gen.Mix(12, uint64(c.Idx%3), gen.HashBytes(base.Bytes)))
	c.Sample("prefixes", map[string]interface{}{"codec": cd.Name, "doc_hex": hexs(base.Bytes)})
}

// bitflips: every single-bit flip of a short document.
func c03BitFlips(c *run.C) {
	r := c.R
	cd := codec.All[c.Idx%3]
	base := gen.ForeignDoc(r, cd.Name, 3, 10, r.Bool())
	if len(base.Bytes) > 64 {
		base.Bytes = base.Bytes[:64]
	}
	for i := 0; i < len(base.Bytes)*8; i++ {
		in := append([]byte{}, base.Bytes...)
		in[i/8] ^= 1 << uint(i%8)
		c03One(c, cd, in, "bitflip", []int{epParse, epReaderDecoder}, r)
	}
	c.Observe("bitflip_inputs", len(base.Bytes)*8)
	c.Nontrivial(gen.Mix(13, uint64(c.Idx%3), gen.HashBytes(base.Bytes)))
}

var hugeLens = []uint64{1 << 16, 1 << 20, 1<<31 - 1, 1 << 31, 1<<32 - 1, 1 << 32, 1 << 40, 1<<62 - 1, 1 << 62, 1<<63 - 1, 1 << 63, 1<<64 - 1}

// lengths: length / count fields replaced by huge values that the input does
// not back with data; allocation is measured around each call.
func c03Lengths(c *run.C) {
	r := c.R
	cd := codec.All[c.Idx%3]
	var input []byte
	L := gen.Pick(r, hugeLens)
	tailN := r.Intn(12)
	tail := r.Bytes(tailN)
	switch cd.Name {
	case "cborl":
		major := gen.Pick(r, []byte{2, 3, 4, 5})
		var pre []byte
		switch r.Intn(4) {
		case 1:
			pre = []byte{0x81}
		case 2:
			pre = []byte{0x9f}
		case 3:
			pre = []byte{0xa1, 0x61, 'k'}
		}
		w := gen.Pick(r, []int{4, 8})
		if L > 1<<32-1 {
			w = 8
		}
		input = append(input, pre...)
		if w == 4 {
			input = append(input, major<<5|26)
			input = binary.BigEndian.AppendUint32(input, uint32(L))
		} else {
			input = append(input, major<<5|27)
			input = binary.BigEndian.AppendUint64(input, L)
		}
		if r.Bool() && major == 5 {
			// huge key length inside a map
			input = append(input, 0x7b)
			input = binary.BigEndian.AppendUint64(input, gen.Pick(r, hugeLens))
		}
	case "ubjson":
		var pre []byte
		switch r.Intn(3) {
		case 1:
			pre = []byte{'['}
		case 2:
			pre = []byte{'{', 'i', 1, 'k'}
		}
		input = append(input, pre...)
		switch r.Intn(6) {
		case 0:
			input = append(input, 'S')
		case 1:
			input = append(input, 'H')
		case 2:
			input = append(input, '[', '#')
		case 3:
			input = append(input, '{', '#')
		case 4:
			input = append(input, '[', '$', gen.Pick(r, []byte("iUIlLdDSHC[{")), '#')
		default:
			input = append(input, '{', '$', gen.Pick(r, []byte("iUIlLdDSHC[{")), '#')
		}
		if L <= 1<<31-1 && r.Bool() {
			input = append(input, 'l')
			input = binary.BigEndian.AppendUint32(input, uint32(L))
		} else {
			input = append(input, 'L')
			input = binary.BigEndian.AppendUint64(input, L)
		}
	default:
		// JSON has no length fields; the closest thing is a huge exponent or
		// a deep run of openers.
		switch r.Intn(3) {
		case 0:
			input = []byte(fmt.Sprintf("[1e%d", L))
		case 1:
			input = bytes.Repeat([]byte("["), 2000+r.Intn(3000))
		default:
			input = append([]byte(`"`), bytes.Repeat([]byte(`\u`), 50)...)
		}
	}
	input = append(input, tail...)
	eps := []int{epParse, epReaderDecoder, epBytesDecoder, epParseReader}
	for _, ep := range eps {
		desc := c03Case{cd.Name, hexs(input), epNames[ep], nil, 64, "huge-length", hostileTags(cd, input)}
		c.Begin(desc)
		var before, after runtime.MemStats
		runtime.ReadMemStats(&before)
		res := runHostile(c, cd, input, ep, []int{5}, 64)
		runtime.ReadMemStats(&after)
		if !res.ok {
			continue
		}
		alloc := after.TotalAlloc - before.TotalAlloc
		c.ObserveMax("max_alloc_bytes_per_call", int(alloc))
		c.Observe("length_calls", 1)
		limit := uint64(512<<10) + 1024*uint64(len(input)+res.events)
		if alloc > limit {
			c.Violationf("alloc", cd.Name+":alloc-by-length-field", "%s %s allocated %d bytes for %d input bytes announcing length %d (budget %d)\ninput=%s",
				cd.Name, epNames[ep], alloc, len(input), L, limit, hexs(input))
		}
		if res.budget {
			c.Violationf("amplification", cd.Name+":events-out-of-proportion", "%s %s delivered more than %d events for %d input bytes\ninput=%s",
				cd.Name, epNames[ep], 64+8*len(input), len(input), hexs(input))
		}
	}
	c.Nontrivial(gen.Mix(14, uint64(c.Idx%3), gen.HashBytes(input)))
	c.Sample("huge-length", map[string]interface{}{"codec": cd.Name, "input_hex": hexs(input)})
}

func c03Random(c *run.C) {
	r := c.R
	cd := codec.All[c.Idx%3]
	n := r.Range(1, 40)
	if r.P(1, 10) {
		n = r.Range(40, 400)
	}
	var input []byte
	if r.Bool() {
		input = r.Bytes(n)
	} else {
		alpha := gen.Interesting(cd.Name)
		for i := 0; i < n; i++ {
			if r.P(1, 5) {
				input = append(input, r.Byte())
			} else {
				input = append(input, gen.Pick(r, alpha))
			}
		}
	}
	c03One(c, cd, input, "random", []int{epParse, gen.Pick(r, []int{epParseReader, epWrite, epBytesDecoder, epReaderDecoder})}, r)
	c.Nontrivial(gen.Mix(15, uint64(c.Idx%3), gen.HashBytes(input)))
}

func init() {
	run.Register(&run.Check{
		ID:    "C03",
		Level: "exploration",
		Rule: "inputs: all byte strings of length <= 2 and all length-3 strings over each format's marker alphabet (exhaustive); every proper prefix and every single-bit flip of generated valid documents; " +
			"stacked mutations (truncate, flip, marker substitution, insert, delete, 0xff/0x80 runs, swap, duplicate); length/count fields replaced by 2^16..2^64-1 without data; marker-biased and uniform random bytes. " +
			"Each is delivered through Parse, ParseString, ParseReader, Write*, BytesDecoder.Next*, Decoder.Next* with whole / 1-byte / mixed chunking and buffer sizes 1..4096. " +
			"Monitors: panic guard; loop-progress hook (more than 2000 iterations of a feed/Next loop without consuming a byte or delivering an event = hang) plus CPU-time watchdog; event budget 64+8*len; " +
			"TotalAlloc delta around calls with unbacked length fields; truncation verdict: if the reference decoder classifies the input as ending inside a value, every end-aware entry point must return an error other than io.EOF. " +
			"Suite scaling: 64 KiB..2 MiB inputs of extreme shapes (one long string/key/number literal, 10^5..10^6 nesting levels, 10^5..10^6 tiny values or documents, no-op runs, unclosed containers) through 13 delivery modes (whole, 1/3/17/4099-byte writes and reads, decoder buffers 16..65536): " +
			"TotalAlloc delta <= 2 MiB + 96*len + 320*depth (the last term is the monitor's own stack), event budget, loop-progress hook, and a 20 CPU-second watchdog per case that turns super-linear time into a hang verdict (constant work per byte needs < 1 s). " +
			"distinct_nontrivial = distinct (codec, input) among generated inputs; exhaustive blocks count once each.",
		Assumptions: []string{
			"no particular verdict is demanded for malformed-but-not-truncated input",
			"JSON inputs ending in a number-like token that contains a digit (\"1.\", \"1e\") are exempt from the truncation verdict: the library's lenient number forms are not demanded to fail",
			"zero-length reads are not issued by the chunking readers of this check",
		},
		Suites: []*run.Suite{
			{Name: "tiny", N: tierN(3*(257+60), 3*(257+60)), Case: c03Tiny, Require: []string{"tiny_inputs", "returned_error", "returned_success"}},
			{Name: "mutants", N: tierN(150000, 6000000), Case: c03Mutants, Require: []string{"calls", "truncations_reported"}},
			{Name: "prefixes", N: tierN(3000, 60000), Case: c03Prefixes, Require: []string{"prefix_inputs", "truncations_reported"}},
			{Name: "bitflips", N: tierN(1500, 30000), Case: c03BitFlips, Require: []string{"bitflip_inputs"}},
			{Name: "lengths", N: tierN(6000, 150000), Case: c03Lengths, Require: []string{"length_calls"}},
			{Name: "random", N: tierN(150000, 6000000), Case: c03Random},
		},
	})
}
