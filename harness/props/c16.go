package props

import (
	"errors"
	"fmt"
	"io"
	"reflect"

	structform "github.com/elastic/go-structform"
	"github.com/elastic/go-structform/gotype"

	"verif/harness/codec"
	"verif/harness/gen"
	"verif/harness/hook"
	"verif/harness/mon"
	"verif/harness/run"
	"verif/harness/val"
	"verif/harness/zoo"
)

// C16: sink and visitor errors are reported to the caller, promptly and
// unchanged.  Level: fault_enumeration — for every case the fault position k
// ranges over ALL writes / events of the fault-free run.

func c16Stream(r *gen.Rand, idx int) val.Stream {
	short := gen.ShortStreams()
	switch {
	case idx%3 == 0:
		return short[(idx/3)%len(short)]
	case idx%3 == 1:
		// short stream inside a container together with siblings
		s := short[(idx/3)%len(short)]
		out := val.Stream{{K: val.EObjStart, N: 2}, {K: val.EKey, S: "a"}}
		out = append(out, s...)
		out = append(out, val.Event{K: val.EKeyRef, S: "b"}, val.Event{K: val.EString, S: "x\"y"}, val.Event{K: val.EObjEnd})
		return out
	}
	return gen.Stream(r, gen.StreamOpts{MaxDepth: 4, MaxNodes: 25, Extended: true, Refs: true, BadUTF8: true, TypedBasic: true})
}

// encoder side: every write index k.
func c16Encoders(c *run.C) {
	r := c.R
	cd := codec.All[c.Idx%3]
	o := codec.JSONOptsFromIndex(r.Intn(8) | 4)
	s := c16Stream(r, c.Idx/3)
	c.Begin(c01Case{cd.Name, o.Index(), s})
	// fault-free run: count writes
	var w0 mon.CountingWriter
	v0 := cd.NewVisitor(&w0, o)
	var err0 error
	if !c.Guard(cd.Name+".faultfree", func() { err0 = mon.Replay(s, v0, mon.ReplayOpts{}) }) {
		return
	}
	if err0 != nil {
		c.Violationf("encode-error", cd.Name+":encode-error", "%s encoder failed on a healthy sink: %v\nstream=%s", cd.Name, err0, s)
		return
	}
	W := w0.Writes
	c16Weight = streamWeight(s)
	c.ObserveMax("max_writes_per_stream", W)
	for _, k := range faultPositions(c, W) {
		for _, cont := range []bool{false, true} {
			fw := &mon.FailingWriter{K: k, Count: (k + c.Idx/3) % 3}
			v := cd.NewVisitor(fw, o)
			errs := 0
			var first error
			firstAt := -1
			replay := func() {
				mon.Replay(s, v, mon.ReplayOpts{ContinueOnError: cont, After: func(i int, err error) {
					if err != nil {
						errs++
						if first == nil {
							first, firstAt = err, i
						}
					}
				}})
			}
			if cont {
				// a caller that keeps calling after an error drives the encoder
				// outside its contract; a panic AFTER the error was reported is
				// not a lost error.  A panic before any error still is a violation.
				panicked := false
				func() {
					defer func() {
						if rec := recover(); rec != nil {
							panicked = true
							if first == nil {
								c.Violationf("panic", cd.Name+":panic-before-error", "%s encoder panicked on a failing sink before reporting any error: %v\nstream=%s", cd.Name, rec, s)
							}
						}
					}()
					replay()
				}()
				if panicked {
					c.Observe("panics_after_reported_error", 1)
					if first == nil {
						return
					}
				}
			} else if !c.Guard(fmt.Sprintf("%s.failing-writer", cd.Name), replay) {
				return
			}
			c.Observe("encoder_fault_runs", 1)
			if fw.Writes < k {
				// the failing write was never reached: an encoder that buffers its
				// output issues a number of writes that depends on the byte
				// length, and typed map events iterate in random order (another
				// order, other integer widths next to each other, another length)
				c.Observe("fault_positions_not_reached", 1)
				continue
			}
			if first == nil {
				c.Violationf("sink-error-lost", fmt.Sprintf("%s:sink-error-lost:%s", cd.Name, lostAt(s, k, cd, o)), "%s encoder: write #%d of %d failed (and every later one) but all %d events returned nil (continue-after-error=%v)\nstream=%s",
					cd.Name, k, W, len(s), cont, s)
				return
			}
			if !errors.Is(first, mon.ErrSink) {
				c.Observe("sink_error_wrapped_or_replaced", 1)
			}
			_ = firstAt
		}
	}
	c.Observe("encoder_streams", 1)
	c.Observe("encoder_fault_positions", W)
	c.Nontrivial(gen.Mix(uint64(c.Idx%3), gen.HashString(s.String())))
	if len(s) < 8 {
		c.Sample("encoder-faults", map[string]interface{}{"codec": cd.Name, "stream": s.String(), "writes": W})
	}
}

// lostAt names the event during which write k happens in the fault-free
// run (for de-duplication of findings).
func lostAt(s val.Stream, k int, cd *codec.Codec, o codec.JSONOpts) string {
	var w mon.CountingWriter
	v := cd.NewVisitor(&w, o)
	name := "?"
	mon.Replay(s, v, mon.ReplayOpts{After: func(i int, err error) {
		if name == "?" && w.Writes >= k {
			name = s[i].K.String()
		}
	}})
	return name
}

// producer side: parsers with a visitor failing at every event index k.
func c16Parsers(c *run.C) {
	r := c.R
	cd := codec.All[c.Idx%3]
	var doc []byte
	if r.Bool() {
		doc = gen.ForeignDoc(r, cd.Name, 4, 20, false).Bytes
	} else {
		s := gen.Stream(r, gen.StreamOpts{MaxDepth: 4, MaxNodes: 20, Extended: true, Refs: true, BadUTF8: cd.Name != "json", SpecialF: cd.Name != "json"})
		b, err := encode(cd, codec.JSONOptsFromIndex(r.Intn(8)|4), s)
		if err != nil {
			return
		}
		doc = b
	}
	if len(doc) > 600 {
		return
	}
	c.Begin(c02Case{Codec: cd.Name, Doc: hexs(doc)})
	m0, err0 := parseWholeGuarded(c, cd, doc)
	if m0 == nil {
		return
	}
	if err0 != nil {
		c.Observe("docs_rejected", 1)
		return
	}
	E := m0.NEvents
	c16Weight = E
	c.ObserveMax("max_events_per_doc", E)
	for _, k := range faultPositions(c, E) {
		for entry := 0; entry < 5; entry++ {
			m := mon.NewMonitor()
			m.Fail, m.FailErr = k, mon.ErrVisitor
			var err error
			sizes := [][]int{nil, {1}, {3, 1, 7}}[(k+entry)%3]
			// half of the reader runs return the last bytes together with io.EOF
			eofWithData := (k/3+entry)%2 == 0
			// The caller of a pull decoder or of Parser.Write sees the error
			// and may still make its next call (the next Next of its read
			// loop, the next Write of an io.Copy): the property promises that
			// no further event of the refused document reaches the visitor,
			// so those calls are made too and their events counted.
			again := func(d codec.Decoder) {
				err = d.Next()
				if err == nil {
					return
				}
				for i := 0; i < 3; i++ {
					mon.Progress++
					if d.Next() == nil {
						c.Observe("calls_after_error_returning_nil", 1)
					}
					c.Observe("decoder_calls_after_error", 1)
				}
			}
			ok, _ := guardCall(c, fmt.Sprintf("%s.failing-visitor.entry%d", cd.Name, entry), func() int { return m.NEvents }, func() {
				switch entry {
				case 0:
					err = cd.Parse(doc, m.WithRefs())
				case 1:
					_, err = cd.ParseReader(&mon.ChunkReader{Data: doc, Sizes: sizes, EOFWithData: eofWithData}, m.WithRefs())
				case 2:
					again(cd.NewBytesDecoder(doc, m.WithRefs()))
				case 3:
					again(cd.NewDecoder(&mon.ChunkReader{Data: doc, Sizes: sizes, EOFWithData: eofWithData}, []int{16, 1, 4096}[k%3], m.WithRefs()))
				default:
					p := cd.NewParser(m.WithRefs())
					for _, ch := range mon.Chunks(doc, sizes) {
						mon.Progress++
						if _, werr := p.Write(ch); werr != nil {
							if err == nil {
								err = werr
							} else {
								c.Observe("writes_after_error", 1)
							}
						}
					}
					if err == nil {
						// the failing event is delivered only at the end of input
						if ferr, has := hook.Finalize(p); has {
							err = ferr
						} else {
							err = mon.ErrVisitor // without the hook the end of input cannot be signalled
						}
					}
				}
			})
			if !ok {
				return
			}
			c.Observe("parser_fault_runs", 1)
			what := fmt.Sprintf("%s entry %d (sizes %v, eofWithData %v), visitor failing at event %d of %d", cd.Name, entry, sizes, eofWithData, k, E)
			if err == nil || err == io.EOF {
				c.Violationf("visitor-error-lost", fmt.Sprintf("%s:visitor-error-lost:entry%d", cd.Name, entry), "%s: returned %v\ndoc=%s\nevents=%s", what, err, hexs(doc), m0.Events)
				return
			}
			if !errors.Is(err, mon.ErrVisitor) {
				c.Violationf("visitor-error-changed", fmt.Sprintf("%s:visitor-error-changed:entry%d", cd.Name, entry), "%s: returned %q, which is not the visitor's error\ndoc=%s", what, err, hexs(doc))
				return
			}
			if m.After > 0 {
				c.Violationf("events-after-error", fmt.Sprintf("%s:events-after-error:entry%d", cd.Name, entry), "%s: %d further events were delivered after the visitor had failed\ndoc=%s", what, m.After, hexs(doc))
				return
			}
		}
	}
	c.Observe("parser_docs", 1)
	c.Observe("parser_fault_positions", E)
	c.Nontrivial(gen.Mix(160, uint64(c.Idx%3), gen.HashBytes(doc)))
	if len(doc) < 60 {
		c.Sample("parser-faults", map[string]interface{}{"codec": cd.Name, "doc_hex": hexs(doc), "events": E})
	}
}

// adapters: extended events through EnsureExtVisitor into a failing basic
// visitor.
func c16Adapters(c *run.C) {
	r := c.R
	s := c16Stream(r, c.Idx)
	c.Begin(map[string]interface{}{"stream": s})
	m0 := mon.NewMonitor()
	if err := mon.Replay(s, m0.Basic(), mon.ReplayOpts{}); err != nil {
		c.Violationf("adapter-error", "adapter:error", "adapter failed on a healthy sink: %v", err)
		return
	}
	E := m0.NEvents
	c16Weight = E
	for _, k := range faultPositions(c, E) {
		m := mon.NewMonitor()
		m.Fail, m.FailErr = k, mon.ErrVisitor
		var err error
		var sink structform.Visitor = m.Basic()
		if k%2 == 0 {
			sink = m.WithRefs()
		}
		if !c.Guard("adapter.failing-visitor", func() { err = mon.Replay(s, sink, mon.ReplayOpts{}) }) {
			return
		}
		c.Observe("adapter_fault_runs", 1)
		if err == nil {
			c.Violationf("visitor-error-lost", "adapter:visitor-error-lost", "adapter: basic visitor failed at event %d of %d but the extended call sequence returned nil\nstream=%s", k, E, s)
			return
		}
		if !errors.Is(err, mon.ErrVisitor) {
			c.Violationf("visitor-error-changed", "adapter:visitor-error-changed", "adapter returned %q, not the visitor's error", err)
			return
		}
		if m.After > 0 {
			c.Violationf("events-after-error", "adapter:events-after-error", "adapter delivered %d events after the visitor failed at event %d\nstream=%s", m.After, k, s)
			return
		}
	}
	c.Observe("adapter_streams", 1)
	c.Observe("adapter_fault_positions", E)
	c.Nontrivial(gen.Mix(161, gen.HashString(s.String())))
}

var c16Suites = []*run.Suite{
	{Name: "encoders", N: tierN(60000, 1500000), Case: c16Encoders, Require: []string{"encoder_fault_runs", "encoder_streams"}},
	{Name: "parsers", N: tierN(30000, 600000), Case: c16Parsers, Require: []string{"parser_fault_runs", "parser_docs"}},
	{Name: "adapters", N: tierN(20000, 400000), Case: c16Adapters, Require: []string{"adapter_fault_runs"}},
}

func init() {
	run.Register(&run.Check{
		ID:    "C16",
		Level: "fault_enumeration",
		Rule: "for each case the fault position is enumerated exhaustively: encoders — every write index k in 1..W of the fault-free run (failing writer: write k and all later ones fail), two driver disciplines (stop at the first error / keep calling to the last event), " +
			"streams = all well-formed streams of <= 3 events over the 21+31 event kinds, the same inside an object with siblings, and generated trees with extended events; oracle: some event call returns an error. " +
			"producers — every event index k in 1..E (failing visitor returning a sentinel): the three parsers through Parse, chunked ParseReader, BytesDecoder.Next, reader Decoder.Next on foreign and own documents; gotype.Fold of generated (type,value) pairs; " +
			"the EnsureExtVisitor adapters; oracle: the outermost call returns an error for which errors.Is(err, sentinel) holds and the visitor sees 0 events after the failing one. " +
			"distinct_nontrivial = distinct (consumer/producer, stream or document); every one of them was swept over all its fault positions.",
		Assumptions: []string{
			"a sink error may be wrapped or replaced by the encoder as long as some error is reported (the property only demands that nothing is lost silently)",
			"the failing writer keeps failing (as the property states); transient failures are not injected",
		},
		Suites: c16Suites,
	})
}

// producer side: gotype.Fold with a visitor failing at every event index k.
func c16Fold(c *run.C) {
	r := c.R
	var t reflect.Type
	var v reflect.Value
	var opts []gotype.FoldOption
	switch c.Idx % 8 {
	case 0:
		all := append(append([]reflect.Type{}, zoo.Supported...), zoo.FoldOnly...)
		t = all[(c.Idx/8)%len(all)]
		v = (&gen.ValueGen{R: r, O: gen.GoValueOpts{BadUTF8: true, IfaceTypes: []reflect.Type{reflect.TypeOf(zoo.Plain{}), reflect.TypeOf(map[string]int{}), reflect.TypeOf(zoo.FoldVal{})}}}).Value(t, 0)
	case 1:
		t = []reflect.Type{reflect.TypeOf(withReg{}), reflect.TypeOf(withRegInline{}), reflect.TypeOf([]*regB{})}[(c.Idx/8)%3]
		v = (&gen.ValueGen{R: r, O: gen.GoValueOpts{IfaceTypes: []reflect.Type{reflect.TypeOf(regA{}), reflect.TypeOf(0)}}}).Value(t, 0)
		opts = []gotype.FoldOption{gotype.Folders(foldRegA, foldRegB)}
	default:
		t, v = genTypeValue(r, gen.GoTypeOpts{MaxDepth: 3, Arrays: true, Extra: zoo.Supported}, gen.GoValueOpts{BadUTF8: true, SpecialF: true, MaxLen: 3})
	}
	basic := r.Bool()
	c.Begin(goCase{Type: t.String(), Value: valueString(v), How: fmt.Sprintf("failing-visitor basic=%v", basic)})
	m0 := mon.NewMonitor()
	var sink0 structform.Visitor = m0
	if basic {
		sink0 = m0.Basic()
	}
	err0, ok := foldInto(c, v, false, sink0, opts...)
	if !ok || err0 != nil {
		return
	}
	E := m0.NEvents
	if E > 400 {
		return
	}
	c.ObserveMax("max_events_per_fold", E)
	c16Weight = E
	for _, k := range faultPositions(c, E) {
		m := mon.NewMonitor()
		m.Fail, m.FailErr = k, mon.ErrVisitor
		var sink structform.Visitor = m
		if basic {
			sink = m.Basic()
		}
		err, ok := foldInto(c, v, k%2 == 0, sink, opts...)
		if !ok {
			return
		}
		c.Observe("fold_fault_runs", 1)
		if err == nil {
			c.Violationf("visitor-error-lost", "fold:visitor-error-lost", "Fold returned nil although the visitor failed at event %d of %d (%s)\ntype=%s\nvalue=%s", k, E, m0.Events[k-1].K, t, valueString(v))
			return
		}
		if !errors.Is(err, mon.ErrVisitor) {
			c.Violationf("visitor-error-changed", "fold:visitor-error-changed", "Fold returned %q, not the visitor's error (visitor failed at event %d of %d)\ntype=%s", err, k, E, t)
			return
		}
		if m.After > 0 {
			c.Violationf("events-after-error", "fold:events-after-error", "Fold delivered %d further events after the visitor failed at event %d of %d (%s)\ntype=%s\nvalue=%s", m.After, k, E, m0.Events[k-1].K, t, valueString(v))
			return
		}
	}
	c.Observe("fold_values", 1)
	c.Observe("fold_fault_positions", E)
	c.Nontrivial(gen.Mix(162, gen.HashString(t.String()), gen.HashString(valueString(v))))
	if E < 10 {
		c.Sample("fold-faults", map[string]interface{}{"type": t.String(), "value": valueString(v), "events": E})
	}
}

func init() {
	chk := run.Lookup("C16")
	chk.Suites = append(chk.Suites, &run.Suite{Name: "fold", N: tierN(30000, 600000), Case: c16Fold, Require: []string{"fold_fault_runs", "fold_values"}})
}

// faultPositions enumerates the fault positions 1..n.  Up to 1500 positions
// the enumeration is exhaustive; the rare longer runs (typed containers with
// 2^15 / 2^16 elements) take the first and last positions, the powers of two
// and some drawn from the case's generator, within a budget of about two
// million writes / events per case.
func faultPositions(c *run.C, n int) []int {
	// work of one fault run ~ weight of the stream (elements of typed
	// containers included); budget: about 3 million element-runs per case
	w := c16Weight
	if w < n {
		w = n
	}
	if w < 1 {
		w = 1
	}
	maxRuns := 3000000 / w
	if n <= 1500 && n <= maxRuns {
		ks := make([]int, n)
		for i := range ks {
			ks[i] = i + 1
		}
		return ks
	}
	per := maxRuns / 3
	if per < 8 {
		per = 8
	}
	if per > 100 {
		per = 100
	}
	seen := map[int]bool{}
	var ks []int
	add := func(k int) {
		if k >= 1 && k <= n && !seen[k] {
			seen[k] = true
			ks = append(ks, k)
		}
	}
	for i := 1; i <= per; i++ {
		add(i)
		add(n + 1 - i)
	}
	for p := 256; p < n; p *= 2 {
		add(p)
		add(p + 1)
	}
	for i := 0; i < per; i++ {
		add(1 + c.R.Intn(n))
	}
	c.Observe("fault_runs_sampled_positions", 1)
	return ks
}

// c16Weight is the weight (events + elements of typed containers) of the
// stream / document of the current case; set by the case before it
// enumerates fault positions.
var c16Weight int
