package props

import (
	"fmt"
	"reflect"

	structform "github.com/elastic/go-structform"
	"github.com/elastic/go-structform/gotype"

	"verif/harness/codec"
	"verif/harness/gen"
	"verif/harness/hook"
	"verif/harness/mon"
	"verif/harness/ref"
	"verif/harness/run"
	"verif/harness/val"
	"verif/harness/zoo"
)

// C10: extended events mean exactly their expansion into basic events.

// c10Streams builds a sequence of 1..3 values; the first contains the
// extended event under test at a random position, the others follow it in
// the same consumer.
func c10Streams(r *gen.Rand, idx int) []val.Stream {
	kinds := append(append([]val.Kind{}, gen.ExtArrayKinds...), gen.ExtObjectKinds...)
	k := kinds[idx%len(kinds)]
	n := []int{0, 1, -1, -1, 2, 40}[(idx/len(kinds))%6]
	ev := gen.ExtEvent(r, k, n, true, false)
	var first val.Stream
	switch r.Intn(6) {
	case 0:
		first = val.Stream{ev}
	case 1:
		first = val.Stream{{K: val.EArrStart, N: -1}, ev, {K: val.EArrEnd}}
	case 2:
		first = val.Stream{{K: val.EArrStart, N: 3}, {K: val.EStringRef, S: gen.String(r, true)}, ev, {K: val.EInt, I: 5}, {K: val.EArrEnd}}
	case 3:
		first = val.Stream{{K: val.EObjStart, N: 2}, {K: val.EKeyRef, S: gen.Key(r, true)}, ev, {K: val.EKey, S: "z"}, ev, {K: val.EObjEnd}}
	case 4:
		first = val.Stream{{K: val.EObjStart, N: -1}, {K: val.EKey, S: "a"}, {K: val.EArrStart, N: 2}, ev, gen.ExtEvent(r, gen.Pick(r, kinds), -1, true, false), {K: val.EArrEnd}, {K: val.EKeyRef, S: "b"}, {K: val.EBool, B: true}, {K: val.EObjEnd}}
	default:
		// random enclosing tree with extended events sprinkled in
		first = gen.Stream(r, gen.StreamOpts{MaxDepth: 5, MaxNodes: 40, Extended: true, Refs: true, BadUTF8: true, TypedBasic: true})
		first = append(val.Stream{{K: val.EArrStart, N: 2}, ev}, append(first, val.Event{K: val.EArrEnd})...)
	}
	out := []val.Stream{first}
	for i := r.Intn(3); i > 0; i-- {
		out = append(out, gen.Stream(r, gen.StreamOpts{MaxDepth: 3, MaxNodes: 12, Extended: r.Bool(), Refs: true, BadUTF8: true, Container: true}))
	}
	return out
}

func replayAll(streams []val.Stream, v structform.Visitor, expand bool) error {
	for _, s := range streams {
		if expand {
			s = s.Expand(true)
		}
		if err := mon.Replay(s, v, mon.ReplayOpts{ScribbleRefs: true}); err != nil {
			return err
		}
	}
	return nil
}

func c10Encoders(c *run.C) {
	r := c.R
	cd := codec.All[c.Idx%3]
	o := codec.JSONOptsFromIndex(r.Intn(8) | 4)
	streams := c10Streams(r, c.Idx/3)
	c.Begin(map[string]interface{}{"codec": cd.Name, "json_opts": o.Index(), "streams": streams})
	var wa, wb mon.CountingWriter
	va, vb := cd.NewVisitor(&wa, o), cd.NewVisitor(&wb, o)
	var ea, eb error
	if !c.Guard(cd.Name+".extended", func() { ea = replayAll(streams, va, false) }) {
		return
	}
	if !c.Guard(cd.Name+".expanded", func() { eb = replayAll(streams, vb, true) }) {
		return
	}
	if (ea == nil) != (eb == nil) {
		c.Violationf("mismatch", cd.Name+":error-differs", "%s encoder: extended call sequence returned %v, expanded sequence returned %v\nstreams=%v", cd.Name, ea, eb, streams)
		return
	}
	if ea != nil {
		return
	}
	ra, rb := refDecode(cd.Name, wa.Buf), refDecode(cd.Name, wb.Buf)
	if ra.Status != ref.OK || rb.Status != ref.OK {
		c.Violationf("invalid-output", cd.Name+":invalid-output", "%s encoder output rejected by the reference decoder: extended=%s (%s) expanded=%s (%s)\nA=%s\nB=%s\nstreams=%v", cd.Name, ra.Status, ra.Err, rb.Status, rb.Err, hexs(wa.Buf), hexs(wb.Buf), streams)
		return
	}
	if len(ra.Values) != len(rb.Values) || len(ra.Values) != len(streams) {
		c.Violationf("mismatch", cd.Name+":value-count", "%s encoder: %d values via extended events, %d via expansion, %d written\nA=%s\nB=%s", cd.Name, len(ra.Values), len(rb.Values), len(streams), hexs(wa.Buf), hexs(wb.Buf))
		return
	}
	for i := range ra.Values {
		// typed maps iterate in random order: compare without member order where the stream says so
		want := val.Norm(cd.Name, streams[i].Value(), true)
		if d := val.Equal(want, ra.Values[i], val.Mode(cd.Name)); d != "" {
			c.Violationf("mismatch", cd.Name+":extended-value", "%s encoder: value #%d written through extended events decodes differently: %s\nA=%s", cd.Name, i, d, hexs(wa.Buf))
			return
		}
		if d := val.Equal(want, rb.Values[i], val.Mode(cd.Name)); d != "" {
			c.Violationf("mismatch", cd.Name+":expanded-value", "%s encoder: value #%d written through the expansion decodes differently: %s\nB=%s", cd.Name, i, d, hexs(wb.Buf))
			return
		}
	}
	// ... and the same through the library's own parser (the reference
	// decoders forgive what their specification forgives, e.g. encoding/json
	// replaces raw invalid UTF-8; a consumer of the library reads its own
	// parser's events)
	for k, buf := range [][]byte{wa.Buf, wb.Buf} {
		how := [2]string{"extended events", "the expansion"}[k]
		m, perr := parseWholeGuarded(c, cd, buf)
		if m == nil {
			return
		}
		if perr != nil {
			c.Violationf("invalid-output", cd.Name+":own-parser-rejects", "%s parser rejects what the encoder wrote through %s: %v\nbytes=%s\nstreams=%v", cd.Name, how, perr, hexs(buf), streams)
			return
		}
		vs, err := m.Events.Values()
		if err != nil || len(vs) != len(streams) {
			c.Violationf("mismatch", cd.Name+":own-parser-value-count", "%s: %d values (%v) parsed back from what was written through %s, %d written\nbytes=%s", cd.Name, len(vs), err, how, len(streams), hexs(buf))
			return
		}
		for i := range vs {
			want := val.Norm(cd.Name, streams[i].Value(), true)
			if d := val.Equal(want, vs[i], val.Mode(cd.Name)); d != "" {
				c.Violationf("mismatch", cd.Name+":own-parser-value", "%s encoder: value #%d written through %s is parsed back differently by the %s parser: %s\nbytes=%s", cd.Name, i, how, cd.Name, d, hexs(buf))
				return
			}
		}
		c.Observe("own_parser_comparisons", 1)
	}
	if hook.Enabled {
		da, db := hook.Depths(va), hook.Depths(vb)
		if !reflect.DeepEqual(da, db) {
			c.Violationf("state", cd.Name+":depths-differ", "%s encoder is left in another state by the extended calls (stack depths %v) than by their expansion (%v)\nstreams=%v", cd.Name, da, db, streams)
			return
		}
		for _, d := range da {
			if d != 0 {
				c.Violationf("state", cd.Name+":not-idle", "%s encoder stacks are not idle after complete values: %v", cd.Name, da)
				return
			}
		}
		c.Observe("depth_comparisons", 1)
	}
	c.Observe("encoder_pairs_"+cd.Name, 1)
	c.Nontrivial(gen.Mix(uint64(c.Idx%3), gen.HashString(fmt.Sprint(streams))))
	if len(streams[0]) < 8 {
		c.Sample("encoder", map[string]interface{}{"codec": cd.Name, "streams": fmt.Sprint(streams)})
	}
}

// wrapped plain visitors: the events a basic-only sink receives for the
// extended call equal the expansion.
func c10Plain(c *run.C) {
	r := c.R
	streams := c10Streams(r, c.Idx)
	c.Begin(map[string]interface{}{"streams": streams})
	ma, mb := mon.NewMonitor(), mon.NewMonitor()
	var ea, eb error
	if !c.Guard("plain.extended", func() { ea = replayAll(streams, ma.Basic(), false) }) {
		return
	}
	eb = replayAll(streams, mb.Basic(), true)
	if ea != nil || eb != nil {
		c.Violationf("adapter-error", "plain:error", "wrapped plain visitor returned %v / %v", ea, eb)
		return
	}
	if ma.Violation != "" {
		c.Violationf("contract", "plain:contract", "expansion by the adapter violates the contract: %s\nevents=%s", ma.Violation, ma.Events)
		return
	}
	va, erra := ma.Events.Values()
	vb, errb := mb.Events.Values()
	if erra != nil || errb != nil || len(va) != len(vb) {
		c.Violationf("mismatch", "plain:value-count", "adapter expansion: %d values (%v) vs %d (%v)", len(va), erra, len(vb), errb)
		return
	}
	for i := range va {
		// B lost the unordered flag through Expand (sorted keys); A comes in map order
		wa := streams[i].Value()
		if d := val.Equal(wa, va[i], val.NumExact); d != "" {
			c.Violationf("mismatch", "plain:value", "adapter expansion of value #%d describes another value: %s\nevents=%s", i, d, ma.Events)
			return
		}
	}
	if len(ma.Events) != len(mb.Events) {
		c.Violationf("mismatch", "plain:event-count", "adapter expansion delivers %d events, the documented expansion %d\nA=%s\nB=%s", len(ma.Events), len(mb.Events), ma.Events, mb.Events)
		return
	}
	// announced lengths and element types of the expansion
	for i := range ma.Events {
		a, b := ma.Events[i], mb.Events[i]
		if a.K != b.K && !(a.K.IsKey() && b.K.IsKey()) {
			// member order inside typed maps may differ, kinds still alternate key/value identically
			c.Violationf("mismatch", "plain:event-kind", "event #%d: adapter delivers %s, the documented expansion %s\nA=%s\nB=%s", i, a, b, ma.Events, mb.Events)
			return
		}
		if (a.K == val.EArrStart || a.K == val.EObjStart) && (a.N != b.N || a.BT != b.BT) {
			c.Violationf("mismatch", "plain:announcement", "event #%d: adapter announces (%d,%s), the documented expansion (%d,%s)", i, a.N, a.BT, b.N, b.BT)
			return
		}
	}
	c.Observe("plain_pairs", 1)
	c.Nontrivial(gen.Mix(100, gen.HashString(fmt.Sprint(streams))))
}

var c10Suites = []*run.Suite{
	{Name: "encoders", N: tierN(120000, 4000000), Case: c10Encoders, Require: hookedReq([]string{"encoder_pairs_json", "encoder_pairs_ubjson", "encoder_pairs_cborl"}, "depth_comparisons")},
	{Name: "plain", N: tierN(40000, 1200000), Case: c10Plain, Require: []string{"plain_pairs"}},
}

func init() {
	run.Register(&run.Check{
		ID:    "C10",
		Level: "exploration",
		Rule: "each of the 15 typed array and 14 typed map events (nil, empty, 1, 2, 40 and random element counts; boundary numbers; strings with arbitrary bytes) and OnStringRef/OnKeyRef, at top level, inside arrays and objects, next to other extended events, " +
			"inside random enclosing trees, followed by 0..2 further values in the same consumer. Differential on twin fresh consumers: run A passes the extended calls, run B their start/element/finish expansion. " +
			"Encoders (3, JSON under 8 options): reference decoder reads the same values from both byte streams and both equal the stream's value; hook: nesting-stack depths of A and B are equal and idle. " +
			"Wrapped plain visitors: the basic events the adapter delivers equal the documented expansion (kinds, announced length and element type, value). Unfolder: targets of A and B deeply equal, stack depths equal. " +
			"distinct_nontrivial = distinct (consumer, stream sequence).",
		Assumptions: []string{
			"typed-map members are compared without order (Go map iteration)",
			"the documented expansion announces len(payload) and the payload's element type (array.go / map.go)",
		},
		Suites: c10Suites,
	})
}

// unfolder: targets built from the extended call and from its expansion are
// deeply equal, the unfolder is left in the same state.
func c10Unfolder(c *run.C) {
	r := c.R
	kinds := append(append([]val.Kind{}, gen.ExtArrayKinds...), gen.ExtObjectKinds...)
	k := kinds[c.Idx%len(kinds)]
	var streams []val.Stream
	var t reflect.Type
	mode := (c.Idx / len(kinds)) % 4
	if mode == 0 {
		// arbitrary context into interface{}
		streams = c10Streams(r, c.Idx)
		t = gen.TIface
		sel := (c.Idx / (4 * len(kinds))) % 4
		for _, e := range streams[0] {
			if e.K.IsExtObject() && e.X != nil && reflect.ValueOf(e.X).Len() > 1 {
				sel = 0 // typed map events iterate in random order: a log of callbacks cannot be compared
			}
		}
		switch sel {
		case 1:
			// ... or into a target with a user-defined unfold state, which
			// writes down every callback it gets (differential use only)
			t = reflect.TypeOf(zoo.Recorder{})
		case 2:
			t = reflect.TypeOf(struct {
				X zoo.Recorder
				Y string
			}{})
			streams = []val.Stream{append(append(val.Stream{{K: val.EObjStart, N: -1}, {K: val.EKeyRef, S: "x"}}, streams[0]...), val.Event{K: val.EKeyRef, S: "y"}, val.Event{K: val.EStringRef, S: "after"}, val.Event{K: val.EObjEnd})}
		}
	} else {
		ev := gen.ExtEvent(r, k, []int{0, 1, -1, 30}[(c.Idx/(4*len(kinds)))%4], true, true)
		et := val.ElemType(k)
		// typed targets that can hold the payload
		var elems []reflect.Type
		switch et.Kind() {
		case reflect.Bool, reflect.String:
			elems = []reflect.Type{et, gen.TIface}
		case reflect.Float32, reflect.Float64:
			elems = []reflect.Type{reflect.TypeOf(float64(0)), gen.TIface, et}
		case reflect.Int, reflect.Int8, reflect.Int16, reflect.Int32, reflect.Int64:
			elems = []reflect.Type{reflect.TypeOf(int64(0)), et, gen.TIface, reflect.TypeOf(float64(0))}
		default:
			elems = []reflect.Type{reflect.TypeOf(uint64(0)), et, gen.TIface}
		}
		e := elems[r.Intn(len(elems))]
		if k.IsExtArray() {
			t = reflect.SliceOf(e)
		} else {
			t = reflect.MapOf(gen.TString, e)
		}
		switch mode {
		case 1:
			streams = []val.Stream{{ev}}
		case 2:
			// as a struct field, followed by another member
			t = reflect.StructOf([]reflect.StructField{{Name: "X", Type: t}, {Name: "Y", Type: gen.TString}})
			streams = []val.Stream{{{K: val.EObjStart, N: 2}, {K: val.EKeyRef, S: "x"}, ev, {K: val.EKey, S: "y"}, {K: val.EStringRef, S: "after"}, {K: val.EObjEnd}}}
		default:
			// as element of a slice, twice
			t = reflect.SliceOf(t)
			streams = []val.Stream{{{K: val.EArrStart, N: 2}, ev, ev, {K: val.EArrEnd}}}
		}
	}
	// the unfolder is a consumer in every configuration: a third of the cases
	// run with the key cache enabled
	cache := -1
	if r.P(1, 3) {
		cache = gen.Pick(r, []int{0, 1, 2, 8, 64})
	}
	c.Begin(map[string]interface{}{"type": t.String(), "streams": streams, "key_cache": cache})
	byValue := false
	runOne := func(expand bool) (reflect.Value, error, []int, bool) {
		tgt := reflect.New(t)
		u, err := gotype.NewUnfolder(nil)
		if err != nil {
			return tgt, err, nil, true
		}
		if cache >= 0 {
			u.EnableKeyCache(cache)
		}
		var uerr error
		ok := c.Guard(fmt.Sprintf("unfold.expand=%v", expand), func() {
			for _, s := range streams[:1] {
				if uerr = u.SetTarget(tgt.Interface()); uerr != nil {
					return
				}
				if expand {
					s = s.Expand(true)
				}
				if byValue {
					s = normRefs(s) // every by-reference string and key as its by-value event
				}
				if uerr = mon.Replay(s, u, mon.ReplayOpts{ScribbleRefs: true}); uerr != nil {
					return
				}
			}
		})
		return tgt, uerr, hook.Depths(u), ok
	}
	ta, ea, da, ok := runOne(false)
	if !ok {
		return
	}
	tb, eb, db, ok := runOne(true)
	if !ok {
		return
	}
	if (ea == nil) != (eb == nil) {
		c.Violationf("mismatch", "unfolder:error-differs", "unfolder: extended call sequence returned %v, its expansion %v\ntype=%s\nstream=%s", ea, eb, t, streams[0])
		return
	}
	if ea != nil {
		c.Observe("unfolder_pairs_refused", 1)
		return
	}
	if d := eqGoPlain(tb.Elem(), ta.Elem(), "direct", "$"); d != "" {
		c.Violationf("mismatch", "unfolder:value-differs", "target built from the extended events differs from the target built from their expansion: %s\ntype=%s\nstream=%s\nextended=%s\nexpanded=%s", d, t, streams[0], valueString(ta.Elem()), valueString(tb.Elem()))
		return
	}
	// the third way: the same calls with strings and keys passed by value
	byValue = true
	tc, ec, _, ok := runOne(false)
	if !ok {
		return
	}
	if ec != nil {
		c.Violationf("mismatch", "unfolder:byvalue-error", "unfolder accepted the stream with by-reference strings/keys but returned %v when they are passed by value\ntype=%s\nstream=%s", ec, t, streams[0])
		return
	}
	if d := eqGoPlain(tc.Elem(), ta.Elem(), "direct", "$"); d != "" {
		c.Violationf("mismatch", "unfolder:byref-differs", "target built with by-reference strings/keys differs from the target built with the same strings/keys by value: %s\ntype=%s\nstream=%s\nby reference=%s\nby value    =%s", d, t, streams[0], valueString(ta.Elem()), valueString(tc.Elem()))
		return
	}
	if hook.Enabled && !reflect.DeepEqual(da, db) {
		c.Violationf("state", "unfolder:depths-differ", "unfolder is left in another state by the extended calls (%v) than by their expansion (%v)\ntype=%s\nstream=%s", da, db, t, streams[0])
		return
	}
	c.Observe("unfolder_pairs", 1)
	if cache >= 0 {
		c.Observe("unfolder_pairs_with_key_cache", 1)
	}
	if mode != 0 {
		c.Observe("unfolder_typed_pairs", 1)
	}
	if t == reflect.TypeOf(zoo.Recorder{}) || (t.Kind() == reflect.Struct && t.NumField() == 2 && t.Field(0).Type == reflect.TypeOf(zoo.Recorder{})) {
		c.Observe("unfolder_pairs_into_user_unfold_state", 1)
	}
	c.Nontrivial(gen.Mix(101, gen.HashString(t.String()), gen.HashString(streams[0].String())))
}

func init() {
	chk := run.Lookup("C10")
	chk.Suites = append(chk.Suites, &run.Suite{Name: "unfolder", N: tierN(60000, 2000000), Case: c10Unfolder, Require: []string{"unfolder_pairs", "unfolder_typed_pairs"}})
}
