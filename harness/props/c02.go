package props

import (
	"fmt"
	"io"

	"verif/harness/codec"
	"verif/harness/gen"
	"verif/harness/hook"
	"verif/harness/mon"
	"verif/harness/ref"
	"verif/harness/run"
	"verif/harness/val"
)

// C02: parser output is independent of chunking.

type parseOutcome struct {
	events val.Stream
	err    error
	ok     bool // call returned (no panic/hang)
}

// normRefs maps by-reference delivery onto by-value delivery: whether a
// string arrives as OnString or OnStringRef legitimately depends on where
// the chunk boundary fell.
func normRefs(s val.Stream) val.Stream {
	out := make(val.Stream, len(s))
	for i, e := range s {
		switch e.K {
		case val.EStringRef:
			e.K = val.EString
		case val.EKeyRef:
			e.K = val.EKey
		}
		out[i] = e
	}
	return out
}

func sameEvents(a, b val.Stream) string {
	a, b = normRefs(a), normRefs(b)
	n := len(a)
	if len(b) < n {
		n = len(b)
	}
	for i := 0; i < n; i++ {
		x, y := a[i], b[i]
		if x.K != y.K || x.N != y.N || x.BT != y.BT || x.B != y.B || x.I != y.I || x.U != y.U || x.F != y.F || x.S != y.S {
			return fmt.Sprintf("event #%d differs: %s vs %s", i, x, y)
		}
	}
	if len(a) != len(b) {
		return fmt.Sprintf("event count differs: %d vs %d", len(a), len(b))
	}
	return ""
}

func refDecode(codecName string, b []byte) ref.Result {
	switch codecName {
	case "json":
		return ref.DecodeJSON(b)
	case "cborl":
		return ref.DecodeCBOR(b)
	}
	return ref.DecodeUBJSON(b)
}

// parseVia runs one entry point over the chunked document.
//
//	entry 0: Parse(whole)            (sizes ignored)
//	entry 1: ParseReader(ChunkReader)
//	entry 2: NewParser, Write(chunk)*, end of input (hook)
func parseVia(c *run.C, cd *codec.Codec, doc []byte, sizes []int, entry int, eofWithData bool) parseOutcome {
	var out parseOutcome
	m := mon.NewMonitor()
	m.Budget = 64 + 16*len(doc)
	what := fmt.Sprintf("%s.entry%d", cd.Name, entry)
	ok, _ := guardCall(c, what, func() int { return m.NEvents }, func() {
		switch entry {
		case 0:
			out.err = cd.Parse(append([]byte{}, doc...), m.WithRefs())
		case 1:
			rd := &mon.ChunkReader{Data: doc, Sizes: sizes, EOFWithData: eofWithData}
			_, out.err = cd.ParseReader(rd, m.WithRefs())
		case 2:
			p := cd.NewParser(m.WithRefs())
			for _, ch := range mon.Chunks(doc, sizes) {
				mon.Progress++
				n, err := p.Write(ch)
				mon.Scribble(ch)
				if err != nil {
					out.err = err
					return
				}
				if n != len(ch) {
					out.err = fmt.Errorf("short write %d of %d", n, len(ch))
					return
				}
			}
			if err, has := hook.Finalize(p); has {
				out.err = err
			}
		case 3, 4:
			// pull decoders: Next until io.EOF (entry 3: from a reader whose
			// buffer size is sizes[0] if given, entry 4: from the bytes)
			var d codec.Decoder
			if entry == 3 {
				buf := 64
				if len(sizes) > 0 && sizes[0] > 0 {
					buf = sizes[0]
				}
				d = cd.NewDecoder(&mon.ChunkReader{Data: doc, Sizes: sizes, EOFWithData: eofWithData}, buf, m.WithRefs())
			} else {
				d = cd.NewBytesDecoder(exactCopy(doc), m.WithRefs())
			}
			for i := 0; i <= len(doc)+2; i++ {
				mon.Progress++
				if err := d.Next(); err != nil {
					if err != io.EOF {
						out.err = err
					}
					return
				}
			}
			out.err = fmt.Errorf("verif: decoder did not reach io.EOF")
		}
	})
	out.ok = ok
	out.events = m.Events
	return out
}

type c02Case struct {
	Codec  string `json:"codec"`
	Origin string `json:"origin"`
	Doc    string `json:"doc_hex"`
	Sizes  []int  `json:"sizes,omitempty"`
	Entry  int    `json:"entry,omitempty"`
}

// c02Doc picks the document of a case.
func c02Doc(r *gen.Rand, cd *codec.Codec, short bool, maxLen int) gen.Doc {
	kind := r.Intn(12)
	var d gen.Doc
	switch {
	case kind < 4: // foreign
		if short {
			d = gen.ShortForeignDoc(r, cd.Name, maxLen)
		} else {
			d = gen.ForeignDoc(r, cd.Name, 5, 40, false)
		}
	case kind < 7: // own encoder output
		for try := 0; ; try++ {
			nodes := 40
			if short {
				nodes = 2 + r.Intn(3)
			}
			s := gen.Stream(r, gen.StreamOpts{MaxDepth: 4, MaxNodes: nodes, Extended: true, Refs: true, BadUTF8: cd.Name != "json", SpecialF: cd.Name != "json"})
			b, err := encode(cd, codec.JSONOptsFromIndex(r.Intn(8)|4), s)
			if err != nil {
				continue
			}
			if !short || len(b) <= maxLen || try > 100 {
				if short && len(b) > maxLen {
					b = b[:maxLen] // becomes an invalid (truncated) document: verdict-only
					d = gen.Doc{Codec: cd.Name, Bytes: b, Origin: "own-truncated"}
				} else {
					d = gen.Doc{Codec: cd.Name, Bytes: b, Values: []val.V{val.Norm(cd.Name, s.Value(), true)}, Origin: "own"}
				}
				break
			}
		}
	case kind < 8: // stream of several documents
		n := r.Range(2, 3)
		var b []byte
		var vs []val.V
		for i := 0; i < n; i++ {
			var x gen.Doc
			if short {
				x = gen.ShortForeignDoc(r, cd.Name, maxLen/n)
			} else {
				x = gen.ForeignDoc(r, cd.Name, 3, 15, true)
			}
			if cd.Name == "json" && i > 0 {
				b = append(b, ' ')
			}
			b = append(b, x.Bytes...)
			vs = append(vs, x.Values...)
		}
		d = gen.Doc{Codec: cd.Name, Bytes: b, Values: vs, Origin: "foreign-stream"}
	default: // hostile
		var base gen.Doc
		if short {
			base = gen.ShortForeignDoc(r, cd.Name, maxLen)
		} else {
			base = gen.ForeignDoc(r, cd.Name, 4, 25, false)
		}
		b, how := gen.Mutate(r, base.Bytes, gen.Interesting(cd.Name))
		if short && len(b) > maxLen {
			b = b[:maxLen]
		}
		d = gen.Doc{Codec: cd.Name, Bytes: b, Origin: "hostile:" + how}
	}
	return d
}

// checkSchedules compares every schedule with the whole-buffer parse.
func c02Check(c *run.C, cd *codec.Codec, d gen.Doc, schedules [][]int) {
	doc := d.Bytes
	whole := parseVia(c, cd, doc, nil, 0, false)
	if !whole.ok {
		return
	}
	if whole.err == mon.ErrBudget {
		// event amplification (zero-width typed UBJSON containers) is C03's
		// business; replaying it under thousands of schedules only burns time
		c.Observe("docs_skipped_amplification", 1)
		return
	}
	valid := whole.err == nil
	if valid {
		c.Observe("docs_accepted", 1)
	} else {
		c.Observe("docs_rejected", 1)
	}
	split := 0
	for si, sizes := range schedules {
		// does a cut fall strictly inside a token?
		pos := 0
		inside := false
		for _, s := range sizes[:len(sizes)-1] {
			pos += s
			for _, t := range d.Tokens {
				if pos > t[0] && pos < t[1] {
					inside = true
				}
			}
		}
		if inside {
			split++
		}
		for entry := 1; entry <= 2; entry++ {
			if entry == 2 && !hook.Enabled {
				continue
			}
			eofWithData := entry == 1 && si%3 == 1
			o := parseVia(c, cd, doc, sizes, entry, eofWithData)
			if !o.ok {
				c.Begin(c02Case{cd.Name, d.Origin, hexs(doc), sizes, entry})
				return
			}
			c.Observe("schedules_run", 1)
			if (o.err == nil) != valid {
				c.Begin(c02Case{cd.Name, d.Origin, hexs(doc), sizes, entry})
				c.Violationf("verdict", fmt.Sprintf("%s:verdict:entry%d:whole=%v", cd.Name, entry, valid),
					"%s: whole-buffer Parse returned %v but entry %d with chunk sizes %v returned %v\ndoc=%s", cd.Name, whole.err, entry, sizes, o.err, hexs(doc))
				return
			}
			if valid {
				if diff := sameEvents(whole.events, o.events); diff != "" {
					c.Begin(c02Case{cd.Name, d.Origin, hexs(doc), sizes, entry})
					c.Violationf("events", fmt.Sprintf("%s:events:entry%d", cd.Name, entry),
						"%s: events depend on chunking (entry %d, sizes %v): %s\ndoc=%s\nwhole  =%s\nchunked=%s", cd.Name, entry, sizes, diff, hexs(doc), whole.events, o.events)
					return
				}
			}
		}
	}
	c.Observe("schedules_splitting_a_token", split)
}

func allCutSets(n int) [][]int {
	if n <= 1 {
		return [][]int{{n}}
	}
	var out [][]int
	for mask := 0; mask < 1<<(n-1); mask++ {
		var cuts []int
		for i := 0; i < n-1; i++ {
			if mask&(1<<i) != 0 {
				cuts = append(cuts, i+1)
			}
		}
		out = append(out, mon.Cuts(n, cuts))
	}
	return out
}

// tiny: every byte string of length <= 3 over the format's marker alphabet
// under all cut sets (verdict and, if accepted, events).
func c02Tiny(c *run.C) {
	cd := codec.All[c.Idx%3]
	alpha := gen.Interesting(cd.Name)
	a := c.Idx / 3
	if a >= len(alpha) {
		return
	}
	n := 0
	for _, x := range alpha {
		for _, y := range alpha {
			doc := []byte{alpha[a], x, y}
			c02Check(c, cd, gen.Doc{Codec: cd.Name, Bytes: doc, Origin: "tiny3"}, allCutSets(3))
			n++
		}
		c02Check(c, cd, gen.Doc{Codec: cd.Name, Bytes: []byte{alpha[a], x}, Origin: "tiny2"}, allCutSets(2))
	}
	c.Observe("tiny_docs", n)
	c.Nontrivial(gen.Mix(20, uint64(c.Idx)))
}

func c02Exhaustive(c *run.C) {
	r := c.R
	cd := codec.All[c.Idx%3]
	maxLen := 11
	if c.Thorough() {
		maxLen = 14
	}
	d := c02Doc(r, cd, true, maxLen)
	c.Begin(c02Case{Codec: cd.Name, Origin: d.Origin, Doc: hexs(d.Bytes)})
	sch := allCutSets(len(d.Bytes))
	c02Check(c, cd, d, sch)
	c.Observe("exhaustive_docs", 1)
	c.Nontrivial(gen.Mix(uint64(c.Idx%3), gen.HashBytes(d.Bytes)))
	if len(d.Bytes) > 5 {
		c.Sample("exhaustive", map[string]interface{}{"codec": cd.Name, "origin": d.Origin, "doc_hex": hexs(d.Bytes), "schedules": len(sch)})
	}
}

func systematicSchedules(r *gen.Rand, n int, tokens [][2]int) [][]int {
	var out [][]int
	if n <= 1 {
		return [][]int{{n}}
	}
	// every single cut
	for i := 1; i < n && i < 400; i++ {
		out = append(out, mon.Cuts(n, []int{i}))
	}
	// fixed strides
	for _, st := range []int{1, 2, 3, 4, 5, 7, 8, 16, 63, 64, 65} {
		var cuts []int
		for i := st; i < n; i += st {
			cuts = append(cuts, i)
		}
		out = append(out, mon.Cuts(n, cuts))
	}
	// pairs of cuts for short docs
	if n <= 48 {
		for i := 1; i < n; i++ {
			for j := i + 1; j < n; j++ {
				out = append(out, mon.Cuts(n, []int{i, j}))
			}
		}
	}
	// random cut sets incl. empty chunks
	for k := 0; k < 24; k++ {
		var cuts []int
		p := r.Range(1, 6)
		for i := 1; i < n; i++ {
			if r.P(1, p) {
				cuts = append(cuts, i)
			}
		}
		sizes := mon.Cuts(n, cuts)
		if r.Bool() {
			// sprinkle empty chunks
			var s2 []int
			for _, s := range sizes {
				if r.P(1, 4) {
					s2 = append(s2, 0)
				}
				s2 = append(s2, s)
			}
			if r.Bool() {
				s2 = append(s2, 0)
			}
			// the last entry must carry the remaining bytes for Cuts-style accounting
			sizes = s2
		}
		out = append(out, sizes)
	}
	// cuts inside tokens: first/last byte of each token
	for _, t := range tokens {
		if t[1]-t[0] >= 2 && len(out) < 2000 {
			out = append(out, mon.Cuts(n, []int{t[0] + 1}))
			if t[1]-1 > t[0]+1 {
				out = append(out, mon.Cuts(n, []int{t[0] + 1, t[1] - 1}))
			}
		}
	}
	return out
}

func c02Systematic(c *run.C) {
	r := c.R
	cd := codec.All[c.Idx%3]
	d := c02Doc(r, cd, false, 0)
	if len(d.Bytes) > 1500 {
		d.Bytes = d.Bytes[:1500]
		d.Values, d.Tokens = nil, nil
		d.Origin += "+cut"
	}
	c.Begin(c02Case{Codec: cd.Name, Origin: d.Origin, Doc: hexs(d.Bytes)})
	sch := systematicSchedules(r, len(d.Bytes), d.Tokens)
	c02Check(c, cd, d, sch)
	c.Observe("systematic_docs", 1)
	c.Nontrivial(gen.Mix(uint64(c.Idx%3), gen.HashBytes(d.Bytes)))
	c.Sample("systematic", map[string]interface{}{"codec": cd.Name, "origin": d.Origin, "doc_len": len(d.Bytes), "schedules": len(sch)})
}

var _ = io.EOF

func init() {
	run.Register(&run.Check{
		ID:    "C02",
		Level: "exploration",
		Rule: "documents: foreign-generator output, the library's own encoder output, concatenated streams and mutated (invalid) documents of each format. " +
			"suite tiny: ALL byte strings of length <= 3 over each format's marker alphabet x all cut sets; suite exhaustive: documents of <= 11 (quick) / 14 (thorough) bytes built to contain multi-byte tokens x ALL 2^(n-1) cut sets; suite systematic: longer documents x every single cut, " +
			"all pairs of cuts (n<=48), strides 1..65, random cut sets with empty chunks, cuts at the first/last byte of every token. Entry points: ParseReader(chunking reader, incl. data together with io.EOF) " +
			"and Write*+end-of-input (hook; chunks scribbled after each Write). Oracle: event list and accept/reject equal those of the whole-buffer Parse (verdict only for rejected documents). " +
			"suite large: 64 KiB..2 MiB documents of extreme shapes (long strings/keys/literals, 10^5..10^6 nesting levels or tiny values, many concatenated documents) x 12 delivery modes (ParseString, 1/3/4099-byte writes, 1/17-byte reads, bytes decoder, reader decoders with buffers 16..65536): event count, completed documents and a hash of the CBOR re-encoding of the events equal those of Parse. " +
			"distinct_nontrivial = distinct (codec, document) pairs.",
		Assumptions: []string{
			"OnString vs OnStringRef (by-value vs by-reference delivery) is normalised away; it legitimately depends on the chunk boundary",
			"for rejected documents only the verdict is compared (quantifier of C02)",
			"the Write*+end entry point needs the verif hook VerifFinalize; without it only ParseReader is exercised",
		},
		Suites: []*run.Suite{
			{Name: "tiny", N: tierN(3*60, 3*60), Case: c02Tiny, Require: []string{"tiny_docs"}},
			{Name: "exhaustive", N: tierN(9000, 60000), Case: c02Exhaustive, Require: []string{"schedules_run", "schedules_splitting_a_token", "docs_accepted", "docs_rejected"}},
			{Name: "systematic", N: tierN(3000, 60000), Case: c02Systematic, Require: []string{"schedules_run", "schedules_splitting_a_token"}},
		},
	})
}
