package props

import (
	"fmt"
	"reflect"

	"github.com/elastic/go-structform/gotype"

	"verif/harness/gen"
	"verif/harness/run"
	"verif/harness/val"
	"verif/harness/zoo"
)

// C13, targets that already hold data.  The property speaks of fields the
// stream does not mention (untouched); what the stream DOES mention is
// assigned: a null element overwrites the element that was there, and
// elements beyond the current length of a slice are new elements, whatever
// the backing array still holds from an earlier, longer document.

func nulls(n int, known bool) val.Stream {
	l := -1
	if known {
		l = n
	}
	s := val.Stream{{K: val.EArrStart, N: l}}
	for i := 0; i < n; i++ {
		s = append(s, val.Event{K: val.ENil})
	}
	return append(s, val.Event{K: val.EArrEnd})
}

func emptyObjects(n int, known bool) val.Stream {
	l := -1
	if known {
		l = n
	}
	s := val.Stream{{K: val.EArrStart, N: l}}
	for i := 0; i < n; i++ {
		ol := -1
		if known {
			ol = 0
		}
		s = append(s, val.Event{K: val.EObjStart, N: ol}, val.Event{K: val.EObjEnd})
	}
	return append(s, val.Event{K: val.EArrEnd})
}

func c13Prefilled(c *run.C) {
	r := c.R
	path := c11Paths[c.Idx%4]
	mode := (c.Idx / 4) % 2
	tg := gen.NewTypeGen(r, gen.GoTypeOpts{MaxDepth: 3, InlineStructOnly: true, Extra: zoo.Supported})
	var et reflect.Type
	if mode == 0 {
		// nillable element kinds
		switch r.Intn(6) {
		case 0:
			et = reflect.PtrTo(tg.Type(1))
		case 1:
			et = reflect.PtrTo(tg.Struct(1))
		case 2:
			et = reflect.SliceOf(tg.Type(1))
		case 3:
			et = reflect.MapOf(gen.TString, tg.Type(1))
		case 4:
			et = gen.TIface
		default:
			et = reflect.PtrTo(reflect.PtrTo(tg.Type(2)))
		}
	} else {
		// object element kinds
		switch r.Intn(3) {
		case 0:
			et = tg.Struct(1)
		case 1:
			et = reflect.MapOf(gen.TString, tg.Type(1))
		default:
			et = reflect.TypeOf(zoo.Plain{})
		}
	}
	st := reflect.SliceOf(et)
	wrap := r.Bool()
	t := st
	if wrap {
		t = reflect.StructOf([]reflect.StructField{{Name: "Before", Type: reflect.TypeOf(0)}, {Name: "L", Type: st}, {Name: "After", Type: gen.TString}})
	}
	// previous content: a slice of 2..5 non-zero elements
	vg := &gen.ValueGen{R: r, O: gen.GoValueOpts{MaxLen: 3}}
	k := r.Range(2, 5)
	prev := reflect.MakeSlice(st, k, k+r.Intn(3))
	for i := 0; i < k; i++ {
		for try := 0; try < 8; try++ {
			e := vg.Value(et, 1)
			prev.Index(i).Set(e)
			if !e.IsZero() {
				break
			}
		}
	}
	target := reflect.New(t)
	sl := target.Elem()
	if wrap {
		sl = target.Elem().Field(1)
		target.Elem().Field(0).SetInt(7)
		target.Elem().Field(2).SetString("after")
	}
	sl.Set(deepCopy(prev))
	c.Begin(map[string]interface{}{"path": path, "mode": mode, "type": t.String(), "previous": valueString(prev), "wrapped": wrap})

	u, err := gotype.NewUnfolder(target.Interface())
	if err != nil {
		c.Violationf("refused-supported", "prefilled:refused", "NewUnfolder refused a supported target: %v\ntype=%s", err, t)
		return
	}
	wrapDoc := func(s val.Stream) val.Stream {
		if !wrap {
			return s
		}
		out := val.Stream{{K: val.EObjStart, N: -1}, {K: val.EKey, S: "l"}}
		out = append(out, s...)
		return append(out, val.Event{K: val.EObjEnd})
	}
	feed := func(s val.Stream, what string) bool {
		u.Reset()
		if err := u.SetTarget(target.Interface()); err != nil {
			c.Violationf("unfold-error", "prefilled:settarget", "SetTarget failed: %v", err)
			return false
		}
		err, ok := feedUnfolder(c, u, wrapDoc(s), path)
		if !ok {
			return false
		}
		if err != nil {
			c.Violationf("unfold-error", "prefilled:"+path+":"+what, "unfolding %s into a target that already holds data failed: %v\ntype=%s\nprevious=%s", what, err, t, valueString(prev))
			return false
		}
		return true
	}
	known := r.Bool()
	if mode == 0 {
		// every element of the previous content is overwritten by null
		n := k
		if !feed(nulls(n, known), "nulls") {
			return
		}
		got := sl
		if wrap {
			got = target.Elem().Field(1)
		}
		if got.Len() != n {
			c.Violationf("mismatch", "prefilled:null:len", "after unfolding %d nulls into a slice of %d elements the slice has %d elements\ntype=%s", n, k, got.Len(), t)
			return
		}
		for i := 0; i < n; i++ {
			if !got.Index(i).IsZero() {
				c.Violationf("mismatch", "prefilled:null-not-assigned", "element %d of the target slice still holds its previous content after the stream delivered null for it (%s)\ntype=%s\nprevious=%s\ngot     =%s", i, path, t, valueString(prev), valueString(got))
				return
			}
		}
		c.Observe("prefilled_null_elements_assigned", n)
	} else {
		// doc 1: empty array (the slice shrinks to length 0, the backing array stays);
		// doc 2: j empty objects = j new elements
		if !feed(val.Stream{{K: val.EArrStart, N: map[bool]int{true: 0, false: -1}[known]}, {K: val.EArrEnd}}, "empty-array") {
			return
		}
		got := sl
		if wrap {
			got = target.Elem().Field(1)
		}
		if got.Len() != 0 {
			c.Violationf("mismatch", "prefilled:shrink", "after unfolding an empty array the target slice still has %d elements\ntype=%s", got.Len(), t)
			return
		}
		j := r.Range(1, k)
		if !feed(emptyObjects(j, known), "empty-objects") {
			return
		}
		if wrap {
			got = target.Elem().Field(1)
		} else {
			got = target.Elem()
		}
		if got.Len() != j {
			c.Violationf("mismatch", "prefilled:grow:len", "after unfolding %d empty objects the slice has %d elements\ntype=%s", j, got.Len(), t)
			return
		}
		for i := 0; i < j; i++ {
			e := got.Index(i)
			empty := e.IsZero() || (e.Kind() == reflect.Map && e.Len() == 0)
			if !empty {
				c.Violationf("mismatch", "prefilled:stale-element", "element %d, new after the slice had shrunk to length 0, holds data of an earlier document (backing array not cleared) (%s)\ntype=%s\nearlier=%s\ngot    =%s", i, path, t, valueString(prev), valueString(got))
				return
			}
		}
		c.Observe("prefilled_regrown_elements_clean", j)
	}
	if wrap && (target.Elem().Field(0).Int() != 7 || target.Elem().Field(2).String() != "after") {
		c.Violationf("mismatch", "prefilled:untouched", "fields the stream does not mention were changed: %s", valueString(target.Elem()))
		return
	}
	c.Observe(fmt.Sprintf("prefilled_mode%d_%s", mode, path), 1)
	c.Nontrivial(gen.Mix(135, uint64(mode), gen.HashString(t.String()), gen.HashString(valueString(prev))))
	if c.Idx < 40 {
		c.Sample("prefilled", map[string]interface{}{"mode": mode, "type": t.String(), "previous": valueString(prev)})
	}
}

func init() {
	run.Lookup("C13").Suites = append(run.Lookup("C13").Suites, &run.Suite{
		Name: "prefilled", N: tierN(40000, 1200000), Case: c13Prefilled,
		Require: []string{"prefilled_null_elements_assigned", "prefilled_regrown_elements_clean"},
	})
}
