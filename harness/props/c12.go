package props

import (
	"fmt"
	"reflect"
	"sort"
	"strings"

	structform "github.com/elastic/go-structform"
	"github.com/elastic/go-structform/gotype"

	"verif/harness/gen"
	"verif/harness/model"
	"verif/harness/mon"
	"verif/harness/run"
	"verif/harness/val"
	"verif/harness/zoo"
)

// C12: folding a Go value emits exactly the value defined by the documented
// tag rules.  (The same folds feed the contract automaton of C09.)

type goCase struct {
	Type  string   `json:"type"`
	Value string   `json:"value"`
	How   string   `json:"how,omitempty"`
	Tags  []string `json:"tags,omitempty"`
}

func typeTags(t reflect.Type) []string {
	var tags []string
	for f := range model.Features(t) {
		tags = append(tags, "type:"+f)
	}
	sort.Strings(tags)
	return tags
}

func valueString(v reflect.Value) string {
	s := fmt.Sprintf("%#v", v.Interface())
	if len(s) > 1500 {
		s = s[:1500] + "…"
	}
	return s
}

// genTypeValue draws a (type, value) pair.
func genTypeValue(r *gen.Rand, to gen.GoTypeOpts, vo gen.GoValueOpts) (reflect.Type, reflect.Value) {
	tg := gen.NewTypeGen(r, to)
	var t reflect.Type
	if r.P(3, 4) {
		t = tg.Struct(0)
	} else {
		t = tg.Type(0)
	}
	vg := &gen.ValueGen{R: r, O: vo}
	return t, vg.Value(t, 0)
}

// foldInto folds v (as value or through a pointer) into sink.
func foldInto(c *run.C, v reflect.Value, viaPtr bool, sink structform.Visitor, opts ...gotype.FoldOption) (err error, ok bool) {
	var arg interface{}
	if viaPtr {
		p := reflect.New(v.Type())
		p.Elem().Set(v)
		arg = p.Interface()
	} else {
		arg = v.Interface()
	}
	ok = c.Guard("gotype.Fold", func() { err = gotype.Fold(arg, sink, opts...) })
	return err, ok
}

// registered custom folders used by the "registered" suite
type regA struct{ N int }
type regB struct{ S string }

func foldRegA(in *regA, v structform.ExtVisitor) error {
	if in == nil {
		return v.OnNil()
	}
	if err := v.OnObjectStart(1, structform.AnyType); err != nil {
		return err
	}
	if err := v.OnKey("reg_n"); err != nil {
		return err
	}
	if err := v.OnInt(in.N * 2); err != nil {
		return err
	}
	return v.OnObjectFinished()
}

func foldRegB(in *regB, v structform.ExtVisitor) error {
	if in == nil {
		return v.OnNil()
	}
	return v.OnString("B<" + in.S + ">")
}

var regConfig = &model.Config{Registered: map[reflect.Type]func(reflect.Value) val.V{
	reflect.TypeOf(regA{}): func(v reflect.Value) val.V {
		return val.V{K: val.Obj, Keys: []string{"reg_n"}, A: []val.V{val.VInt(v.Field(0).Int() * 2)}}
	},
	reflect.TypeOf(&regA{}): func(v reflect.Value) val.V {
		if v.IsNil() {
			return val.VNil()
		}
		return val.V{K: val.Obj, Keys: []string{"reg_n"}, A: []val.V{val.VInt(v.Elem().Field(0).Int() * 2)}}
	},
	reflect.TypeOf(regB{}): func(v reflect.Value) val.V { return val.VStr("B<" + v.Field(0).String() + ">") },
	reflect.TypeOf(&regB{}): func(v reflect.Value) val.V {
		if v.IsNil() {
			return val.VNil()
		}
		return val.VStr("B<" + v.Elem().Field(0).String() + ">")
	},
}}

// pointer-shaped types (a map; a struct whose only field is a pointer): their
// reflect.Value holds the value itself in its data word, not its address
type regC map[string]string
type regD struct{ P *int }

func foldRegC(in *regC, v structform.ExtVisitor) error {
	if in == nil {
		return v.OnNil()
	}
	return v.OnInt(len(*in) + 100)
}

func foldRegD(in *regD, v structform.ExtVisitor) error {
	if in == nil {
		return v.OnNil()
	}
	if in.P == nil {
		return v.OnString("D<nil>")
	}
	return v.OnString(fmt.Sprintf("D<%d>", *in.P))
}

// further pointer-shaped wrappers: one map field, a nested one-field struct
// around a pointer, a one-element array of pointers
type regE struct{ M map[string]string }
type regF struct{ R struct{ P *int } }
type regG [1]*int

func foldRegE(in *regE, v structform.ExtVisitor) error {
	if in == nil {
		return v.OnNil()
	}
	return v.OnInt(len(in.M) + 200)
}

func ptrStr(tag string, p *int) string {
	if p == nil {
		return tag + "<nil>"
	}
	return fmt.Sprintf("%s<%d>", tag, *p)
}

func foldRegF(in *regF, v structform.ExtVisitor) error {
	if in == nil {
		return v.OnNil()
	}
	return v.OnString(ptrStr("F", in.R.P))
}

func foldRegG(in *regG, v structform.ExtVisitor) error {
	if in == nil {
		return v.OnNil()
	}
	return v.OnString(ptrStr("G", in[0]))
}

func init() {
	ptrOr := func(f func(reflect.Value) val.V) func(reflect.Value) val.V {
		return func(v reflect.Value) val.V {
			if v.IsNil() {
				return val.VNil()
			}
			return f(v.Elem())
		}
	}
	ip := func(p reflect.Value) *int {
		if p.IsNil() {
			return nil
		}
		return p.Interface().(*int)
	}
	me := func(v reflect.Value) val.V { return val.VInt(int64(v.Field(0).Len() + 200)) }
	mf := func(v reflect.Value) val.V { return val.VStr(ptrStr("F", ip(v.Field(0).Field(0)))) }
	mg := func(v reflect.Value) val.V { return val.VStr(ptrStr("G", ip(v.Index(0)))) }
	regConfig.Registered[reflect.TypeOf(regE{})] = me
	regConfig.Registered[reflect.TypeOf(&regE{})] = ptrOr(me)
	regConfig.Registered[reflect.TypeOf(regF{})] = mf
	regConfig.Registered[reflect.TypeOf(&regF{})] = ptrOr(mf)
	regConfig.Registered[reflect.TypeOf(regG{})] = mg
	regConfig.Registered[reflect.TypeOf(&regG{})] = ptrOr(mg)
}

type withReg3 struct {
	E  regE
	F  regF
	G  regG
	ME map[string]regE
	MF map[string]regF
	LG []regG
	I  interface{}
	J  []interface{}
	Z  int
}

func modelRegD(v reflect.Value) val.V {
	p := v.Field(0)
	if p.IsNil() {
		return val.VStr("D<nil>")
	}
	return val.VStr(fmt.Sprintf("D<%d>", p.Elem().Int()))
}

func init() {
	ptrOr := func(f func(reflect.Value) val.V) func(reflect.Value) val.V {
		return func(v reflect.Value) val.V {
			if v.IsNil() {
				return val.VNil()
			}
			return f(v.Elem())
		}
	}
	mc := func(v reflect.Value) val.V { return val.VInt(int64(v.Len() + 100)) }
	regConfig.Registered[reflect.TypeOf(regC{})] = mc
	regConfig.Registered[reflect.TypeOf(&regC{})] = ptrOr(mc)
	regConfig.Registered[reflect.TypeOf(regD{})] = modelRegD
	regConfig.Registered[reflect.TypeOf(&regD{})] = ptrOr(modelRegD)
}

type withReg2 struct {
	C  regC
	PC *regC
	D  regD
	PD *regD
	LC []regC
	LD []regD
	MC map[string]regC
	MD map[string]regD
	I  interface{}
	S  struct{ C regC }
	T  struct{ D regD }
	Z  int
}

// c12Check folds v with the real folder and compares with the model.
// It returns the monitor for the contract check of C09.
func foldAgainstModel(c *run.C, t reflect.Type, v reflect.Value, cfg *model.Config, basicSink bool, opts ...gotype.FoldOption) (*mon.Monitor, bool) {
	want, merr := model.Fold(v, cfg)
	m := mon.NewMonitor()
	m.Transition = map[[2]uint8]int{}
	var sink structform.Visitor = m
	if basicSink {
		sink = m.Basic()
	}
	var err error
	var ok bool
	if len(opts) == 0 && c.R.P(1, 3) {
		// one long-lived Iterator for the whole worker process: whatever it
		// compiled and cached for a type in an earlier case (in whatever
		// context) is used again here
		err, ok = foldShared(c, v, sink)
		c.Observe("folds_through_the_long_lived_iterator", 1)
	} else {
		err, ok = foldInto(c, v, c.R.Bool(), sink, opts...)
	}
	if !ok {
		return nil, false
	}
	if merr != nil {
		// the documented rules do not cover this type: refusal expected
		if err == nil {
			c.Violationf("accepted-unsupported", "fold:accepted-unsupported", "Fold accepted a value the documented rules cannot represent (%v)\ntype=%s", merr, t)
			return nil, false
		}
		c.Observe("fold_refused", 1)
		return nil, false
	}
	if err != nil {
		c.Violationf("fold-error", "fold:error:"+errClass(err), "Fold returned %v for a supported value\ntype=%s\nvalue=%s", err, t, valueString(v))
		return nil, false
	}
	return m, compareFold(c, t, v, want, m)
}

func errClass(err error) string {
	s := err.Error()
	if len(s) > 40 {
		s = s[:40]
	}
	return s
}

func compareFold(c *run.C, t reflect.Type, v reflect.Value, want val.V, m *mon.Monitor) bool {
	got, verr := m.Events.Values()
	if verr != nil || len(got) != 1 {
		c.Violationf("mismatch", "fold:not-one-value", "Fold did not emit exactly one well-formed value (%v, %d values)\ntype=%s\nvalue=%s\nevents=%s", verr, len(got), t, valueString(v), m.Events)
		return false
	}
	if m.Violation != "" {
		// an object that announces n members and reports another number of them
		// (or a typed container holding another element kind) does not describe
		// the value of the documented mapping, whatever its members are
		c.Violationf("mismatch", "fold:malformed-description", "Fold's events do not describe one well-formed value: %s (at event %d)\ntype=%s\nvalue=%s\nmodel =%s\nevents=%s", m.Violation, m.ViolAt, t, valueString(v), want, m.Events)
		return false
	}
	if d := val.Equal(want, got[0], val.NumExact); d != "" {
		c.Violationf("mismatch", "fold:value:"+mismatchClass(d), "Fold emits another value than the documented mapping: %s\ntype=%s\nvalue=%s\nmodel =%s\nevents=%s", d, t, valueString(v), want, m.Events)
		return false
	}
	return true
}

func mismatchClass(d string) string {
	for _, k := range []string{"object size", "key #", "key set", "kind", "number", "string", "array len", "bool"} {
		if strings.Contains(d, k) {
			return k
		}
	}
	return "other"
}

func c12Generated(c *run.C) {
	r := c.R
	t, v := genTypeValue(r, gen.GoTypeOpts{MaxDepth: 4, Arrays: true, Extra: zoo.Supported}, gen.GoValueOpts{BadUTF8: true, SpecialF: true})
	tags := typeTags(t)
	c.Begin(goCase{Type: t.String(), Value: valueString(v), Tags: tags})
	for _, tg := range tags {
		c.Tag(tg)
	}
	m, ok := foldAgainstModel(c, t, v, nil, r.P(1, 4))
	if !ok {
		return
	}
	c.Observe("folds_equal_to_model", 1)
	c.Observe("events", m.NEvents)
	for _, tg := range tags {
		c.Observe(tg, 1)
	}
	c.Nontrivial(gen.Mix(gen.HashString(t.String()), gen.HashString(valueString(v))))
	if len(t.String()) < 300 {
		c.Sample("generated", goCase{Type: t.String(), Value: valueString(v)})
	}
}

// dense sweep of tag combinations on every field kind and pointer depth 0..3.
var c12FieldKinds = func() []reflect.Type {
	ts := append([]reflect.Type{}, gen.ScalarTypes()...)
	ts = append(ts, reflect.TypeOf([]int{}), reflect.TypeOf([]string{}), reflect.TypeOf([]byte{}), reflect.TypeOf([]interface{}{}),
		reflect.TypeOf(map[string]int{}), reflect.TypeOf(map[string]interface{}{}), reflect.TypeOf(map[string][]string{}),
		gen.TIface, reflect.TypeOf(zoo.Plain{}), reflect.TypeOf(struct{}{}), reflect.TypeOf([2]int{}),
		reflect.TypeOf(zoo.ZeroVal{}), reflect.TypeOf(zoo.ZeroPtr{}), reflect.TypeOf(zoo.ZeroInt(0)),
		reflect.TypeOf(zoo.ZeroStr("")), reflect.TypeOf(zoo.ZeroBytes(nil)), reflect.TypeOf(zoo.ZeroSet(nil)), reflect.TypeOf(zoo.ZeroArr{}), reflect.TypeOf(zoo.ZeroLevel(0)),
		reflect.TypeOf(zoo.FoldVal{}), reflect.TypeOf(zoo.FoldPtr{}), reflect.TypeOf(zoo.NamedInts{}), reflect.TypeOf(zoo.NamedMap{}), reflect.TypeOf(zoo.NamedString("")))
	return ts
}()

var c12Tags = []string{"", "nm", "-", ",omit", ",omitempty", "nm,omitempty", ",inline", ",squash", ",omit,inline,omitempty", "nm,omit,omitempty", ",omit,squash"}

func c12Sweep(c *run.C) {
	r := c.R
	kinds := c12FieldKinds
	ft := kinds[c.Idx%len(kinds)]
	tag := c12Tags[(c.Idx/len(kinds))%len(c12Tags)]
	ptr := (c.Idx / (len(kinds) * len(c12Tags))) % 4
	for i := 0; i < ptr; i++ {
		ft = reflect.PtrTo(ft)
	}
	inline := (strings.Contains(tag, "inline") || strings.Contains(tag, "squash")) && !strings.Contains(tag, "omit,")
	if inline {
		_, bt := func() (int, reflect.Type) {
			n, x := 0, ft
			for x.Kind() == reflect.Ptr {
				x, n = x.Elem(), n+1
			}
			return n, x
		}()
		if bt == reflect.TypeOf(zoo.FoldPtr{}) || bt == reflect.TypeOf(zoo.FoldArr{}) {
			// a custom folder that does not emit an object cannot be inlined: user error, nothing documented
			c.Observe("sweep_skipped_inline_non_object_folder", 1)
			return
		}
		if !(bt.Kind() == reflect.Struct || (bt.Kind() == reflect.Map && bt.Key().Kind() == reflect.String) || bt == gen.TIface) {
			// the documentation requires a struct or map for inline: refusal is checked in C11's unsupported suite
			c.Observe("sweep_skipped_inline_on_scalar", 1)
			return
		}
	}
	fields := []reflect.StructField{
		{Name: "Before", Type: reflect.TypeOf(0)},
		{Name: "X", Type: ft},
		{Name: "After", Type: gen.TString, Tag: `struct:"after"`},
	}
	if tag != "" {
		fields[1].Tag = reflect.StructTag(fmt.Sprintf(`struct:"%s"`, tag))
	}
	t := reflect.StructOf(fields)
	vo := gen.GoValueOpts{BadUTF8: true, SpecialF: true, Exemplars: zoo.Exemplars}
	if inline {
		// interface content of an inline field must be an object
		vo.IfaceTypes = []reflect.Type{reflect.TypeOf(map[string]interface{}{}), reflect.TypeOf(map[string]int{}), reflect.TypeOf(zoo.Plain{}), reflect.TypeOf(&zoo.Plain{})}
	}
	vg := &gen.ValueGen{R: r, O: vo}
	v := vg.Value(t, 0)
	// force the interesting variants deterministically by case index
	variant := (c.Idx / (len(kinds) * len(c12Tags) * 4)) % 3
	x := v.Field(1)
	switch variant {
	case 0:
		x.Set(reflect.Zero(ft)) // zero / nil / empty
	case 1:
		// non-nil pointers all the way down to a zero base value
		cur := x
		for cur.Kind() == reflect.Ptr {
			p := reflect.New(cur.Type().Elem())
			cur.Set(p)
			cur = p.Elem()
		}
	}
	if inline && x.Kind() == reflect.Interface && !x.IsNil() {
		e := x.Elem()
		if e.Kind() == reflect.Ptr && e.IsNil() {
			x.Set(reflect.Zero(ft))
		}
	}
	tags := typeTags(t)
	c.Begin(goCase{Type: t.String(), Value: valueString(v), How: fmt.Sprintf("sweep tag=%q ptr=%d variant=%d", tag, ptr, variant), Tags: tags})
	for _, tg := range tags {
		c.Tag(tg)
	}
	if _, ok := foldAgainstModel(c, t, v, nil, false); !ok {
		return
	}
	c.Observe("sweep_folds_equal_to_model", 1)
	c.Nontrivial(gen.Mix(120, uint64(c.Idx)))
}

// folders registered with gotype.Folders, at top level, as fields, pointer
// fields, elements and inline fields.
type withReg struct {
	A  regA
	PA *regA
	B  regB   `struct:"b,omitempty"`
	L  []regA `struct:"list"`
	M  map[string]regB
	I  interface{}
	Z  int
}

type withRegInline struct {
	A regA `struct:",inline"`
	Z int
}

func c12Registered(c *run.C) {
	r := c.R
	var t reflect.Type
	switch c.Idx % 17 {
	case 13:
		t = reflect.TypeOf(withReg3{})
	case 14:
		t = reflect.TypeOf(regE{})
	case 15:
		t = reflect.TypeOf(map[string]regF{})
	case 16:
		t = reflect.TypeOf([]interface{}{})
	case 5:
		t = reflect.TypeOf(withReg2{})
	case 6:
		t = reflect.TypeOf(regC{})
	case 7:
		t = reflect.TypeOf(regD{})
	case 8:
		t = reflect.TypeOf(struct{ C regC }{})
	case 9:
		t = reflect.TypeOf(map[string]regC{})
	case 10:
		t = reflect.TypeOf([]regD{})
	case 11:
		t = reflect.TypeOf([]interface{}{})
	case 12:
		t = reflect.TypeOf(map[string]*regD{})
	case 0:
		t = reflect.TypeOf(withReg{})
	case 1:
		t = reflect.TypeOf(regA{})
	case 2:
		t = reflect.TypeOf([]*regB{})
	case 3:
		t = reflect.TypeOf(withRegInline{})
	default:
		t = reflect.TypeOf(map[string]regA{})
	}
	vg := &gen.ValueGen{R: r, O: gen.GoValueOpts{IfaceTypes: []reflect.Type{reflect.TypeOf(regA{}), reflect.TypeOf(&regB{}), reflect.TypeOf(0),
		reflect.TypeOf(regC{}), reflect.TypeOf(regD{}), reflect.TypeOf(&regC{}), reflect.TypeOf(&regD{}), reflect.TypeOf(struct{ C regC }{}), reflect.TypeOf(map[string]regD{}),
		reflect.TypeOf(regE{}), reflect.TypeOf(regF{}), reflect.TypeOf(regG{}), reflect.TypeOf(&regE{}), reflect.TypeOf(map[string]regG{})}}}
	v := vg.Value(t, 0)
	tags := typeTags(t)
	if c.Idx%17 == 3 {
		tags = append(tags, "registered-folder-inline")
	}
	c.Begin(goCase{Type: t.String(), Value: valueString(v), How: "registered", Tags: tags})
	for _, tg := range tags {
		c.Tag(tg)
	}
	if c.Idx%29 == 7 {
		// an invalid option must not make Fold "succeed" without describing the value
		m := mon.NewMonitor()
		var err error
		if !c.Guard("gotype.Fold.invalid-option", func() { err = gotype.Fold(v.Interface(), m, gotype.Folders(foldRegA, 123)) }) {
			return
		}
		if err == nil {
			c.Violationf("mismatch", "fold:invalid-option-accepted", "Fold with an invalid Folders option (123 is no function) returned nil after %d events: the value is not described and no error is reported\ntype=%s", m.NEvents, t)
			return
		}
		c.Observe("invalid_options_refused", 1)
	}
	switch c.Idx % 8 {
	case 1:
		// ONE option value kept for the life of the process, followed by a
		// second Folders option in the same call ...
		if _, ok := foldAgainstModel(c, t, v, regConfig, false, optAB, gotype.Folders(foldRegC, foldRegD, foldRegE, foldRegF, foldRegG)); !ok {
			return
		}
		c.Observe("registered_folds_with_a_reused_option_value", 1)
		c.Nontrivial(gen.Mix(125, gen.HashString(valueString(v))))
		return
	case 5:
		// ... and alone: it must still stand for foldRegA and foldRegB only
		if _, ok := foldAgainstModel(c, t, v, regConfigAB(), false, optAB); !ok {
			return
		}
		c.Observe("registered_folds_with_a_reused_option_value", 1)
		c.Nontrivial(gen.Mix(126, gen.HashString(valueString(v))))
		return
	}
	if c.Idx%3 == 2 {
		// the same types WITHOUT the option, interleaved in the same process:
		// what an iterator with registered folders compiled for a type must
		// not show through in an iterator without them (and vice versa)
		if _, ok := foldAgainstModel(c, t, v, nil, false); !ok {
			return
		}
		c.Observe("registered_types_folded_without_option", 1)
		c.Nontrivial(gen.Mix(124, gen.HashString(valueString(v))))
		return
	}
	if _, ok := foldAgainstModel(c, t, v, regConfig, false, gotype.Folders(foldRegA, foldRegB, foldRegC, foldRegD, foldRegE, foldRegF, foldRegG)); !ok {
		return
	}
	c.Observe("registered_folds_equal_to_model", 1)
	c.Nontrivial(gen.Mix(121, gen.HashString(valueString(v))))
}

// folders registered for BUILTIN primitive types (float64, string): the value
// of every position of that type is what the folder emits.
type withBuiltinReg struct {
	F  float64
	PF *float64
	S  string
	A  [2]float64
	I  []interface{}
	MI map[string]interface{}
	L  []float64
	M  map[string]float64
	LS []string
	Z  int
}

func foldBuiltinF64(in *float64, v structform.ExtVisitor) error {
	if in == nil {
		return v.OnNil()
	}
	return v.OnString("F64")
}

func foldBuiltinStr(in *string, v structform.ExtVisitor) error {
	if in == nil {
		return v.OnNil()
	}
	return v.OnInt(len(*in))
}

var builtinRegConfig = func() *model.Config {
	ptrOr := func(f func(reflect.Value) val.V) func(reflect.Value) val.V {
		return func(v reflect.Value) val.V {
			if v.IsNil() {
				return val.VNil()
			}
			return f(v.Elem())
		}
	}
	f64 := func(reflect.Value) val.V { return val.VStr("F64") }
	str := func(v reflect.Value) val.V { return val.VInt(int64(v.Len())) }
	return &model.Config{Registered: map[reflect.Type]func(reflect.Value) val.V{
		reflect.TypeOf(float64(0)):      f64,
		reflect.TypeOf((*float64)(nil)): ptrOr(f64),
		reflect.TypeOf(""):              str,
		reflect.TypeOf((*string)(nil)):  ptrOr(str),
	}}
}()

// typedContainerOfBuiltin reports whether v holds a non-empty []float64,
// map[string]float64 or []string (statically typed container whose element
// type has a registered folder).
func typedContainerOfBuiltin(v reflect.Value, depth int) bool {
	if depth > 8 {
		return false
	}
	switch v.Kind() {
	case reflect.Ptr, reflect.Interface:
		return !v.IsNil() && typedContainerOfBuiltin(v.Elem(), depth+1)
	case reflect.Slice, reflect.Map:
		ek := v.Type().Elem().Kind()
		if (ek == reflect.Float64 || ek == reflect.String) && v.Type().Elem().PkgPath() == "" {
			return v.Len() > 0
		}
		if v.Kind() == reflect.Map {
			for _, k := range v.MapKeys() {
				if typedContainerOfBuiltin(v.MapIndex(k), depth+1) {
					return true
				}
			}
			return false
		}
		for i := 0; i < v.Len(); i++ {
			if typedContainerOfBuiltin(v.Index(i), depth+1) {
				return true
			}
		}
	case reflect.Array:
		for i := 0; i < v.Len(); i++ {
			if typedContainerOfBuiltin(v.Index(i), depth+1) {
				return true
			}
		}
	case reflect.Struct:
		for i := 0; i < v.NumField(); i++ {
			if typedContainerOfBuiltin(v.Field(i), depth+1) {
				return true
			}
		}
	}
	return false
}

func c12RegisteredBuiltin(c *run.C) {
	r := c.R
	var t reflect.Type
	switch c.Idx % 6 {
	case 0:
		t = reflect.TypeOf(withBuiltinReg{})
	case 1:
		t = reflect.TypeOf([]float64{})
	case 2:
		t = reflect.TypeOf(map[string]float64{})
	case 3:
		t = reflect.TypeOf(float64(0))
	case 4:
		t = reflect.TypeOf([]interface{}{})
	default:
		t = reflect.TypeOf(struct {
			A float64
			B *string
			C [1]string
		}{})
	}
	vg := &gen.ValueGen{R: r, O: gen.GoValueOpts{IfaceTypes: []reflect.Type{reflect.TypeOf(float64(0)), reflect.TypeOf(""), reflect.TypeOf(0), reflect.TypeOf([]float64{}), reflect.TypeOf(map[string]interface{}{})}}}
	v := vg.Value(t, 0)
	tags := typeTags(t)
	if typedContainerOfBuiltin(v, 0) {
		tags = append(tags, "registered-builtin-in-typed-container")
	}
	c.Begin(goCase{Type: t.String(), Value: valueString(v), How: "registered-builtin", Tags: tags})
	for _, tg := range tags {
		c.Tag(tg)
	}
	if _, ok := foldAgainstModel(c, t, v, builtinRegConfig, false, gotype.Folders(foldBuiltinF64, foldBuiltinStr)); !ok {
		return
	}
	c.Observe("registered_builtin_folds_equal_to_model", 1)
	c.Nontrivial(gen.Mix(123, gen.HashString(valueString(v))))
}

// zoo types with implemented folders, IsZeroers, embedded fields.
func c12Zoo(c *run.C) {
	r := c.R
	all := append(append([]reflect.Type{}, zoo.Supported...), zoo.FoldOnly...)
	t := all[c.Idx%len(all)]
	ifaceTypes := append([]reflect.Type{reflect.TypeOf(zoo.Plain{}), reflect.TypeOf(map[string]int{}), reflect.TypeOf(0), reflect.TypeOf([]interface{}{}), reflect.TypeOf(map[string]interface{}{})}, zoo.FolderValues...)
	if t == reflect.TypeOf(zoo.InlineIface{}) {
		ifaceTypes = []reflect.Type{reflect.TypeOf(zoo.Plain{}), reflect.TypeOf(map[string]int{}), reflect.TypeOf(map[string]interface{}{}), reflect.TypeOf(zoo.FoldVal{})}
	}
	if t == reflect.TypeOf(zoo.InlineThenPlain{}) || t == reflect.TypeOf([]zoo.InlineThenPlain{}) {
		// the inline interface holds an object with slice fields; the same
		// slice types follow as ordinary fields and below a plain interface
		ifaceTypes = []reflect.Type{reflect.TypeOf(zoo.InlineCarrier{}), reflect.TypeOf(&zoo.InlineCarrier{}), reflect.TypeOf(map[string]interface{}{}), reflect.TypeOf(zoo.Plain{})}
	}
	if t == reflect.TypeOf(zoo.InlineOuter{}) || t == reflect.TypeOf(zoo.InlineInner{}) {
		// nested inline interfaces: objects that hold (and are) further
		// structs with inline interface fields
		ifaceTypes = []reflect.Type{reflect.TypeOf(map[string]interface{}{}), reflect.TypeOf(zoo.InlineInner{}), reflect.TypeOf(zoo.InlineOuter{}), reflect.TypeOf(&zoo.InlineInner{}), reflect.TypeOf(zoo.Plain{}), reflect.TypeOf(map[string]int{})}
	}
	vg := &gen.ValueGen{R: r, O: gen.GoValueOpts{BadUTF8: true, IfaceTypes: ifaceTypes, Exemplars: zoo.Exemplars,
		IfaceTypesFor: zoo.IfaceValues}}
	v := vg.Value(t, 0)
	if (t == reflect.TypeOf(zoo.InlineOuter{}) || t == reflect.TypeOf(zoo.InlineInner{})) && holdsNilPtrInIface(v, 0) {
		c.Observe("zoo_skipped_inline_iface_with_nil_pointer", 1)
		return // nothing documented for an inline interface that holds a typed nil pointer
	}
	tags := typeTags(t)
	c.Begin(goCase{Type: t.String(), Value: valueString(v), How: "zoo", Tags: tags})
	for _, tg := range tags {
		c.Tag(tg)
	}
	if _, ok := foldAgainstModel(c, t, v, nil, r.P(1, 4)); !ok {
		return
	}
	c.Observe("zoo_folds_equal_to_model", 1)
	c.Nontrivial(gen.Mix(122, gen.HashString(t.String()), gen.HashString(valueString(v))))
}

var c12Suites = []*run.Suite{
	{Name: "generated", N: tierN(150000, 5000000), Case: c12Generated, Require: []string{"folds_equal_to_model", "type:tag-omitempty", "type:tag-inline", "type:tag-omit", "type:tag-name", "type:ptr", "type:interface", "type:map", "type:slice"}},
	{Name: "sweep", N: tierN(len(c12FieldKinds)*len(c12Tags)*4*3, len(c12FieldKinds)*len(c12Tags)*4*3*10), Case: c12Sweep, Require: []string{"sweep_folds_equal_to_model"}},
	{Name: "registered", N: tierN(6000, 120000), Case: c12Registered, Require: []string{"registered_folds_equal_to_model", "registered_types_folded_without_option", "registered_folds_with_a_reused_option_value"}},
	{Name: "registered-builtin", N: tierN(3000, 60000), Case: c12RegisteredBuiltin, Require: []string{"registered_builtin_folds_equal_to_model"}},
	{Name: "zoo", N: tierN(20000, 400000), Case: c12Zoo, Require: []string{"zoo_folds_equal_to_model"}},
}

func init() {
	run.Register(&run.Check{
		ID:    "C12",
		Level: "exploration",
		Rule: "programs: Go types generated over bool, string, all int/uint/float widths, []T, map[string]T, *T (chains up to 3), interface{}, reflect.StructOf structs whose fields draw every tag combination " +
			"(none, name, '-', omit, omitempty, name+omitempty, inline/squash; unexported fields), plus named / method-carrying / embedded zoo types; values filled from the scalar class mix with nil / empty / non-empty variants at every nillable position; " +
			"sweep: every tag option x every field kind (14 scalars, slices, maps, interface, structs, array, IsZeroer value/pointer receiver incl. string/slice/map/array-kind IsZeroers whose IsZero is true for non-empty values, Folder value/pointer receiver, named types; omit combined with inline/omitempty) x pointer depth 0..3 x {zero, pointers to zero, random}; " +
			"zoo also holds interface types that include Fold() (nil, typed nil pointers, value/pointer receivers) and structs whose inline interface{} fields nest in one another; registered: folders registered with Folders() at top level, as value/pointer/element/map/interface/inline positions. Oracle: value recorded from the real Fold == independent executable model of the documented tag rules. " +
			"distinct_nontrivial = distinct (type, value) pairs.",
		Assumptions: []string{
			"where the documentation is silent the model follows the observed behaviour: omitempty is evaluated after following pointers and interfaces; embedded fields without tag are named by their lower-cased type name",
			"an inline interface{} field holding a typed nil pointer is not swept: the documentation assigns it nothing (the library returns an error)",
			"member order of Go maps (and of objects that inline a map) is not compared",
			"announced lengths and event widths are not compared here (C09 checks announced lengths)",
		},
		Suites: c12Suites,
	})
}

// holdsNilPtrInIface reports whether an inline interface{} field somewhere in
// v holds a typed nil pointer.
func holdsNilPtrInIface(v reflect.Value, depth int) bool {
	if depth > 12 {
		return false
	}
	switch v.Kind() {
	case reflect.Ptr, reflect.Interface:
		if v.IsNil() {
			return false
		}
		return holdsNilPtrInIface(v.Elem(), depth+1)
	case reflect.Map:
		for _, k := range v.MapKeys() {
			if holdsNilPtrInIface(v.MapIndex(k), depth+1) {
				return true
			}
		}
	case reflect.Slice, reflect.Array:
		for i := 0; i < v.Len(); i++ {
			if holdsNilPtrInIface(v.Index(i), depth+1) {
				return true
			}
		}
	case reflect.Struct:
		for i := 0; i < v.NumField(); i++ {
			f := v.Type().Field(i)
			fv := v.Field(i)
			if gen.ParseFieldTag(f).Inline && fv.Kind() == reflect.Interface && !fv.IsNil() {
				e := fv.Elem()
				for e.Kind() == reflect.Ptr {
					if e.IsNil() {
						return true
					}
					e = e.Elem()
				}
			}
			if holdsNilPtrInIface(fv, depth+1) {
				return true
			}
		}
	}
	return false
}

// switchSink forwards to the sink of the current case.
type switchSink struct{ structform.ExtVisitor }

var (
	sharedSink = &switchSink{}
	sharedIt   *gotype.Iterator
)

func foldShared(c *run.C, v reflect.Value, sink structform.Visitor) (err error, ok bool) {
	sharedSink.ExtVisitor = structform.EnsureExtVisitor(sink)
	if sharedIt == nil {
		it, ierr := gotype.NewIterator(sharedSink)
		if ierr != nil {
			return ierr, true
		}
		sharedIt = it
	}
	ok = c.Guard("Iterator.Fold(shared)", func() { err = sharedIt.Fold(v.Interface()) })
	if !ok || err != nil {
		sharedIt = nil // an iterator is not demanded to survive an error or a panic
	}
	return err, ok
}

// optAB is one FoldOption value used again and again (an application-wide
// "common folders" option).
var optAB = gotype.Folders(foldRegA, foldRegB)

func regConfigAB() *model.Config {
	cfg := &model.Config{Registered: map[reflect.Type]func(reflect.Value) val.V{}}
	for _, t := range []reflect.Type{reflect.TypeOf(regA{}), reflect.TypeOf(&regA{}), reflect.TypeOf(regB{}), reflect.TypeOf(&regB{})} {
		cfg.Registered[t] = regConfig.Registered[t]
	}
	return cfg
}
