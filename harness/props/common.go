// Package props holds the per-property checks (C01 … C20).
package props

import (
	"encoding/hex"
	"fmt"
	"math"

	"verif/harness/codec"
	"verif/harness/gen"
	"verif/harness/hook"
	"verif/harness/mon"
	"verif/harness/run"
	"verif/harness/val"
)

// tierN picks a case count by tier.
func tierN(quick, thorough int) func(string) int {
	return func(t string) int {
		if t == "thorough" {
			return thorough
		}
		return quick
	}
}

// encode replays s into a fresh encoder of codec c.
func encode(c *codec.Codec, o codec.JSONOpts, s val.Stream) ([]byte, error) {
	var w mon.CountingWriter
	v := c.NewVisitor(&w, o)
	err := mon.Replay(s, v, mon.ReplayOpts{ScribbleRefs: true})
	return w.Buf, err
}

// parseWhole parses buf with the one-shot Parse into a fresh monitor.
func parseWhole(c *codec.Codec, buf []byte) (*mon.Monitor, error) {
	m := mon.NewMonitor()
	err := c.Parse(buf, m.WithRefs())
	return m, err
}

func hexs(b []byte) string {
	if len(b) > 2048 {
		return hex.EncodeToString(b[:2048]) + fmt.Sprintf("…(+%d bytes)", len(b)-2048)
	}
	return hex.EncodeToString(b)
}

// nonTrivialStream: the stream holds a container, a number that does not fit
// one byte, a non-empty string or a float.
func nonTrivialStream(s val.Stream) bool {
	for _, e := range s {
		switch e.K {
		case val.ENil, val.EBool:
		case val.EInt8, val.EInt16, val.EInt32, val.EInt64, val.EInt:
			if e.I > 23 || e.I < -24 {
				return true
			}
		case val.EByte, val.EUint8, val.EUint16, val.EUint32, val.EUint64, val.EUint:
			if e.U > 23 {
				return true
			}
		case val.EString, val.EStringRef:
			if e.S != "" {
				return true
			}
		default:
			return true
		}
	}
	return false
}

func hasNonFiniteStream(s val.Stream) bool {
	for _, e := range s {
		switch e.K {
		case val.EFloat32:
			f := float64(math.Float32frombits(uint32(e.F)))
			if math.IsNaN(f) || math.IsInf(f, 0) {
				return true
			}
		case val.EFloat64:
			f := math.Float64frombits(e.F)
			if math.IsNaN(f) || math.IsInf(f, 0) {
				return true
			}
		case val.EFloat32Array, val.EFloat64Array, val.EFloat32Object, val.EFloat64Object:
			if val.HasNonFinite(e.ExtValue()) {
				return true
			}
		}
	}
	return false
}

// stepGuard installs the loop-progress monitor for the duration of f.  A
// parser/decoder loop that iterates more than limit times without consuming
// a byte or delivering an event is reported as a hang (by panicking out of
// the library, which the caller's Guard converts into a violation).
type stepGuard struct {
	events     func() int
	lastRemain [4]int
	lastEvents [4]int
	lastTick   [4]uint64
	idle       [4]int
	MaxIdle    int
	Steps      int
}

type hangPanic struct{ site, idle int }

func (h hangPanic) HangString() string {
	return fmt.Sprintf("no progress: loop site %d iterated %d times without consuming input or delivering an event", h.site, h.idle)
}

const idleLimit = 2000

func withStepGuard(g *stepGuard, events func() int, f func()) {
	g.events = events
	if !hook.Enabled {
		f()
		return
	}
	for i := range g.lastRemain {
		g.lastRemain[i] = -1
	}
	hook.SetStep(func(site, remaining int) {
		g.Steps++
		if site < 0 || site > 3 {
			return
		}
		ev := g.events()
		if remaining == g.lastRemain[site] && ev == g.lastEvents[site] && mon.Progress == g.lastTick[site] {
			g.idle[site]++
			if g.idle[site] > g.MaxIdle {
				g.MaxIdle = g.idle[site]
			}
			if g.idle[site] > idleLimit {
				panic(hangPanic{site, g.idle[site]})
			}
			return
		}
		g.idle[site] = 0
		g.lastRemain[site], g.lastEvents[site], g.lastTick[site] = remaining, ev, mon.Progress
	})
	defer hook.SetStep(nil)
	f()
}

// guardCall runs f under the panic guard and the step guard; a hang is
// reported with class "hang", a panic with class "panic".
func guardCall(c *run.C, what string, events func() int, f func()) (ok bool, g *stepGuard) {
	g = &stepGuard{}
	ok = c.Guard(what, func() { withStepGuard(g, events, f) })
	return ok, g
}

var _ = gen.Mix

type monT = mon.Monitor

func newMon() *mon.Monitor { return mon.NewMonitor() }

// hookedReq returns the required observations of a suite; the ones that only
// the verif hooks can produce are required only when the hooks are compiled in
// (the fallback build without them still decides everything else).
func hookedReq(always []string, hooked ...string) []string {
	if hook.Enabled {
		return append(always, hooked...)
	}
	return always
}

// intsThatFit returns the values that an int of this platform can hold (the
// harness is also built for GOARCH=386; values above 2^31-1 are clamped to
// the largest int there, once).
func intsThatFit(vals ...int64) []int {
	var out []int
	clamped := false
	for _, v := range vals {
		if int64(int(v)) == v {
			out = append(out, int(v))
		} else if !clamped {
			out = append(out, int(^uint(0)>>1))
			clamped = true
		}
	}
	return out
}

// exactCopy returns a copy of b whose capacity equals its length: slicing
// beyond the end of the data panics instead of silently reading the slack
// that append leaves behind.
func exactCopy(b []byte) []byte {
	c := make([]byte, len(b))
	copy(c, b)
	return c[:len(b):len(b)]
}
