package props

import (
	"bufio"
	"bytes"
	"encoding/binary"
	"encoding/json"
	"errors"
	"fmt"
	structform "github.com/elastic/go-structform"
	"os"
	"path/filepath"
	"sync"
	"verif/harness/hook"

	"verif/harness/codec"
	"verif/harness/gen"
	"verif/harness/mon"
	"verif/harness/ref"
	"verif/harness/run"
	"verif/harness/val"
)

// C04 / C05 / C06: each parser against its independent reference decoder.

type refCase struct {
	Codec string `json:"codec"`
	Doc   string `json:"doc_hex"`
	Text  string `json:"text,omitempty"`
	How   string `json:"how,omitempty"`
	Sizes []int  `json:"sizes,omitempty"`
}

func repoDir() string {
	if d := os.Getenv("VERIF_REPO"); d != "" {
		return d
	}
	return "/repo"
}

// parseBoth parses doc with the one-shot Parse and with a chunked
// ParseReader; both must behave the same way (C02 checks that exhaustively,
// here it is free extra reach).  It returns the monitor of the whole parse.
func parseBoth(c *run.C, cd *codec.Codec, doc []byte, r *gen.Rand) (m *mon.Monitor, err error, ok bool) {
	whole := parseVia(c, cd, doc, nil, 0, false)
	if !whole.ok {
		return nil, nil, false
	}
	sizes := []int{r.Range(1, 9), r.Range(1, 3), r.Range(1, 70)}
	ch := parseVia(c, cd, doc, sizes, 1, r.Bool())
	if !ch.ok {
		return nil, nil, false
	}
	if (whole.err == nil) != (ch.err == nil) {
		c.Violationf("verdict", cd.Name+":chunk-verdict", "%s: Parse returned %v, chunked ParseReader %v returned %v\ndoc=%s", cd.Name, whole.err, sizes, ch.err, hexs(doc))
		return nil, nil, false
	}
	// the pull decoders are entry points of the same parser: same verdict and,
	// for accepted documents, the same events
	entry := 3 + r.Intn(2)
	dsizes := []int{gen.Pick(r, []int{1, 2, 3, 7, 16, 64, 4096}), r.Range(1, 9), r.Range(1, 70)}
	if r.P(1, 6) {
		dsizes = append(dsizes, 0) // one empty read per cycle
	}
	dec := parseVia(c, cd, doc, dsizes, entry, r.Bool())
	if !dec.ok {
		return nil, nil, false
	}
	if (whole.err == nil) != (dec.err == nil) {
		c.Violationf("verdict", cd.Name+":decoder-verdict", "%s: Parse returned %v, the pull decoder (entry %d, buffer/reads %v) returned %v\ndoc=%s", cd.Name, whole.err, entry, dsizes, dec.err, hexs(doc))
		return nil, nil, false
	}
	if whole.err == nil {
		a, b := normRefs(whole.events), normRefs(dec.events)
		if a.String() != b.String() {
			c.Violationf("mismatch", cd.Name+":decoder-events", "%s: the pull decoder (entry %d, buffer/reads %v) reports other events than Parse\ndoc=%s\nParse  =%s\ndecoder=%s", cd.Name, entry, dsizes, hexs(doc), a, b)
			return nil, nil, false
		}
		c.Observe("decoder_runs_equal_to_parse", 1)
	}
	// ONE long-lived parser per codec and worker process (methods Parse /
	// ParseString / Write alternating): an accepted document must be read the
	// same way whatever complete documents the instance has read before
	if whole.err == nil {
		lm := mon.NewMonitor()
		var lerr error
		how := ""
		okl := c.Guard(cd.Name+".long-lived-parser", func() { how, lerr = parseLongLived(cd, doc, lm, r) })
		if !okl {
			longLived[cd.Name] = nil
			return nil, nil, false
		}
		if lerr != nil {
			longLived[cd.Name] = nil
			c.Violationf("verdict", cd.Name+":long-lived-verdict", "%s: a new parser accepts the document, a parser that has read other complete documents before returns %v (%s)\ndoc=%s\nprevious document=%s", cd.Name, lerr, how, hexs(doc), hexs(longLivedPrev[cd.Name]))
			return nil, nil, false
		}
		a, b := normRefs(whole.events), normRefs(lm.Events)
		if a.String() != b.String() {
			longLived[cd.Name] = nil
			c.Violationf("mismatch", cd.Name+":long-lived-events", "%s: a parser that has read other complete documents before reports other events than a new one (%s)\ndoc=%s\nprevious document=%s\nnew       =%s\nlong-lived=%s", cd.Name, how, hexs(doc), hexs(longLivedPrev[cd.Name]), a, b)
			return nil, nil, false
		}
		longLivedPrev[cd.Name] = append([]byte{}, doc...)
		c.Observe("long_lived_parser_runs_equal", 1)
	}
	mm := mon.NewMonitor()
	for _, e := range whole.events {
		mon.Call(mm, e, false)
	}
	return mm, whole.err, true
}

// checkAgainstRef: the library must accept doc and report exactly want.
func checkAgainstRef(c *run.C, cd *codec.Codec, doc []byte, want []val.V, mode val.NumMode, r *gen.Rand) bool {
	m, err, ok := parseBoth(c, cd, doc, r)
	if !ok {
		return false
	}
	if err != nil {
		c.Violationf("rejected-valid", cd.Name+":rejected-valid", "%s parser rejects a valid document: %v\ndoc=%s\ntext=%q\nreference value=%v", cd.Name, err, hexs(doc), clipb(doc), want)
		return false
	}
	got, verr := m.Events.Values()
	if verr != nil {
		c.Violationf("malformed-events", cd.Name+":malformed-events", "%s parser emitted a malformed event stream (%v)\ndoc=%s\nevents=%s", cd.Name, verr, hexs(doc), m.Events)
		return false
	}
	if len(got) != len(want) {
		c.Violationf("mismatch", cd.Name+":value-count", "%s parser reported %d values, reference %d\ndoc=%s\ntext=%q\nevents=%s", cd.Name, len(got), len(want), hexs(doc), clipb(doc), m.Events)
		return false
	}
	for i := range want {
		if d := val.Equal(want[i], got[i], mode); d != "" {
			c.Violationf("mismatch", cd.Name+":value", "%s parser reports another value than the reference decoder: %s\ndoc=%s\ntext=%q\nevents=%s", cd.Name, d, hexs(doc), clipb(doc), m.Events)
			return false
		}
	}
	c.Observe("values_equal_to_reference", len(want))
	c.Observe("events", len(m.Events))
	return true
}

func clipb(b []byte) string {
	if len(b) > 600 {
		return string(b[:600]) + "…"
	}
	return string(b)
}

// ---------------------------------------------------------------------------
// C04

func c04Valid(c *run.C) {
	r := c.R
	text, want, _ := gen.JSONText(r, gen.JSONTextOpts{MaxDepth: 6, MaxNodes: 50, Compact: r.P(1, 4)})
	if r.P(1, 8) {
		// nesting past the parser's pre-allocated stacks, with siblings
		// still to come at every open level
		text, want = gen.JSONSpine(r, text, want, gen.SpineDepth(r))
		c.Observe("spine_documents_depth_20_to_100", 1)
	}
	doc := []byte(text)
	c.Begin(refCase{Codec: "json", Doc: hexs(doc), Text: clipb(doc)})
	// the generator's expectation and the reference decoder must agree,
	// otherwise the harness is wrong, not the library
	rr := ref.DecodeJSON(doc)
	if rr.Status != ref.OK || len(rr.Values) != 1 || val.Equal(want, rr.Values[0], val.NumExact) != "" {
		c.Violationf("harness", "harness:json-gen-vs-ref", "generator and reference decoder disagree on %q: %v %s", text, rr.Status, rr.Err)
		return
	}
	if !json.Valid(doc) {
		c.Violationf("harness", "harness:json-valid", "generated text is not valid per encoding/json: %q", text)
		return
	}
	if rr.Has("big-int") || rr.Has("float-overflow") {
		c04BigCheck(c, doc, want, rr, r)
		return
	}
	checkAgainstRef(c, codec.JSON, doc, []val.V{want}, val.NumLoose, r)
	c.Nontrivial(gen.HashBytes(doc))
	if len(doc) > 20 {
		c.Sample("json-valid", clipb(doc))
	}
}

// numbers outside the 64 bit / float64 range: rejected, or widened to the
// correctly rounded float; never another number.
func c04Big(c *run.C) {
	r := c.R
	text, want, _ := gen.JSONText(r, gen.JSONTextOpts{MaxDepth: 3, MaxNodes: 12, BigNums: true})
	doc := []byte(text)
	c.Begin(refCase{Codec: "json", Doc: hexs(doc), Text: clipb(doc)})
	rr := ref.DecodeJSON(doc)
	if rr.Status != ref.OK {
		c.Violationf("harness", "harness:json-gen-vs-ref", "reference rejects generated text %q: %s", text, rr.Err)
		return
	}
	c04BigCheck(c, doc, want, rr, r)
}

func c04BigCheck(c *run.C, doc []byte, want val.V, rr ref.Result, r *gen.Rand) {
	text := string(doc)
	m, err, ok := parseBoth(c, codec.JSON, doc, r)
	if !ok {
		return
	}
	big := rr.Has("big-int") || rr.Has("float-overflow")
	if err != nil {
		if !big {
			c.Violationf("rejected-valid", "json:rejected-valid", "json parser rejects a valid document: %v\ntext=%q", err, text)
			return
		}
		c.Observe("out_of_range_rejected", 1)
		return
	}
	got, verr := m.Events.Values()
	if verr != nil || len(got) != 1 {
		c.Violationf("mismatch", "json:value-count", "json parser reported %d values (%v) for %q", len(got), verr, text)
		return
	}
	// float overflow denotes +-Inf in the reference (ParseFloat); a library that
	// accepts it must report that, an accepted big integer must be the rounded float
	if d := val.Equal(want, got[0], val.NumLoose); d != "" {
		c.Violationf("mismatch", "json:value", "json parser reports another number than the reference decoder: %s\ntext=%q\nevents=%s", d, text, m.Events)
		return
	}
	if big {
		c.Observe("out_of_range_widened", 1)
	}
	c.Observe("values_equal_to_reference", 1)
	c.Nontrivial(gen.HashBytes(doc))
}

// structural violations: individually valid tokens whose bracket / comma /
// colon structure is not that of a JSON text must be rejected.
func c04Structure(c *run.C) {
	r := c.R
	text, _, toks := gen.JSONText(r, gen.JSONTextOpts{MaxDepth: 4, MaxNodes: 20, Container: true, Compact: r.Bool()})
	doc := []byte(text)
	inTok := func(p int) bool {
		for _, t := range toks {
			if p > t[0] && p < t[1] {
				return true
			}
		}
		return false
	}
	atTokByte := func(p int) bool {
		for _, t := range toks {
			if p >= t[0] && p < t[1] {
				return true
			}
		}
		return false
	}
	structural := []byte("[]{},:")
	var mut []byte
	how := ""
	for try := 0; try < 50 && mut == nil; try++ {
		p := r.Intn(len(doc) + 1)
		if inTok(p) {
			continue
		}
		switch r.Intn(4) {
		case 0: // insert a structural character
			ch := gen.Pick(r, structural)
			mut = append(append(append([]byte{}, doc[:p]...), ch), doc[p:]...)
			how = fmt.Sprintf("insert %q at %d", ch, p)
		case 1: // delete a structural character
			if p < len(doc) && !atTokByte(p) && bytes.IndexByte(structural, doc[p]) >= 0 && !mergesTokens(doc, p) {
				mut = append(append([]byte{}, doc[:p]...), doc[p+1:]...)
				how = fmt.Sprintf("delete %q at %d", doc[p], p)
			}
		case 2: // replace a structural character by another one
			if p < len(doc) && !atTokByte(p) && bytes.IndexByte(structural, doc[p]) >= 0 {
				ch := gen.Pick(r, structural)
				if ch != doc[p] && !mergesTokens(doc, p) {
					mut = append([]byte{}, doc...)
					mut[p] = ch
					how = fmt.Sprintf("replace %q by %q at %d", doc[p], ch, p)
				}
			}
		default: // duplicate a value separator / swap two neighbours
			if p+1 < len(doc) && !atTokByte(p) && !atTokByte(p+1) && bytes.IndexByte(structural, doc[p]) >= 0 && bytes.IndexByte(structural, doc[p+1]) >= 0 && doc[p] != doc[p+1] {
				mut = append([]byte{}, doc...)
				mut[p], mut[p+1] = mut[p+1], mut[p]
				how = fmt.Sprintf("swap at %d", p)
			}
		}
	}
	if mut == nil {
		c.Observe("structure_no_mutation", 1)
		return
	}
	c.Begin(refCase{Codec: "json", Doc: hexs(mut), Text: clipb(mut), How: how})
	rr := ref.DecodeJSON(mut)
	if rr.Status == ref.OK {
		// still a valid sequence of JSON texts (e.g. "[1][2]"): nothing to demand
		c.Observe("structure_mutation_still_valid", 1)
		return
	}
	_, err, ok := parseBoth(c, codec.JSON, mut, r)
	if !ok {
		return
	}
	if err == nil {
		c.Violationf("accepted-invalid", "json:accepted-bad-structure", "json parser accepts a token sequence whose structure is not a JSON text (%s; reference: %s)\ntext=%q", how, rr.Err, clipb(mut))
		return
	}
	c.Observe("structure_violations_rejected", 1)
	c.Nontrivial(gen.HashBytes(mut))
	c.Sample("json-structure", map[string]string{"how": how, "text": clipb(mut)})
}

// mergesTokens: removing the byte at p would glue two scalar tokens together
// ("0,65536" -> "065536"), producing an invalid token rather than an invalid
// structure.
func mergesTokens(doc []byte, p int) bool {
	isTok := func(b byte) bool {
		return b == '"' || b == '+' || b == '-' || b == '.' || (b >= '0' && b <= '9') || (b >= 'a' && b <= 'z') || (b >= 'A' && b <= 'Z')
	}
	return p > 0 && p+1 < len(doc) && isTok(doc[p-1]) && isTok(doc[p+1])
}

var corpusOnce sync.Once
var corpusLines [][]byte

func loadCorpus() {
	corpusOnce.Do(func() {
		for _, f := range []string{"metricbeat_events.json", "packetbeat_events.json", "filebeat_events.json"} {
			fh, err := os.Open(filepath.Join(repoDir(), "bench", "files", f))
			if err != nil {
				continue
			}
			sc := bufio.NewScanner(fh)
			sc.Buffer(make([]byte, 1<<20), 16<<20)
			for sc.Scan() {
				if len(bytes.TrimSpace(sc.Bytes())) > 0 {
					corpusLines = append(corpusLines, append([]byte{}, sc.Bytes()...))
				}
			}
			fh.Close()
		}
	})
}

// realistic documents shipped with the repository (bench/files).
func c04Corpus(c *run.C) {
	loadCorpus()
	if len(corpusLines) == 0 {
		c.Observe("corpus_missing", 1)
		return
	}
	per := (len(corpusLines) + 63) / 64
	for i := c.Idx * per; i < (c.Idx+1)*per && i < len(corpusLines); i++ {
		doc := corpusLines[i]
		rr := ref.DecodeJSON(doc)
		if rr.Status != ref.OK {
			continue
		}
		c.Begin(refCase{Codec: "json", Doc: hexs(doc), How: "corpus"})
		checkAgainstRef(c, codec.JSON, doc, rr.Values, val.NumLoose, c.R)
		c.Observe("corpus_docs", 1)
		c.Nontrivial(gen.HashBytes(doc))
	}
}

// ---------------------------------------------------------------------------
// C05

func c05Valid(c *run.C) {
	r := c.R
	doc, want, _, _ := gen.CBORItem(r, gen.CBOROpts{MaxDepth: 6, MaxNodes: 50, NonMinimal: true})
	if r.P(1, 8) {
		doc, want = gen.CBORSpine(r, doc, want, gen.SpineDepth(r))
		c.Observe("spine_documents_depth_20_to_100", 1)
	}
	c.Begin(refCase{Codec: "cborl", Doc: hexs(doc)})
	rr := ref.DecodeCBOR(doc)
	if rr.Status != ref.OK || len(rr.Values) != 1 || val.Equal(want, rr.Values[0], val.NumExact) != "" || rr.Unsupported() {
		c.Violationf("harness", "harness:cbor-gen-vs-ref", "generator and reference decoder disagree on %s: %v %s", hexs(doc), rr.Status, rr.Err)
		return
	}
	checkAgainstRef(c, codec.CBOR, doc, []val.V{want}, val.NumExact, r)
	c.Nontrivial(gen.HashBytes(doc))
	if len(doc) > 8 {
		c.Sample("cbor-valid", hexs(doc))
	}
}

// every argument width for the same value, for every major type using
// arguments.
func c05Widths(c *run.C) {
	r := c.R
	// values: exhaustive small range per case block + boundaries
	base := uint64(c.Idx) * 256
	var vals []uint64
	for v := base; v < base+256 && v <= 1<<16+16; v++ {
		vals = append(vals, v)
	}
	if c.Idx%16 == 0 {
		for _, b := range gen.Boundaries {
			for d := -2; d <= 2; d++ {
				vals = append(vals, b+uint64(d))
			}
		}
	}
	n := 0
	for _, v := range vals {
		for _, w := range []int{0, 1, 2, 4, 8} {
			if !fitsWidth(v, w) {
				continue
			}
			for _, major := range []byte{0, 1} {
				doc := cborHead(major, v, w)
				var want val.V
				if major == 0 {
					want = val.VUint(v)
				} else {
					if v > 1<<63-1 {
						continue // below -2^63: see the unsupported suite
					}
					want = val.VNegMag(v + 1)
				}
				c.Begin(refCase{Codec: "cborl", Doc: hexs(doc), How: "width"})
				checkAgainstRef(c, codec.CBOR, doc, []val.V{want}, val.NumExact, r)
				n++
			}
			// as a length of a text string / array (kept small)
			if v <= 300 {
				s := bytes.Repeat([]byte{'x'}, int(v))
				doc := append(cborHead(3, v, w), s...)
				c.Begin(refCase{Codec: "cborl", Doc: hexs(doc), How: "width-text"})
				checkAgainstRef(c, codec.CBOR, doc, []val.V{val.VStr(string(s))}, val.NumExact, r)
				doc = cborHead(4, v, w)
				want := val.V{K: val.Arr}
				for i := uint64(0); i < v; i++ {
					doc = append(doc, 0xf6)
					want.A = append(want.A, val.VNil())
				}
				checkAgainstRef(c, codec.CBOR, doc, []val.V{want}, val.NumExact, r)
				n += 2
			}
		}
	}
	// long strings and containers whose length needs the 4- or 8-byte argument
	if c.Idx%16 == 1 {
		for _, L := range []int{65535, 65536, 65537, 70001} {
			for _, w := range []int{2, 4, 8} {
				if !fitsWidth(uint64(L), w) {
					continue
				}
				str := bytes.Repeat([]byte{'y'}, L)
				doc := append(cborHead(3, uint64(L), w), str...)
				c.Begin(refCase{Codec: "cborl", Doc: fmt.Sprintf("text string of %d bytes, %d-byte length", L, w), How: "width-long"})
				checkAgainstRef(c, codec.CBOR, doc, []val.V{val.VStr(string(str))}, val.NumExact, r)
				doc = cborHead(4, uint64(L), w)
				want := val.V{K: val.Arr, A: make([]val.V, L)}
				for i := 0; i < L; i++ {
					doc = append(doc, byte(i%24))
					want.A[i] = val.VUint(uint64(i % 24))
				}
				checkAgainstRef(c, codec.CBOR, doc, []val.V{want}, val.NumExact, r)
				n += 2
			}
		}
	}
	c.Observe("width_items", n)
	c.Nontrivial(gen.Mix(50, uint64(c.Idx)))
}

func fitsWidth(v uint64, w int) bool {
	switch w {
	case 0:
		return v < 24
	case 1:
		return v <= 0xff
	case 2:
		return v <= 0xffff
	case 4:
		return v <= 0xffffffff
	}
	return true
}

func cborHead(major byte, v uint64, w int) []byte {
	switch w {
	case 0:
		return []byte{major<<5 | byte(v)}
	case 1:
		return []byte{major<<5 | 24, byte(v)}
	case 2:
		return []byte{major<<5 | 25, byte(v >> 8), byte(v)}
	case 4:
		return []byte{major<<5 | 26, byte(v >> 24), byte(v >> 16), byte(v >> 8), byte(v)}
	}
	return []byte{major<<5 | 27, byte(v >> 56), byte(v >> 48), byte(v >> 40), byte(v >> 32), byte(v >> 24), byte(v >> 16), byte(v >> 8), byte(v)}
}

var cborUnsupported = []string{"tag", "half", "indef-string", "nontext-key", "neg-below-int64", "simple"}

// items using a feature outside the subset must be refused and not reported
// as a complete value.
func c05Unsupported(c *run.C) {
	r := c.R
	feat := cborUnsupported[c.Idx%len(cborUnsupported)]
	doc, _, injected, _ := gen.CBORItem(r, gen.CBOROpts{MaxDepth: 4, MaxNodes: 20, NonMinimal: true, Unsupported: feat})
	c.Begin(refCase{Codec: "cborl", Doc: hexs(doc), How: "unsupported:" + feat})
	rr := ref.DecodeCBOR(doc)
	if !injected || rr.Status != ref.OK || !rr.Unsupported() {
		c.Violationf("harness", "harness:cbor-unsupported-gen", "generator failed to inject %s into a well-formed item: %s (%v %s)", feat, hexs(doc), rr.Status, rr.Err)
		return
	}
	m, err, ok := parseBoth(c, codec.CBOR, doc, r)
	if !ok {
		return
	}
	if err == nil {
		c.Violationf("accepted-unsupported", "cborl:accepted-unsupported:"+feat, "cborl parser accepts an item using %s (outside the supported subset) and reports %s\ndoc=%s", feat, m.Events, hexs(doc))
		return
	}
	if m.Docs > 0 {
		c.Violationf("accepted-unsupported", "cborl:reported-unsupported:"+feat, "cborl parser reported a complete value for an item using %s before failing: %s\ndoc=%s", feat, m.Events, hexs(doc))
		return
	}
	// "never reported as some other value": the refusal must stand when the
	// caller makes its next call on the same decoder / parser
	m2 := mon.NewMonitor()
	var first error
	afterFirst := -1
	ok2, _ := guardCall(c, "cborl.after-refusal", func() int { return m2.NEvents }, func() {
		if c.Idx%2 == 0 {
			d := codec.CBOR.NewBytesDecoder(append(append([]byte{}, doc...), 1, 2, 3, 4, 5, 6, 7, 8), m2.WithRefs())
			for i := 0; i < 4; i++ {
				mon.Progress++
				err := d.Next()
				if err != nil && first == nil {
					first, afterFirst = err, m2.NEvents
				}
			}
		} else {
			p := codec.CBOR.NewParser(m2.WithRefs())
			for _, ch := range [][]byte{doc, {1, 2, 3, 4}, {5, 6, 7, 8}, {0x01}} {
				mon.Progress++
				_, err := p.Write(ch)
				if err != nil && first == nil {
					first, afterFirst = err, m2.NEvents
				}
			}
		}
	})
	if !ok2 {
		return
	}
	if first != nil && m2.NEvents > afterFirst {
		c.Violationf("accepted-unsupported", "cborl:reported-after-refusal:"+feat, "after refusing an item using %s (%v) the same cborl decoder/parser went on to report %d more events on the caller's next calls: %s\ndoc=%s", feat, first, m2.NEvents-afterFirst, m2.Events[afterFirst:], hexs(doc))
		return
	}
	c.Observe("calls_after_refusal", 3)
	c.Observe("unsupported_refused_"+feat, 1)
	c.Nontrivial(gen.HashBytes(doc))
	c.Sample("cbor-unsupported-"+feat, hexs(doc))
}

// ---------------------------------------------------------------------------
// C06

func c06Valid(c *run.C) {
	r := c.R
	doc, want, _ := gen.UBJSONValue(r, gen.UBJSONOpts{MaxDepth: 6, MaxNodes: 50, Noops: r.P(1, 3)})
	if r.P(1, 8) {
		doc, want = gen.UBJSONSpine(r, doc, want, gen.SpineDepth(r))
		c.Observe("spine_documents_depth_20_to_100", 1)
	}
	c.Begin(refCase{Codec: "ubjson", Doc: hexs(doc)})
	rr := ref.DecodeUBJSON(doc)
	if rr.Status != ref.OK || len(rr.Values) != 1 || val.Equal(want, rr.Values[0], val.NumExact) != "" {
		c.Violationf("harness", "harness:ubjson-gen-vs-ref", "generator and reference decoder disagree on %s: %v %s", hexs(doc), rr.Status, rr.Err)
		return
	}
	for f := range rr.Features {
		c.Observe("feature_"+f, 1)
	}
	checkAgainstRef(c, codec.UBJSON, doc, []val.V{want}, val.NumExact, r)
	c.Nontrivial(gen.HashBytes(doc))
	if len(doc) > 8 {
		c.Sample("ubjson-valid", hexs(doc))
	}
}

// c06HugeCounts: counts of 2^31 and more are valid for containers whose
// elements need no bytes ([$Z#L<n>: n nulls in 13 bytes).  Nobody can wait for
// 2^31 events; the visitor stops after a few and the events until then are
// checked: the container start announcing n and elements of the right kind.
func c06HugeCounts(c *run.C) {
	counts := []uint64{1<<31 - 1, 1 << 31, 1<<31 + 1, 1<<32 - 1, 1 << 32, 1 << 40, 1<<62 + 5, 1<<63 - 1}
	n := counts[c.Idx%len(counts)]
	typ := []byte{'Z', 'T', 'F'}[(c.Idx/len(counts))%3]
	obj := (c.Idx/(3*len(counts)))%2 == 1
	if obj {
		return // a typed object needs key bytes per member: never complete
	}
	doc := []byte{'[', '$', typ, '#', 'L'}
	doc = binary.BigEndian.AppendUint64(doc, n)
	entry := (c.Idx / (6 * len(counts))) % 3
	c.Begin(refCase{Codec: "ubjson", Doc: hexs(doc), How: fmt.Sprintf("huge count, entry %d", entry)})
	m := mon.NewMonitor()
	m.Fail, m.FailErr = 40, mon.ErrVisitor
	var err error
	if !c.Guard("ubjson.huge-count", func() {
		switch entry {
		case 0:
			err = codec.UBJSON.Parse(exactCopy(doc), m.WithRefs())
		case 1:
			err = codec.UBJSON.NewBytesDecoder(exactCopy(doc), m.WithRefs()).Next()
		default:
			err = codec.UBJSON.NewDecoder(&mon.ChunkReader{Data: doc, Sizes: []int{c.R.Range(1, 5)}}, 16, m.WithRefs()).Next()
		}
	}) {
		return
	}
	if !errors.Is(err, mon.ErrVisitor) {
		c.Violationf("rejected-valid", "ubjson:huge-count-refused", "ubjson parser does not deliver a valid container of %d zero-width elements: it returned %v after %d events (expected: events until the visitor stops it)\ndoc=%s", n, err, m.NEvents, hexs(doc))
		return
	}
	ev := m.Events
	if len(ev) < 2 || ev[0].K != val.EArrStart || uint64(ev[0].N) != n {
		c.Violationf("mismatch", "ubjson:huge-count-start", "container of %d elements announced as %v\ndoc=%s", n, ev, hexs(doc))
		return
	}
	for _, e := range ev[1:] {
		okKind := (typ == 'Z' && e.K == val.ENil) || (typ == 'T' && e.K == val.EBool && e.B) || (typ == 'F' && e.K == val.EBool && !e.B)
		if !okKind {
			c.Violationf("mismatch", "ubjson:huge-count-element", "element %v in a container of type %c\ndoc=%s", e, typ, hexs(doc))
			return
		}
	}
	c.Observe("huge_counts_delivered", 1)
	c.Nontrivial(gen.Mix(66, uint64(c.Idx)))
}

// directed: optimized containers followed by siblings that must decode with
// their own markers; every length marker for every small length.
func c06Directed(c *run.C) {
	r := c.R
	var doc []byte
	var want val.V
	switch c.Idx % 3 {
	case 0:
		// [ <typed container> <sibling> <typed container> <sibling> ]
		doc = append(doc, '[')
		want = val.V{K: val.Arr}
		for i := 0; i < 3; i++ {
			b, v, _ := gen.UBJSONValue(r, gen.UBJSONOpts{MaxDepth: 3, MaxNodes: 8, Container: true})
			doc = append(doc, b...)
			want.A = append(want.A, v)
			sb, sv, _ := gen.UBJSONValue(r, gen.UBJSONOpts{MaxDepth: 1, MaxNodes: 2})
			doc = append(doc, sb...)
			want.A = append(want.A, sv)
		}
		doc = append(doc, ']')
	case 1:
		// string / key lengths with every marker for lengths 0..300 and around
		// the 2-byte boundaries
		lens := []int{32767, 32768, 32769, 65535, 65536, 70001}
		n := c.Idx / 3 % (301 + len(lens))
		if n > 300 {
			n = lens[n-301]
		}
		s := bytes.Repeat([]byte{'k'}, n)
		want = val.V{K: val.Arr}
		doc = append(doc, '[')
		for _, m := range []byte{'i', 'U', 'I', 'l', 'L'} {
			if (m == 'i' && n > 127) || (m == 'U' && n > 255) || (m == 'I' && n > 32767) {
				continue
			}
			doc = append(doc, 'S')
			doc = append(doc, ubjLen(m, n)...)
			doc = append(doc, s...)
			want.A = append(want.A, val.VStr(string(s)))
			doc = append(doc, '{')
			doc = append(doc, ubjLen(m, n)...)
			doc = append(doc, s...)
			doc = append(doc, 'T', '}')
			want.A = append(want.A, val.V{K: val.Obj, Keys: []string{string(s)}, A: []val.V{val.VBool(true)}})
		}
		doc = append(doc, ']')
	default:
		// nested typed containers of containers, 3 deep
		b, v, _ := gen.UBJSONValue(r, gen.UBJSONOpts{MaxDepth: 5, MaxNodes: 30, Container: true})
		doc, want = b, v
	}
	c.Begin(refCase{Codec: "ubjson", Doc: hexs(doc), How: "directed"})
	rr := ref.DecodeUBJSON(doc)
	if rr.Status != ref.OK || len(rr.Values) != 1 || val.Equal(want, rr.Values[0], val.NumExact) != "" {
		c.Violationf("harness", "harness:ubjson-gen-vs-ref", "generator and reference decoder disagree on %s: %v %s", hexs(doc), rr.Status, rr.Err)
		return
	}
	for f := range rr.Features {
		c.Observe("feature_"+f, 1)
	}
	checkAgainstRef(c, codec.UBJSON, doc, []val.V{want}, val.NumExact, r)
	c.Nontrivial(gen.HashBytes(doc))
}

func ubjLen(m byte, n int) []byte {
	switch m {
	case 'i', 'U':
		return []byte{m, byte(n)}
	case 'I':
		return []byte{m, byte(n >> 8), byte(n)}
	case 'l':
		return []byte{m, byte(n >> 24), byte(n >> 16), byte(n >> 8), byte(n)}
	}
	return []byte{m, 0, 0, 0, 0, byte(n >> 24), byte(n >> 16), byte(n >> 8), byte(n)}
}

func init() {
	run.Register(&run.Check{
		ID:    "C04",
		Level: "exploration",
		Rule: "valid: grammar-generated RFC 8259 texts (all escapes, \\u with mixed hex case, surrogate pairs, lone surrogates followed by escapes / UTF-8 / another surrogate, number forms incl. all 64-bit boundary integer literals, " +
			"fractions and exponents, insignificant whitespace, nesting <= 6, duplicate keys) + every line of bench/files/*.json; oracle: recorded value == generator's value == encoding/json token value (integers exact, floats bit-compared after ParseFloat). " +
			"big: integer literals outside 64 bits and floats beyond float64: error, or the correctly rounded float. structure: valid texts with one structural character inserted / deleted / replaced / swapped outside of tokens, " +
			"kept only if the reference no longer accepts them: the parser must return an error. Each document is parsed whole and through a chunked reader. distinct_nontrivial = distinct documents.",
		Assumptions: []string{
			"an integer literal reported as a float of exactly the same numeric value (and vice versa) is accepted; only a different number is a violation",
			"lone surrogate escapes denote U+FFFD, as encoding/json assigns",
			"a sequence of several top-level values is not demanded to be rejected (the README documents streams)",
		},
		Suites: []*run.Suite{
			{Name: "valid", N: tierN(120000, 5000000), Case: c04Valid, Require: []string{"values_equal_to_reference"}},
			{Name: "big", N: tierN(20000, 500000), Case: c04Big, Require: []string{"out_of_range_rejected"}},
			{Name: "structure", N: tierN(60000, 2000000), Case: c04Structure, Require: []string{"structure_violations_rejected"}},
			{Name: "corpus", N: tierN(64, 64), Case: c04Corpus, Require: []string{"corpus_docs"}},
		},
	})
	run.Register(&run.Check{
		ID:    "C05",
		Level: "exploration",
		Rule: "valid: foreign CBOR items over the supported subset (every argument width chosen at random incl. non-minimal ones, full unsigned range, negative range down to -2^63, single/double floats incl. NaN payloads, " +
			"false/true/null/undefined, definite text and byte strings, definite and indefinite arrays and maps with text keys incl. empty keys, nesting <= 6); widths: exhaustively every value 0..65552 and all boundary±2 values in each of the " +
			"5 argument widths that can hold it, as unsigned, as negative, and (<=300) as text length and array length; unsupported: the same items with exactly one tag / half float / indefinite-length string / non-text key / " +
			"negative integer below -2^63 / unassigned simple value injected at a random position. Oracle: recorded value == generator's value == refcbor value; unsupported => error and no complete value reported. distinct_nontrivial = distinct documents (width blocks count once).",
		Assumptions: []string{
			"byte strings are compared as arrays of their bytes, undefined as null (the library's documented mapping)",
			"unassigned simple values are treated as outside the subset (the property lists the supported simple values exhaustively)",
			"UTF-8 validity of text strings is not checked by either side",
		},
		Suites: []*run.Suite{
			{Name: "valid", N: tierN(150000, 6000000), Case: c05Valid, Require: []string{"values_equal_to_reference"}},
			{Name: "widths", N: tierN(258, 258), Case: c05Widths, Require: []string{"width_items"}},
			{Name: "unsupported", N: tierN(30000, 600000), Case: c05Unsupported, Require: []string{"unsupported_refused_tag", "unsupported_refused_half", "unsupported_refused_indef-string", "unsupported_refused_nontext-key", "unsupported_refused_neg-below-int64", "unsupported_refused_simple"}},
		},
	})
	run.Register(&run.Check{
		ID:    "C06",
		Level: "exploration",
		Rule: "valid: foreign UBJSON draft-12 values (all scalar markers incl. C and H, string/key/count lengths with a randomly chosen integer marker i/U/I/l/L able to hold them, plain / counted / typed-and-counted arrays and objects " +
			"of every element type incl. containers of containers, no-ops in value position of plain and counted containers, empty containers and strings, nesting <= 8); directed: optimized containers alternating with scalar siblings, every length 0..300 with each " +
			"of the five length markers for strings and keys, deep typed containers. Oracle: recorded value == generator's value == refubj value (H as its decimal string, C as its byte). distinct_nontrivial = distinct documents.",
		Assumptions: []string{
			"no-ops are generated wherever a value marker may stand (array elements, object field values, between top-level values); no-ops before object keys or inside typed containers are not valid and not generated",
			"the no-op marker as element type of a typed container is not generated (the parser refuses it)",
		},
		Suites: []*run.Suite{
			{Name: "valid", N: tierN(150000, 6000000), Case: c06Valid, Require: []string{"values_equal_to_reference", "feature_typed", "feature_counted", "feature_typed-container-of-containers", "feature_highprec", "feature_char", "feature_noop-in-container", "feature_noop-in-counted", "feature_noop-in-object", "feature_noop-before-key"}},
			{Name: "directed", N: tierN(6000, 60000), Case: c06Directed, Require: []string{"values_equal_to_reference"}},
			{Name: "huge-counts", N: tierN(8*3*2*3, 8*3*2*3), Case: c06HugeCounts, Require: []string{"huge_counts_delivered"}},
		},
	})
}

// long-lived parsers (see parseBoth)
type llParser struct {
	p    codec.Parser
	sink *switchSink
}

var (
	longLived     = map[string]*llParser{}
	longLivedPrev = map[string][]byte{}
)

func parseLongLived(cd *codec.Codec, doc []byte, m *mon.Monitor, r *gen.Rand) (string, error) {
	ll := longLived[cd.Name]
	if ll == nil {
		ll = &llParser{sink: &switchSink{}}
		ll.p = cd.NewParser(ll.sink)
		longLived[cd.Name] = ll
		longLivedPrev[cd.Name] = nil
	}
	ll.sink.ExtVisitor = structform.EnsureExtVisitor(m.WithRefs())
	switch r.Intn(3) {
	case 0:
		return "Parse", ll.p.Parse(exactCopy(doc))
	case 1:
		return "ParseString", ll.p.ParseString(string(doc))
	default:
		if !hook.Enabled {
			return "Parse", ll.p.Parse(exactCopy(doc))
		}
		for _, ch := range mon.Chunks(doc, []int{r.Range(1, 9), r.Range(1, 40)}) {
			mon.Progress++
			if _, err := ll.p.Write(ch); err != nil {
				return "Write", err
			}
		}
		err, _ := hook.Finalize(ll.p)
		return "Write+end", err
	}
}
