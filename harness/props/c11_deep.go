package props

import (
	"fmt"
	"reflect"

	"verif/harness/gen"
	"verif/harness/run"
	"verif/harness/zoo"
)

// C11 "deep": values whose nesting is deeper than any internal pre-allocated
// stack or buffer of the unfolder (the generated types rarely nest more than
// four containers): generic data below interface{} positions (maps in maps,
// slices in slices, alternating, with and without siblings before and after
// the nested entry) and typed nestings built from the same shapes.

func deepGeneric(r *gen.Rand, depth int, shape int) interface{} {
	if depth == 0 {
		switch r.Intn(4) {
		case 0:
			return map[string]interface{}{"leaf": int64(r.Intn(100)), "s": "x"}
		case 1:
			return []interface{}{int64(1), "two"}
		case 2:
			return map[string]interface{}{}
		default:
			return int64(r.Intn(1000))
		}
	}
	inner := deepGeneric(r, depth-1, shape)
	useMap := shape == 0 || (shape == 2 && depth%2 == 0) || (shape == 3 && r.Bool())
	if useMap {
		m := map[string]interface{}{}
		if r.P(1, 3) {
			m["a_before"] = int64(depth)
		}
		m["n"] = inner
		if r.P(1, 3) {
			m["z_after"] = "after"
		}
		if r.P(1, 6) {
			m["second"] = deepGeneric(r, 0, shape)
		}
		return m
	}
	l := []interface{}{}
	if r.P(1, 3) {
		l = append(l, int64(depth))
	}
	l = append(l, inner)
	if r.P(1, 3) {
		l = append(l, "after")
	}
	return l
}

func deepTyped(depth int, shape int, leaf reflect.Type) reflect.Type {
	t := leaf
	for i := 0; i < depth; i++ {
		switch {
		case shape == 0 || (shape == 2 && i%2 == 0):
			t = reflect.MapOf(gen.TString, t)
		case shape == 1 || shape == 2:
			t = reflect.SliceOf(t)
		default:
			t = reflect.PtrTo(reflect.StructOf([]reflect.StructField{{Name: "A", Type: reflect.TypeOf(0)}, {Name: "N", Type: t}, {Name: "Z", Type: gen.TString}}))
		}
	}
	return t
}

func c11Deep(c *run.C) {
	r := c.R
	path := c11Paths[c.Idx%4]
	shape := (c.Idx / 4) % 4
	depth := []int{4, 5, 6, 7, 8, 9, 12, 16, 17, 31, 32, 33, 40, 64, 65}[(c.Idx/16)%15]
	var t reflect.Type
	var v reflect.Value
	holder := (c.Idx / (16 * 15)) % 5
	if holder < 4 {
		g := deepGeneric(r, depth, shape)
		switch holder {
		case 0:
			t = gen.TIface
			v = reflect.New(t).Elem()
			v.Set(reflect.ValueOf(g))
		case 1:
			t = reflect.TypeOf(map[string]interface{}{})
			v = reflect.ValueOf(map[string]interface{}{"first": g, "other": int64(1)})
		case 2:
			t = reflect.TypeOf(struct {
				A int
				I interface{}
				Z string
			}{})
			v = reflect.New(t).Elem()
			v.Field(0).SetInt(3)
			v.Field(1).Set(reflect.ValueOf(g))
			v.Field(2).SetString("z")
		default:
			t = reflect.TypeOf([]interface{}{})
			v = reflect.ValueOf([]interface{}{int64(0), g, "end"})
		}
	} else {
		if depth > 33 {
			depth = 33
		}
		t = deepTyped(depth, shape, gen.Pick(r, []reflect.Type{reflect.TypeOf(0), gen.TString, reflect.TypeOf(zoo.Plain{}), gen.TIface}))
		v = (&gen.ValueGen{R: r, O: gen.GoValueOpts{MaxLen: 2, NoEmptyKeys: true}}).Value(t, 0)
	}
	c.Begin(goCase{Type: t.String(), Value: valueString(v), How: fmt.Sprintf("deep %s shape=%d depth=%d holder=%d", path, shape, depth, holder)})
	recon, refused, ok := roundTripGo(c, t, v, path)
	if !ok {
		return
	}
	if refused {
		c.Violationf("refused-supported", "unfold:refused-supported", "NewUnfolder refused a target of a supported type: %v\ntype=%s", lastRefusal, t)
		return
	}
	if d := eqGo(v, recon, path, "$"); d != "" {
		c.Violationf("mismatch", path+":deep:"+mismatchClass(d), "round trip (%s) of a value nested %d deep changed it: %s\ntype=%s\noriginal     =%s\nreconstructed=%s", path, depth, d, t, valueString(v), valueString(recon))
		return
	}
	c.Observe("deep_roundtrips", 1)
	c.ObserveMax("max_nesting_depth", depth)
	c.Nontrivial(gen.Mix(111, uint64(c.Idx)))
}

func init() {
	run.Lookup("C11").Suites = append(run.Lookup("C11").Suites, &run.Suite{
		Name: "deep", N: tierN(4*4*15*5*3, 4*4*15*5*40), Case: c11Deep, Require: []string{"deep_roundtrips"},
	})
}
