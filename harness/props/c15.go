package props

import (
	"fmt"
	"reflect"
	"runtime"
	"strings"

	structform "github.com/elastic/go-structform"
	"github.com/elastic/go-structform/gotype"

	"verif/harness/codec"
	"verif/harness/gen"
	"verif/harness/hook"
	"verif/harness/mon"
	"verif/harness/run"
	"verif/harness/zoo"
)

// C15: stored values never alias transient buffers; unsafe conversions stay
// valid.

type aliasTarget struct {
	A string
	B string `struct:"bee"`
	L []string
	M map[string]string
	I interface{}
	N struct {
		S string
		P *string
	}
}

var c15Types = []reflect.Type{
	gen.TIface,
	reflect.TypeOf(map[string]string{}),
	reflect.TypeOf([]string{}),
	reflect.TypeOf(aliasTarget{}),
	reflect.TypeOf(map[string]interface{}{}),
	reflect.TypeOf([]interface{}{}),
	reflect.TypeOf(map[string][]string{}),
	reflect.TypeOf(map[string]aliasTarget{}),
	reflect.TypeOf(""),
	reflect.TypeOf(zoo.NamedMap{}),
}

// deepCopy copies v into fresh memory (strings are cloned byte by byte).
func deepCopy(v reflect.Value) reflect.Value {
	out := reflect.New(v.Type()).Elem()
	switch v.Kind() {
	case reflect.String:
		out.SetString(strings.Clone(v.String()))
	case reflect.Slice:
		if v.IsNil() {
			return out
		}
		s := reflect.MakeSlice(v.Type(), v.Len(), v.Len())
		for i := 0; i < v.Len(); i++ {
			s.Index(i).Set(deepCopy(v.Index(i)))
		}
		out.Set(s)
	case reflect.Map:
		if v.IsNil() {
			return out
		}
		m := reflect.MakeMapWithSize(v.Type(), v.Len())
		for _, k := range v.MapKeys() {
			m.SetMapIndex(deepCopy(k), deepCopy(v.MapIndex(k)))
		}
		out.Set(m)
	case reflect.Ptr:
		if v.IsNil() {
			return out
		}
		p := reflect.New(v.Type().Elem())
		p.Elem().Set(deepCopy(v.Elem()))
		out.Set(p)
	case reflect.Interface:
		if v.IsNil() {
			return out
		}
		out.Set(deepCopy(v.Elem()))
	case reflect.Struct:
		for i := 0; i < v.NumField(); i++ {
			if v.Type().Field(i).PkgPath == "" {
				out.Field(i).Set(deepCopy(v.Field(i)))
			}
		}
	default:
		out.Set(v)
	}
	return out
}

// sameShape derives a value with identical structure and identical string
// LENGTHS but different string contents (ASCII letters and digits are
// rotated), so that its encoding has the same length and layout and every
// internal buffer is reused byte for byte.
func sameShape(v reflect.Value) reflect.Value {
	out := reflect.New(v.Type()).Elem()
	rot := func(s string) string {
		b := []byte(s)
		for i, c := range b {
			switch {
			case c >= 'a' && c < 'z', c >= 'A' && c < 'Z', c >= '0' && c < '9':
				b[i] = c + 1
			case c == 'z':
				b[i] = 'a'
			case c == 'Z':
				b[i] = 'A'
			case c == '9':
				b[i] = '0'
			}
		}
		return string(b)
	}
	switch v.Kind() {
	case reflect.String:
		out.SetString(rot(v.String()))
	case reflect.Slice:
		if v.IsNil() {
			return out
		}
		s := reflect.MakeSlice(v.Type(), v.Len(), v.Len())
		for i := 0; i < v.Len(); i++ {
			s.Index(i).Set(sameShape(v.Index(i)))
		}
		out.Set(s)
	case reflect.Map:
		if v.IsNil() {
			return out
		}
		m := reflect.MakeMapWithSize(v.Type(), v.Len())
		for _, k := range v.MapKeys() {
			m.SetMapIndex(sameShape(k), sameShape(v.MapIndex(k)))
		}
		out.Set(m)
	case reflect.Ptr:
		if v.IsNil() {
			return out
		}
		p := reflect.New(v.Type().Elem())
		p.Elem().Set(sameShape(v.Elem()))
		out.Set(p)
	case reflect.Interface:
		if v.IsNil() {
			return out
		}
		out.Set(sameShape(v.Elem()))
	case reflect.Struct:
		for i := 0; i < v.NumField(); i++ {
			if v.Type().Field(i).PkgPath == "" {
				out.Field(i).Set(sameShape(v.Field(i)))
			}
		}
	default:
		out.Set(v)
	}
	return out
}

type c15Case struct {
	Codec  string `json:"codec"`
	Type   string `json:"type"`
	Doc1   string `json:"doc1_hex"`
	Doc2   string `json:"doc2_hex"`
	Sizes  []int  `json:"sizes"`
	Cache  int    `json:"key_cache"`
	Entry  string `json:"entry"`
	Values string `json:"value"`
}

func c15Alias(c *run.C) {
	r := c.R
	cd := codec.All[c.Idx%3]
	t := c15Types[(c.Idx/3)%len(c15Types)]
	vo := gen.GoValueOpts{MaxLen: 5, IfaceTypes: []reflect.Type{gen.TString, reflect.TypeOf([]interface{}{}), reflect.TypeOf(map[string]interface{}{}), reflect.TypeOf([]string{}), reflect.TypeOf(map[string]string{}), reflect.TypeOf(0)}}
	if cd.Name != "json" {
		vo.BadUTF8 = true
	}
	vg := &gen.ValueGen{R: r, O: vo}
	v1 := vg.Value(t, 0)
	v2 := sameShape(v1)
	var d1, d2 mon.CountingWriter
	if err := gotype.Fold(v1.Interface(), cd.NewVisitor(&d1, codec.JSONOpts{})); err != nil {
		return
	}
	if err := gotype.Fold(v2.Interface(), cd.NewVisitor(&d2, codec.JSONOpts{})); err != nil {
		return
	}
	// map iteration order may differ between the two folds; layouts then differ, which only weakens (never falsifies) the buffer-reuse argument
	var sizes []int
	switch r.Intn(5) {
	case 0:
		sizes = []int{1}
	case 1:
		sizes = []int{len(d1.Buf) + 1}
	case 2:
		sizes = []int{r.Range(1, 7)}
	case 3:
		sizes = []int{r.Range(1, 5), r.Range(1, 70), r.Range(1, 3)}
	default:
		sizes = []int{64, 1, 63, 65}
	}
	cache := -1
	if r.P(1, 3) {
		cache = gen.Pick(r, []int{1, 2, 8, 64})
	}
	entry := gen.Pick(r, []string{"Write", "ParseReader", "Decoder", "ParseString", "Mixed"})
	if entry == "Write" && !hook.Enabled {
		entry = "ParseReader"
	}
	// "Mixed": ONE Parser instance, first document through its ParseString
	// method, the following ones through Parse / Write with buffers that are
	// overwritten afterwards (a legal sequence of calls on one instance)
	mixedCalls := 0
	c.Begin(c15Case{cd.Name, t.String(), hexs(d1.Buf), hexs(d2.Buf), sizes, cache, entry, valueString(v1)})

	t1 := reflect.New(t)
	t2 := reflect.New(t)
	u, err := gotype.NewUnfolder(t1.Interface())
	if err != nil {
		c.Violationf("refused-supported", "alias:refused", "NewUnfolder refused %s: %v", t, err)
		return
	}
	if cache > 0 {
		u.EnableKeyCache(cache)
	}
	var strInput string
	var strCopy []byte
	var perr error
	parser := cd.NewParser(u)
	feed := func(doc []byte) {
		switch entry {
		case "Write":
			for _, ch := range mon.Chunks(doc, sizes) {
				if _, perr = parser.Write(ch); perr != nil {
					return
				}
				mon.Scribble(ch)
			}
			if ferr, has := hook.Finalize(parser); has {
				perr = ferr
			}
		case "ParseReader":
			// the reader hands out its own scratch buffer contents: io.Copy's
			// buffer is reused between reads, the chunk reader copies into it
			_, perr = cd.ParseReader(&mon.ChunkReader{Data: doc, Sizes: sizes, EOFWithData: len(doc)%2 == 1}, u)
		case "Decoder":
			d := cd.NewDecoder(&mon.ChunkReader{Data: doc, Sizes: sizes, EOFWithData: len(doc)%2 == 1}, gen.Pick(r, []int{1, 3, 16, 64, 4096}), u)
			perr = d.Next()
		case "Mixed":
			mixedCalls++
			switch {
			case mixedCalls == 1:
				perr = parser.ParseString(string(doc))
			case mixedCalls%2 == 0 || !hook.Enabled:
				cp := exactCopy(doc)
				perr = parser.Parse(cp)
				mon.Scribble(cp)
			default:
				for _, ch := range mon.Chunks(doc, sizes) {
					if _, perr = parser.Write(ch); perr != nil {
						return
					}
					mon.Scribble(ch)
				}
				if ferr, has := hook.Finalize(parser); has {
					perr = ferr
				}
			}
		default:
			cp := append([]byte{}, doc...)
			strInput = string(cp)
			strCopy = append([]byte{}, cp...)
			perr = parser.ParseString(strInput)
		}
	}
	if !c.Guard("alias.first", func() { feed(d1.Buf) }) {
		return
	}
	if perr != nil {
		c.Violationf("unfold-error", "alias:first:"+errClass(perr), "unfolding the first document failed: %v\ntype=%s doc=%s", perr, t, hexs(d1.Buf))
		return
	}
	if entry == "ParseString" && strInput != string(strCopy) {
		c.Violationf("alias", "alias:parsestring-written", "the string passed to ParseString was modified")
		return
	}
	snapshot := deepCopy(t1.Elem())
	// follow-up documents of identical layout through the same parser and unfolder
	firstInput, firstCopy := strInput, strCopy
	for round := 0; round < 2; round++ {
		if !c.Guard("alias.followup", func() {
			if err := u.SetTarget(t2.Interface()); err != nil {
				perr = err
				return
			}
			feed(d2.Buf)
		}) {
			return
		}
		if perr != nil {
			c.Violationf("unfold-error", "alias:followup:"+errClass(perr), "unfolding the follow-up document failed: %v\ntype=%s doc=%s", perr, t, hexs(d2.Buf))
			return
		}
	}
	if c.Idx%16 == 0 {
		runtime.GC()
		c.Observe("alias_cases_with_forced_gc", 1)
	}
	if entry == "ParseString" && firstInput != string(firstCopy) {
		c.Violationf("alias", "alias:parsestring-written", "the string passed to ParseString was modified by later parsing")
		return
	}
	if d := eqGoPlain(snapshot, t1.Elem(), cd.Name, "$"); d != "" {
		c.Violationf("alias", "alias:"+cd.Name+":"+entry, "the first target changed while the same parser and unfolder processed further input (%s, %s, chunk sizes %v, key cache %d): %s\ntype=%s\nbefore=%s\nafter =%s",
			cd.Name, entry, sizes, cache, d, t, valueString(snapshot), valueString(t1.Elem()))
		return
	}
	if d := eqGo(v1, t1.Elem(), cd.Name, "$"); d != "" {
		c.Violationf("mismatch", "alias:value:"+cd.Name, "the first target does not hold the first document's value: %s\ntype=%s", d, t)
		return
	}
	if d := eqGo(v2, t2.Elem(), cd.Name, "$"); d != "" {
		c.Violationf("mismatch", "alias:value2:"+cd.Name, "the follow-up target does not hold the follow-up document's value: %s\ntype=%s", d, t)
		return
	}
	c.Observe("alias_cases_"+cd.Name, 1)
	c.Observe("alias_entry_"+entry, 1)
	if cache > 0 {
		c.Observe("alias_with_key_cache", 1)
	}
	c.Observe("strings_checked", countStrings(t1.Elem(), 0))
	c.Nontrivial(gen.Mix(150, uint64(c.Idx%3), gen.HashBytes(d1.Buf), gen.HashString(fmt.Sprint(sizes, entry, cache))))
	if len(d1.Buf) < 80 {
		c.Sample("alias", c15Case{cd.Name, t.String(), hexs(d1.Buf), hexs(d2.Buf), sizes, cache, entry, ""})
	}
}

func countStrings(v reflect.Value, depth int) int {
	if depth > 8 {
		return 0
	}
	n := 0
	switch v.Kind() {
	case reflect.String:
		return 1
	case reflect.Slice:
		for i := 0; i < v.Len(); i++ {
			n += countStrings(v.Index(i), depth+1)
		}
	case reflect.Map:
		for _, k := range v.MapKeys() {
			n += 1 + countStrings(v.MapIndex(k), depth+1)
		}
	case reflect.Ptr, reflect.Interface:
		if !v.IsNil() {
			n += countStrings(v.Elem(), depth+1)
		}
	case reflect.Struct:
		for i := 0; i < v.NumField(); i++ {
			n += countStrings(v.Field(i), depth+1)
		}
	}
	return n
}

// GC schedule: a collection is forced around every event between producer
// and consumer; results must equal the run without forced collections.
func c15GC(c *run.C) {
	r := c.R
	path := c11Paths[c.Idx%4]
	vo := gen.GoValueOpts{ZeroDropped: true, MaxLen: 3}
	if path != "json" {
		vo.BadUTF8, vo.SpecialF = true, true
	}
	t, v := genTypeValue(r, gen.GoTypeOpts{MaxDepth: 3, InlineStructOnly: true, Extra: zoo.Supported}, vo)
	tags := typeTags(t)
	if path == "ubjson" && hasBigUint(v, 0) {
		return // known finding of C11, nothing to learn here
	}
	c.Begin(goCase{Type: t.String(), Value: valueString(v), How: "gc:" + path, Tags: tags})
	runPipe := func(forceGC bool) (reflect.Value, error) {
		target := reflect.New(t)
		u, err := gotype.NewUnfolder(target.Interface())
		if err != nil {
			return target, err
		}
		gcm := mon.NewMonitor()
		gcm.NoRecord = true
		gcm.Next = structform.EnsureExtVisitor(u)
		if forceGC {
			gcm.OnEvent = func() { runtime.GC() }
		}
		if path == "direct" {
			return target, gotype.Fold(v.Interface(), gcm)
		}
		cd := codec.ByName(path)
		var w mon.CountingWriter
		// GC between folder and encoder as well
		gce := mon.NewMonitor()
		gce.NoRecord = true
		gce.Next = structform.EnsureExtVisitor(cd.NewVisitor(&w, codec.JSONOpts{}))
		if forceGC {
			gce.OnEvent = func() { runtime.GC() }
		}
		if err := gotype.Fold(v.Interface(), gce); err != nil {
			return target, err
		}
		_, err = cd.ParseReader(&mon.ChunkReader{Data: w.Buf, Sizes: []int{r.Range(1, 9), r.Range(1, 40)}, EOFWithData: len(w.Buf)%2 == 1}, gcm.WithRefs())
		return target, err
	}
	var plain, forced reflect.Value
	var e1, e2 error
	if !c.Guard("gc.plain", func() { plain, e1 = runPipe(false) }) {
		return
	}
	if !c.Guard("gc.forced", func() { forced, e2 = runPipe(true) }) {
		return
	}
	if (e1 == nil) != (e2 == nil) {
		c.Violationf("gc", "gc:error-differs", "with a GC forced at every event the pipeline returned %v, without %v\ntype=%s", e2, e1, t)
		return
	}
	if e1 != nil {
		c.Observe("gc_pipelines_refused", 1)
		return
	}
	if d := eqGoPlain(plain.Elem(), forced.Elem(), path, "$"); d != "" {
		c.Violationf("gc", "gc:value-differs:"+path, "result depends on garbage collection between events (%s): %s\ntype=%s\nvalue=%s", path, d, t, valueString(v))
		return
	}
	if d := eqGo(v, forced.Elem(), path, "$"); d != "" {
		c.Violationf("mismatch", "gc:value:"+path, "round trip under forced GC changed the value (%s): %s\ntype=%s", path, d, t)
		return
	}
	c.Observe("gc_pipelines_"+path, 1)
	c.Nontrivial(gen.Mix(151, uint64(c.Idx%4), gen.HashString(t.String()), gen.HashString(valueString(v))))
}

func init() {
	gcEnv := []string{"GOGC=1", "GODEBUG=clobberfree=1"}
	suites := []*run.Suite{
		{Name: "alias", N: tierN(90000, 3000000), Case: c15Alias, Require: hookedReq([]string{"alias_cases_json", "alias_cases_ubjson", "alias_cases_cborl", "alias_entry_ParseReader", "alias_entry_Decoder", "alias_entry_ParseString", "alias_with_key_cache", "strings_checked"}, "alias_entry_Write")},
		{Name: "gc", Env: gcEnv, N: tierN(600, 60000), Case: c15GC, Require: []string{"gc_pipelines_direct", "gc_pipelines_json", "gc_pipelines_ubjson", "gc_pipelines_cborl"}},
		// sanitizer builds over the real pipelines (checkptr aborts on any invalid unsafe.Pointer conversion)
		{Name: "alias-race", Build: "race", N: tierN(3000, 300000), Case: c15Alias},
		{Name: "roundtrip-race", Build: "race", N: tierN(3000, 300000), Case: c11Generated},
		{Name: "primitive-race", Build: "race", N: tierN(1200, 60000), Case: c11Primitive},
		{Name: "unfold-generic-race", Build: "race", N: tierN(2000, 200000), Case: c13Generic},
		{Name: "unfold-typed-race", Build: "race", N: tierN(2000, 200000), Case: c13Typed},
		{Name: "codec-race", Build: "race", N: tierN(3000, 300000), Case: c01Tree},
		{Name: "transcode-race", Build: "race", N: tierN(2000, 150000), Case: c08One},
		{Name: "fold-race", Build: "race", N: tierN(2000, 200000), Case: c12Generated},
		// the fold fast paths are selected by type shape: the zoo, the tag sweep and the registered folders too
		{Name: "fold-zoo-race", Build: "race", N: tierN(3000, 200000), Case: c12Zoo},
		{Name: "fold-sweep-race", Build: "race", N: tierN(len(c12FieldKinds)*len(c12Tags)*4*3, len(c12FieldKinds)*len(c12Tags)*4*3*4), Case: c12Sweep},
		{Name: "fold-registered-race", Build: "race", N: tierN(1500, 60000), Case: c12Registered},
	}
	asan := []*run.Suite{
		{Name: "alias-asan", Build: "asan", N: tierN(0, 150000), Case: c15Alias},
		{Name: "roundtrip-asan", Build: "asan", N: tierN(0, 150000), Case: c11Generated},
		{Name: "unfold-typed-asan", Build: "asan", N: tierN(0, 100000), Case: c13Typed},
		{Name: "codec-asan", Build: "asan", N: tierN(0, 150000), Case: c01Tree},
	}
	suites = append(suites, asan...)
	run.Register(&run.Check{
		ID:    "C15",
		Level: "exploration",
		Rule: "alias: for 10 target shapes (interface{}, map[string]string, []string, structs with string / pointer / nested fields, generic maps and slices, maps of structs, named maps) a generated value is folded into each codec and unfolded from private chunk copies " +
			"(1-byte, whole, fixed, mixed and 64-byte-boundary chunkings) that are overwritten with 0xAA as soon as Write returns, or through ParseReader / a reader Decoder / ParseString (whose string must stay unmodified), optionally with the key cache on; a deep copy is taken; " +
			"the SAME parser and unfolder then process two follow-up documents of identical layout but different string contents (every internal buffer is reused byte for byte); GC is forced; the first target must still equal its copy and the original value. " +
			"gc: fold -> (encode -> parse) -> unfold pipelines for generated (type,value) pairs with runtime.GC() forced around every event at both pipe ends, under GOGC=1 GODEBUG=clobberfree=1: target equals the target of the run without forced GC and the original value. " +
			"*-race suites: the C01/C08/C11/C12/C13 pipelines and the alias workload under the race+checkptr build (any invalid unsafe.Pointer conversion is a fatal checkptr error); *-asan suites (thorough): the same under -asan. distinct_nontrivial = distinct cases.",
		Assumptions: []string{
			"a stale zero-copy string is only visible if the memory it points to is overwritten afterwards: the harness overwrites caller chunks and reuses parser buffers with same-layout documents; buffers it cannot reach are out of scope",
			"checkptr / ASan see misuse only on executed paths",
		},
		Suites: suites,
	})
}
