// Place this file in the repository root directory of go-structform
// (next to visitor.go); it is an external test package (structform_test).
//
//   go test -run TestC08_CborByteStringToUbjsonIsInvalid .
//
// Property C08: connecting the cborl parser directly to the ubjson encoder must
// turn every valid CBOR document (explicitly including CBOR byte strings) into
// a VALID UBJSON document with the same value, equal to what decoding and
// re-encoding gives.
//
// Observed: every byte of a CBOR byte string is written as UBJSON char ('C').
// For bytes > 127 this is not a valid UBJSON document (UBJSON draft 12: the
// char type "must not have a decimal value larger than 127"), and for all
// bytes the type differs from decode+re-encode (uint8 array, `[$U#...`).
package structform_test

import (
	"bytes"
	"testing"

	"github.com/elastic/go-structform/cborl"
	"github.com/elastic/go-structform/gotype"
	"github.com/elastic/go-structform/ubjson"
)

// strictUbjsonBytes checks a (flat) UBJSON array as produced by the encoder for
// a byte string: '[' ['$' type] '#' count elements... and returns the element
// values. It enforces the UBJSON rule that a char ('C') must be <= 127.
func strictUbjsonBytes(t *testing.T, b []byte) []int {
	t.Helper()
	if len(b) < 1 || b[0] != '[' {
		t.Fatalf("not an array: %q", b)
	}
	b = b[1:]
	var typ byte
	if len(b) > 1 && b[0] == '$' {
		typ = b[1]
		b = b[2:]
	}
	if len(b) < 3 || b[0] != '#' || (b[1] != 'i' && b[1] != 'U') {
		t.Fatalf("unexpected array header: %q", b)
	}
	n := int(b[2])
	b = b[3:]
	var out []int
	for i := 0; i < n; i++ {
		m := typ
		if m == 0 {
			if len(b) == 0 {
				t.Fatalf("truncated")
			}
			m, b = b[0], b[1:]
		}
		if len(b) == 0 {
			t.Fatalf("truncated")
		}
		v := b[0]
		b = b[1:]
		switch m {
		case 'U':
			out = append(out, int(v))
		case 'i':
			out = append(out, int(int8(v)))
		case 'C':
			if v > 127 {
				t.Errorf("invalid UBJSON: char marker 'C' with value %d (> 127) at element %d", v, i)
			}
			out = append(out, int(v))
		default:
			t.Fatalf("unexpected element marker %q", m)
		}
	}
	if len(b) != 0 {
		t.Fatalf("trailing bytes %q", b)
	}
	return out
}

func TestC08_CborByteStringToUbjsonIsInvalid(t *testing.T) {
	// CBOR: byte string of length 2: h'41ff'
	in := []byte{0x42, 0x41, 0xff}

	// direct streaming transcoding cborl parser -> ubjson encoder
	var direct bytes.Buffer
	if err := cborl.Parse(in, ubjson.NewVisitor(&direct)); err != nil {
		t.Fatal(err)
	}

	// reference: decode into a Go value, re-encode the value
	var v interface{}
	u, err := gotype.NewUnfolder(&v)
	if err != nil {
		t.Fatal(err)
	}
	if err := cborl.Parse(in, u); err != nil {
		t.Fatal(err)
	}
	var re bytes.Buffer
	it, err := gotype.NewIterator(ubjson.NewVisitor(&re))
	if err != nil {
		t.Fatal(err)
	}
	if err := it.Fold(v); err != nil {
		t.Fatal(err)
	}

	t.Logf("direct:    %q", direct.Bytes())
	t.Logf("re-encode: %q", re.Bytes())

	// the re-encoded document is valid UBJSON holding the numbers 65, 255
	if got := strictUbjsonBytes(t, re.Bytes()); len(got) != 2 || got[0] != 0x41 || got[1] != 0xff {
		t.Errorf("re-encoded value: %v", got)
	}

	// the directly transcoded document must be valid UBJSON as well
	if got := strictUbjsonBytes(t, direct.Bytes()); len(got) != 2 || got[0] != 0x41 || got[1] != 0xff {
		t.Errorf("transcoded value: %v", got)
	}

	// and it must not turn numbers (bytes) into characters
	if bytes.Contains(direct.Bytes(), []byte{'C', 0x41}) {
		t.Errorf("byte 0x41 of the CBOR byte string was written as UBJSON character 'A' (C marker), re-encoding writes a uint8")
	}
}

// Second symptom of the same root cause (lower severity): the identity pair
// cborl -> cborl does not keep a byte string a byte string. Decoding and
// re-encoding the value keeps the CBOR major type 2, the direct streaming
// transcoding writes an array (major type 4) of unsigned integers although the
// target format can represent byte strings natively.
func TestC08_CborByteStringToCborChangesType(t *testing.T) {
	in := []byte{0x42, 0x41, 0xff} // h'41ff'

	var direct bytes.Buffer
	if err := cborl.Parse(in, cborl.NewVisitor(&direct)); err != nil {
		t.Fatal(err)
	}

	var v interface{}
	u, err := gotype.NewUnfolder(&v)
	if err != nil {
		t.Fatal(err)
	}
	if err := cborl.Parse(in, u); err != nil {
		t.Fatal(err)
	}
	var re bytes.Buffer
	it, err := gotype.NewIterator(cborl.NewVisitor(&re))
	if err != nil {
		t.Fatal(err)
	}
	if err := it.Fold(v); err != nil {
		t.Fatal(err)
	}

	if !bytes.Equal(re.Bytes(), in) {
		t.Fatalf("decode + re-encode: %x, expected %x", re.Bytes(), in)
	}
	if !bytes.Equal(direct.Bytes(), re.Bytes()) {
		t.Errorf("direct transcoding gives %x (array of uints), decode + re-encode gives %x (byte string)", direct.Bytes(), re.Bytes())
	}
}
