// Place in: gotype/ (package gotype_test, uses the public API only).
// Run:      go test ./gotype -run TestFinding3 -v
//
// C15 finding 3: a "processing" user unfolder
//     func(to *T) (cell interface{}, process func(to *T, cell interface{}) error)
// hands a temporary value (cell) to the Unfolder. unfolderUserProcessingInit.
// initState (unfold_user_processing.generated.go:46ff) never checks that cell
// is a pointer: it calls lookupReflUnfolder(ctx, reflect.TypeOf(cell), false),
// buildReflUnfolder blindly takes t.Elem() ("we always expect a pointer") and
// liftedReflUnfolder.initState converts reflect.Value.Pointer() to an
// unsafe.Pointer to the ELEMENT type (unfold_refl.go:71-74). For a map cell
// Pointer() is the runtime map header, for a slice cell it is the backing
// array: the unfolder then writes an interface{}/string value over the map
// header / into the backing array (also past len and, for cap 0, out of
// bounds). No error is reported. The documentation of gotype.Unfolders only
// speaks of "a temporary value for unfolding"; maps and slices are reference
// types, so passing them without & is an easy mistake that must be rejected
// (like SetTarget does with errRequiresPointer) instead of corrupting memory.
package gotype_test

import (
	"testing"

	"github.com/elastic/go-structform/gotype"
	"github.com/elastic/go-structform/json"
)

type f3Config struct{ N int }

func TestFinding3ProcessingCellMapNotPointer(t *testing.T) {
	cell := map[string]interface{}{}
	fn := func(to *f3Config) (interface{}, func(*f3Config, interface{}) error) {
		return cell, func(to *f3Config, c interface{}) error {
			to.N = len(c.(map[string]interface{}))
			return nil
		}
	}

	var cfg f3Config
	u, err := gotype.NewUnfolder(&cfg, gotype.Unfolders(fn))
	if err != nil {
		return // rejecting the unfolder is fine
	}
	err = json.ParseString(`{"a":1,"b":2}`, u)
	n := len(cell) // only reads the count word of the map header
	cell = nil     // do not touch the (possibly corrupted) map any more
	if err != nil {
		return // reporting an error is fine
	}
	if n != 2 {
		t.Fatalf("no error, but len(cell) = %v after unfolding 2 fields into it: the map header has been overwritten", n)
	}
}

func TestFinding3ProcessingCellSliceNotPointer(t *testing.T) {
	backing := make([]string, 4) // cell is backing[:0]: nothing must be written to backing
	fn := func(to *f3Config) (interface{}, func(*f3Config, interface{}) error) {
		return backing[:0], func(to *f3Config, c interface{}) error {
			to.N = len(c.([]string))
			return nil
		}
	}

	var cfg f3Config
	u, err := gotype.NewUnfolder(&cfg, gotype.Unfolders(fn))
	if err != nil {
		return
	}
	err = json.ParseString(`"abc"`, u) // not even an array
	if err != nil {
		return
	}
	if backing[0] != "" {
		t.Fatalf("no error, string input for a []string cell has been written into the cell's backing array beyond its length: %q", backing)
	}
}
