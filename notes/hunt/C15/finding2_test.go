// Place in: gotype/ (package gotype_test, uses the public API only).
// Run:      go test ./gotype -run TestFinding2 -v
//
// C15 finding 2: NewUnfolder registers every user unfolder func(to *T, ...)
// under two keys of ONE map: the pointer type *T and the value type T
// (unfold.go:121-122). The registry is then queried with two different
// conventions: "type of the pointer to the target" (SetTarget, struct fields,
// unfolderReflPtr) and "element type" (slices unfold_lookup_go.generated.go:447,
// maps :518). Whenever the element type of a slice/map is *T itself the lookup
// by element type hits the entry meant for "pointer to a T target". The user
// function is then called with the address of the *T slot (a **T) converted to
// *T: an invalid pointer conversion. The function writes a T over a pointer
// slot (and, if T is bigger than a pointer, over the neighbouring memory).
// The same collision in the other direction: an unfolder func(to **X, ...) is
// registered for *X as well and is then applied to plain X targets.
//
// T is chosen to have the size of one pointer here so that the test itself
// does not write out of bounds; with a bigger T (e.g. struct{A int; B string})
// the write runs past the 8 byte slot into adjacent heap memory.
package gotype_test

import (
	"testing"
	"unsafe"

	"github.com/elastic/go-structform/gotype"
	"github.com/elastic/go-structform/json"
)

type f2T struct{ N int }

// primitive user unfolder: parse a T from a string
func f2UnfoldT(to *f2T, s string) error {
	to.N = len(s)
	return nil
}

func f2Check(t *testing.T, what string, p *f2T, want int) {
	t.Helper()
	if addr := uintptr(unsafe.Pointer(p)); addr != 0 && addr < 4096 {
		t.Fatalf("%v: element pointer is %#x: the user unfolder has been run on the pointer slot itself (**T passed as *T)", what, addr)
	}
	if p == nil {
		t.Fatalf("%v: element is nil", what)
	}
	if p.N != want {
		t.Fatalf("%v: got N=%v, want %v", what, p.N, want)
	}
}

func TestFinding2SliceOfPointers(t *testing.T) {
	var xs []*f2T
	u, err := gotype.NewUnfolder(&xs, gotype.Unfolders(f2UnfoldT))
	if err != nil {
		t.Fatal(err)
	}
	if err := json.ParseString(`["hello","world!"]`, u); err != nil {
		t.Logf("unfold error (acceptable): %v", err)
		return
	}
	defer func() { xs = nil }()
	f2Check(t, "xs[0]", xs[0], 5)
	f2Check(t, "xs[1]", xs[1], 6)
}

func TestFinding2MapOfPointers(t *testing.T) {
	var m map[string]*f2T
	u, err := gotype.NewUnfolder(&m, gotype.Unfolders(f2UnfoldT))
	if err != nil {
		t.Fatal(err)
	}
	if err := json.ParseString(`{"a":"hello"}`, u); err != nil {
		t.Logf("unfold error (acceptable): %v", err)
		return
	}
	defer func() { m = nil }()
	f2Check(t, `m["a"]`, m["a"], 5)
}

func TestFinding2StructFieldSliceOfPointers(t *testing.T) {
	var s struct {
		Items []*f2T
	}
	u, err := gotype.NewUnfolder(&s, gotype.Unfolders(f2UnfoldT))
	if err != nil {
		t.Fatal(err)
	}
	if err := json.ParseString(`{"items":["hello"]}`, u); err != nil {
		t.Logf("unfold error (acceptable): %v", err)
		return
	}
	defer func() { s.Items = nil }()
	f2Check(t, "s.Items[0]", s.Items[0], 5)
}

// control: the same unfolder with value elements and pointer targets works.
func TestFinding2Controls(t *testing.T) {
	var xs []f2T
	u, err := gotype.NewUnfolder(&xs, gotype.Unfolders(f2UnfoldT))
	if err != nil {
		t.Fatal(err)
	}
	if err := json.ParseString(`["hello"]`, u); err != nil {
		t.Fatal(err)
	}
	if xs[0].N != 5 {
		t.Fatalf("unexpected %+v", xs)
	}

	var p *f2T
	u, err = gotype.NewUnfolder(&p, gotype.Unfolders(f2UnfoldT))
	if err != nil {
		t.Fatal(err)
	}
	if err := json.ParseString(`"hello"`, u); err != nil {
		t.Fatal(err)
	}
	if p == nil || p.N != 5 {
		t.Fatalf("unexpected %+v", p)
	}
}

// Reverse collision: an unfolder for *f2X targets (argument **f2X) is applied
// to a plain f2X target; it stores a heap pointer in the int field f2X.A.
type f2X struct {
	A int
	B string
}

func TestFinding2PtrPtrUnfolderOnValueTarget(t *testing.T) {
	fn := func(to **f2X, s string) error {
		*to = &f2X{A: 1, B: s}
		return nil
	}

	var x f2X
	u, err := gotype.NewUnfolder(&x, gotype.Unfolders(fn))
	if err != nil {
		t.Fatal(err)
	}

	// a string is no valid input for a struct target, an error is expected
	err = json.ParseString(`"hello"`, u)
	if err == nil || x.A != 0 {
		t.Fatalf("err=%v, x.A=%#x: unfolder for **f2X was run on a *f2X target (a pointer has been stored in the int field)", err, x.A)
	}
}
