// Place in: gotype/ (package gotype_test, uses the public API only).
// Run:      go test ./gotype -run TestFinding1 -v
//
// C15 finding 1: a user folder (gotype.Folders) registered for *T is also
// registered for values of type T (fold_opts.go:71, liftUserValueFn). For
// values the target pointer is taken from the reflect.Value's data word
// (fold_user.go:71, stunsafe.ReflValuePtr(v)). That word only is a pointer TO
// the value if the reflect.Value is "indirect". For pointer-shaped types
// (maps, pointers, chans, funcs, structs/arrays consisting of one such field)
// stored in an interface, or read via MapIndex/Field of a non-indirect value,
// the word IS the value. The user function then receives e.g. the runtime's map
// header as *T: an invalid pointer conversion, ending in SIGSEGV or in reading
// unrelated memory.
package gotype_test

import (
	"bytes"
	"fmt"
	"runtime/debug"
	"testing"

	structform "github.com/elastic/go-structform"
	"github.com/elastic/go-structform/gotype"
	"github.com/elastic/go-structform/json"
)

type f1Labels map[string]string

type f1Ref struct{ P *int }

func f1FoldLabels(l *f1Labels, v structform.ExtVisitor) error {
	return v.OnInt(len(*l)) // report the number of labels
}

func f1FoldRef(r *f1Ref, v structform.ExtVisitor) error {
	return v.OnInt(*r.P)
}

func f1Fold(v interface{}, folders ...interface{}) (out string, err error) {
	defer debug.SetPanicOnFault(debug.SetPanicOnFault(true))
	defer func() {
		if r := recover(); r != nil {
			err = fmt.Errorf("PANIC: %v", r)
		}
	}()
	var buf bytes.Buffer
	err = gotype.Fold(v, json.NewVisitor(&buf), gotype.Folders(folders...))
	return buf.String(), err
}

func TestFinding1UserFolderPointerShapedValue(t *testing.T) {
	i := 42
	type outer struct{ L f1Labels }

	cases := []struct {
		name string
		in   interface{}
		want string
	}{
		// control: works, the pointer is passed on as is
		{"pointer to named map", &f1Labels{"a": "1", "b": "2"}, `2`},
		// control: slice elements are addressable -> indirect -> works
		{"slice of named map", []f1Labels{{"a": "1", "b": "2"}}, `[2]`},

		// failing: value is stored directly in the interface / reflect.Value
		{"named map value", f1Labels{"a": "1", "b": "2"}, `2`},
		{"struct with single pointer field", f1Ref{&i}, `42`},
		{"field of pointer-shaped struct value", outer{f1Labels{"a": "1", "b": "2"}}, `{"l":2}`},
		{"map element", map[string]f1Labels{"x": {"a": "1", "b": "2"}}, `{"x":2}`},
	}

	for _, c := range cases {
		t.Run(c.name, func(t *testing.T) {
			got, err := f1Fold(c.in, f1FoldLabels, f1FoldRef)
			if err != nil {
				t.Fatalf("Fold failed: %v (output so far %q)", err, got)
			}
			if got != c.want {
				t.Fatalf("got %q, want %q", got, c.want)
			}
		})
	}
}
