// Place this file in the directory gotype/ of the worktree (package gotype_test)
// and run:  go test -run 'TestC09Finding1' ./gotype/
//
// Defect: folding a struct with an `inline` interface{} field (or an inlined
// Folder / user-folder type) whose value contains - at any depth - another
// struct that has an inline field of the same static type crashes Fold.
// The inline adapter built by embeddObjReFold (gotype/fold_inline.go:91) owns a
// single ExpectObjVisitor that is shared by all (also nested) invocations.
package gotype_test

import (
	"fmt"
	"os"
	"os/exec"
	"strings"
	"testing"

	structform "github.com/elastic/go-structform"
	"github.com/elastic/go-structform/gotype"
)

type c09Outer struct {
	Extra interface{} `struct:",inline"`
}

type c09Inner struct {
	More interface{} `struct:",inline"`
}

// c09Rec is a plain structform.Visitor recording + checking nesting balance.
type c09Rec struct {
	events []string
	open   []byte
	bad    []string
}

func (r *c09Rec) ev(s string) error { r.events = append(r.events, s); return nil }
func (r *c09Rec) OnObjectStart(n int, _ structform.BaseType) error {
	r.open = append(r.open, '{')
	return r.ev(fmt.Sprintf("ObjectStart(%d)", n))
}
func (r *c09Rec) OnObjectFinished() error {
	if len(r.open) == 0 || r.open[len(r.open)-1] != '{' {
		r.bad = append(r.bad, "unbalanced ObjectFinished")
	} else {
		r.open = r.open[:len(r.open)-1]
	}
	return r.ev("ObjectFinished")
}
func (r *c09Rec) OnKey(s string) error { return r.ev("Key(" + s + ")") }
func (r *c09Rec) OnArrayStart(n int, _ structform.BaseType) error {
	r.open = append(r.open, '[')
	return r.ev(fmt.Sprintf("ArrayStart(%d)", n))
}
func (r *c09Rec) OnArrayFinished() error {
	if len(r.open) == 0 || r.open[len(r.open)-1] != '[' {
		r.bad = append(r.bad, "unbalanced ArrayFinished")
	} else {
		r.open = r.open[:len(r.open)-1]
	}
	return r.ev("ArrayFinished")
}
func (r *c09Rec) OnNil() error            { return r.ev("nil") }
func (r *c09Rec) OnBool(bool) error       { return r.ev("bool") }
func (r *c09Rec) OnString(string) error   { return r.ev("string") }
func (r *c09Rec) OnInt8(int8) error       { return r.ev("int") }
func (r *c09Rec) OnInt16(int16) error     { return r.ev("int") }
func (r *c09Rec) OnInt32(int32) error     { return r.ev("int") }
func (r *c09Rec) OnInt64(int64) error     { return r.ev("int") }
func (r *c09Rec) OnInt(int) error         { return r.ev("int") }
func (r *c09Rec) OnByte(byte) error       { return r.ev("uint") }
func (r *c09Rec) OnUint8(uint8) error     { return r.ev("uint") }
func (r *c09Rec) OnUint16(uint16) error   { return r.ev("uint") }
func (r *c09Rec) OnUint32(uint32) error   { return r.ev("uint") }
func (r *c09Rec) OnUint64(uint64) error   { return r.ev("uint") }
func (r *c09Rec) OnUint(uint) error       { return r.ev("uint") }
func (r *c09Rec) OnFloat32(float32) error { return r.ev("float") }
func (r *c09Rec) OnFloat64(float64) error { return r.ev("float") }

func c09Fold(v interface{}) (rec *c09Rec, err error, panicked interface{}) {
	rec = &c09Rec{}
	defer func() { panicked = recover() }()
	err = gotype.Fold(v, rec)
	return
}

// Variant A: the nested inline value is an EMPTY (non-nil) map. The inner
// invocation resets the shared ExpectObjVisitor (depth=0, active=nil), the outer
// invocation then dereferences the nil target: nil pointer panic.
// Expected events: ObjectStart(-1) Key(b) ObjectStart(-1) ObjectFinished ObjectFinished
func TestC09Finding1_NestedInlineEmpty(t *testing.T) {
	v := c09Outer{Extra: map[string]interface{}{
		"b": c09Inner{More: map[string]interface{}{}},
	}}

	rec, err, p := c09Fold(v)
	if p != nil {
		t.Fatalf("Fold panicked: %v\nevents delivered so far (unbalanced): %v", p, rec.events)
	}
	if err != nil {
		t.Fatalf("Fold failed: %v", err)
	}
	want := "ObjectStart(-1) Key(b) ObjectStart(-1) ObjectFinished ObjectFinished"
	if got := strings.Join(rec.events, " "); got != want || len(rec.open) != 0 || len(rec.bad) != 0 {
		t.Fatalf("events:\n got  %v\n want %v (open=%q bad=%v)", got, want, rec.open, rec.bad)
	}
}

// Variant B: inline interface holding a struct that itself has an inline
// interface field with a NON-EMPTY map. The shared ExpectObjVisitor becomes its
// own forwarding target (vs.active wraps vs): unbounded recursion in OnKey,
// "fatal error: stack overflow" (not recoverable, kills the process).
// Expected events: ObjectStart(-1) Key(k) int ObjectFinished
func TestC09Finding1_NestedInlineStackOverflow(t *testing.T) {
	if os.Getenv("C09_FINDING1_CHILD") == "1" {
		v := c09Outer{Extra: c09Inner{More: map[string]interface{}{"k": 1}}}
		rec := &c09Rec{}
		err := gotype.Fold(v, rec)
		fmt.Printf("CHILD-DONE err=%v events=%v\n", err, strings.Join(rec.events, " "))
		return
	}

	cmd := exec.Command(os.Args[0], "-test.run", "^TestC09Finding1_NestedInlineStackOverflow$")
	cmd.Env = append(os.Environ(), "C09_FINDING1_CHILD=1", "GOTRACEBACK=none")
	out, err := cmd.CombinedOutput()
	s := string(out)
	if len(s) > 600 {
		s = s[:600] + "..."
	}
	if err != nil || !strings.Contains(string(out), "CHILD-DONE err=<nil> events=ObjectStart(-1) Key(k) int ObjectFinished") {
		t.Fatalf("Fold of nested inline values crashed or produced wrong events: %v\n%s", err, s)
	}
}
