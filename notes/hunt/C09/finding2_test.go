// Place this file in the directory gotype/ of the worktree (package gotype_test,
// it re-uses the helpers c09Rec / c09Fold of finding1_test.go; put both files
// into gotype/) and run:  go test -run 'TestC09Finding2' ./gotype/
//
// Defect: a nil value of an INTERFACE type that includes the Fold method
// (e.g. a struct field, slice element or map element of type gotype.Folder)
// panics in reFoldFolderIfc (gotype/fold_primitives.go:63):
//   "interface conversion: interface is nil, not gotype.Folder"
// A nil interface{} / nil pointer at the same position is reported as OnNil.
package gotype_test

import (
	"strings"
	"testing"

	structform "github.com/elastic/go-structform"
	"github.com/elastic/go-structform/gotype"
)

type c09Leaf struct{ X int }

func (l c09Leaf) Fold(v structform.ExtVisitor) error { return v.OnInt(l.X) }

type c09Doc struct {
	A int
	F gotype.Folder // optional custom-folded part, nil if absent
	B int
}

func TestC09Finding2_NilFolderInterfaceField(t *testing.T) {
	// sanity: non-nil works
	rec, err, p := c09Fold(c09Doc{A: 1, F: c09Leaf{7}, B: 2})
	if p != nil || err != nil {
		t.Fatalf("non-nil folder: err=%v panic=%v", err, p)
	}
	if got, want := strings.Join(rec.events, " "), "ObjectStart(3) Key(a) int Key(f) int Key(b) int ObjectFinished"; got != want {
		t.Fatalf("got %v want %v", got, want)
	}

	rec, err, p = c09Fold(c09Doc{A: 1, B: 2})
	if p != nil {
		t.Fatalf("Fold panicked: %v\nevents delivered so far (key without value, object never closed): %v", p, rec.events)
	}
	if err != nil {
		t.Fatalf("Fold failed: %v", err)
	}
	if got, want := strings.Join(rec.events, " "), "ObjectStart(3) Key(a) int Key(f) nil Key(b) int ObjectFinished"; got != want {
		t.Fatalf("got %v want %v", got, want)
	}
}

func TestC09Finding2_NilFolderInterfaceElem(t *testing.T) {
	rec, err, p := c09Fold([]gotype.Folder{c09Leaf{1}, nil})
	if p != nil {
		t.Fatalf("Fold panicked: %v\nevents delivered so far (array announced 2 elements): %v", p, rec.events)
	}
	if err != nil {
		t.Fatalf("Fold failed: %v", err)
	}
	if got, want := strings.Join(rec.events, " "), "ArrayStart(2) int nil ArrayFinished"; got != want {
		t.Fatalf("got %v want %v", got, want)
	}
}
