// Place this file in the directory gotype/ of the worktree (package gotype_test,
// it re-uses the helpers c09Rec / c09Fold of finding1_test.go; put both files
// into gotype/) and run:  go test -run 'TestC09Finding3' ./gotype/
//
// Defect: a custom folder registered with gotype.Folders(func(*T, ExtVisitor) error)
// receives a WRONG pointer when a T is folded by value and T is "pointer shaped"
// (struct with a single pointer/map field, map types, ...). liftUserValueFn
// (gotype/fold_user.go:69) passes the data word of the reflect.Value, which for
// such types IS the value, not a pointer to it.
package gotype_test

import (
	"strings"
	"testing"

	structform "github.com/elastic/go-structform"
	"github.com/elastic/go-structform/gotype"
)

type c09Ref struct{ P *int64 }

func c09FoldRef(r *c09Ref, v structform.ExtVisitor) error {
	if r == nil || r.P == nil {
		return v.OnNil()
	}
	return v.OnInt64(*r.P)
}

func TestC09Finding3_UserFolderPointerShapedValue(t *testing.T) {
	zero := int64(0)
	fold := func(v interface{}) (rec *c09Rec, err error, p interface{}) {
		rec = &c09Rec{}
		defer func() { p = recover() }()
		err = gotype.Fold(v, rec, gotype.Folders(c09FoldRef))
		return
	}

	// via pointer: correct
	rec, err, p := fold(&c09Ref{&zero})
	if p != nil || err != nil || strings.Join(rec.events, " ") != "int" {
		t.Fatalf("pointer: err=%v panic=%v events=%v", err, p, rec.events)
	}

	// by value: the folder gets (*c09Ref)(unsafe.Pointer(&zero)), so r.P is the
	// int64 0 re-interpreted as pointer: OnNil is reported instead of the int
	// (with a non-zero number the folder dereferences a wild pointer).
	rec, err, p = fold(c09Ref{&zero})
	if p != nil || err != nil || strings.Join(rec.events, " ") != "int" {
		t.Fatalf("value: err=%v panic=%v events=%v, want [int]", err, p, rec.events)
	}
}
