// Place this file in the directory ubjson/ of the go-structform tree
// (package ubjson_test, external test; uses only the public API).
//
// Finding 1: the UBJSON parser rejects a no-op marker ('N') that stands
// between the members of an object (in front of a field name, or between the
// last member and the closing '}').  The same no-op between the elements of
// an array, or between a field name and its value, is skipped as specified.
package ubjson_test

import (
	"fmt"
	"strings"
	"testing"

	structform "github.com/elastic/go-structform"
	"github.com/elastic/go-structform/ubjson"
)

type f1rec struct{ ev []string }

func (r *f1rec) add(f string, a ...interface{}) error {
	r.ev = append(r.ev, fmt.Sprintf(f, a...))
	return nil
}

func (r *f1rec) OnObjectStart(l int, _ structform.BaseType) error { return r.add("{") }
func (r *f1rec) OnObjectFinished() error                          { return r.add("}") }
func (r *f1rec) OnKey(s string) error                             { return r.add("key:%s", s) }
func (r *f1rec) OnArrayStart(l int, _ structform.BaseType) error  { return r.add("[") }
func (r *f1rec) OnArrayFinished() error                           { return r.add("]") }
func (r *f1rec) OnNil() error                                     { return r.add("nil") }
func (r *f1rec) OnBool(b bool) error                              { return r.add("%v", b) }
func (r *f1rec) OnString(s string) error                          { return r.add("str:%s", s) }
func (r *f1rec) OnInt8(i int8) error                              { return r.add("%d", i) }
func (r *f1rec) OnInt16(i int16) error                            { return r.add("%d", i) }
func (r *f1rec) OnInt32(i int32) error                            { return r.add("%d", i) }
func (r *f1rec) OnInt64(i int64) error                            { return r.add("%d", i) }
func (r *f1rec) OnInt(i int) error                                { return r.add("%d", i) }
func (r *f1rec) OnByte(b byte) error                              { return r.add("%d", b) }
func (r *f1rec) OnUint8(u uint8) error                            { return r.add("%d", u) }
func (r *f1rec) OnUint16(u uint16) error                          { return r.add("%d", u) }
func (r *f1rec) OnUint32(u uint32) error                          { return r.add("%d", u) }
func (r *f1rec) OnUint64(u uint64) error                          { return r.add("%d", u) }
func (r *f1rec) OnUint(u uint) error                              { return r.add("%d", u) }
func (r *f1rec) OnFloat32(f float32) error                        { return r.add("%v", f) }
func (r *f1rec) OnFloat64(f float64) error                        { return r.add("%v", f) }

func TestFinding1NoopBetweenObjectMembers(t *testing.T) {
	cases := []struct {
		name, doc, want string
	}{
		// control cases: these positions already work
		{"control: array elements", "[i\x01Ni\x02N]", "[ 1 2 ]"},
		{"control: counted array", "[#i\x02Ni\x01Ni\x02", "[ 1 2 ]"},
		{"control: between key and value", "{i\x01aNi\x01}", "{ key:a 1 }"},

		// failing cases
		{"plain object, before first key", "{Ni\x01ai\x01}", "{ key:a 1 }"},
		{"plain object, between members", "{i\x01ai\x01Ni\x01bi\x02}", "{ key:a 1 key:b 2 }"},
		{"plain object, before end marker", "{i\x01ai\x01N}", "{ key:a 1 }"},
		{"plain object, only a no-op", "{N}", "{ }"},
		{"counted object, before first key", "{#i\x01Ni\x01ai\x01", "{ key:a 1 }"},
		{"counted object, between members", "{#i\x02i\x01ai\x01Ni\x01bi\x02", "{ key:a 1 key:b 2 }"},
		{"counted array in object followed by no-op", "{i\x01a[#i\x01i\x01N}", "{ key:a [ 1 ] }"},
	}

	for _, c := range cases {
		var r f1rec
		err := ubjson.Parse([]byte(c.doc), &r)
		got := strings.Join(r.ev, " ")
		if err != nil {
			t.Errorf("%s: %q: unexpected error %q (events so far: %s), want %s", c.name, c.doc, err, got, c.want)
			continue
		}
		if got != c.want {
			t.Errorf("%s: %q: got %s, want %s", c.name, c.doc, got, c.want)
		}
	}
}
