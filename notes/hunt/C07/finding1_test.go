// Place this file in the directory  ubjson/  of the go-structform tree
// (package ubjson_test, external test package) and run:
//
//   go test ./ubjson/ -run TestFinding1
//
// Defect: ubjson.Visitor.OnByte writes the byte value with the UBJSON *char*
// marker 'C'.  UBJSON draft 12 restricts the char type to the ASCII range
// ("It must not have a decimal value larger than 127"), and defines it as a
// character, not a number.  For b >= 128 the encoder therefore emits a
// document that is not valid UBJSON (independent decoders such as py-ubjson
// fail with "Failed to decode char"), and for b < 128 an independent decoder
// reads back the character "A" where the stream (and the json and cborl
// encoders) carries the number 65.
package ubjson_test

import (
	"bytes"
	"encoding/binary"
	"fmt"
	"testing"

	structform "github.com/elastic/go-structform"
	"github.com/elastic/go-structform/cborl"
	"github.com/elastic/go-structform/json"
	"github.com/elastic/go-structform/ubjson"
)

// ---- minimal independent UBJSON draft 12 reader (enough for the outputs below) ----

type char byte // value read from a 'C' marker: a character, not a number

type ubReader struct {
	b   []byte
	pos int
}

func (d *ubReader) take(n int) ([]byte, error) {
	if n < 0 || d.pos+n > len(d.b) {
		return nil, fmt.Errorf("truncated at %d", d.pos)
	}
	s := d.b[d.pos : d.pos+n]
	d.pos += n
	return s, nil
}

func (d *ubReader) integer(m byte) (int64, error) {
	switch m {
	case 'i':
		s, err := d.take(1)
		if err != nil {
			return 0, err
		}
		return int64(int8(s[0])), nil
	case 'U':
		s, err := d.take(1)
		if err != nil {
			return 0, err
		}
		return int64(s[0]), nil
	case 'I':
		s, err := d.take(2)
		if err != nil {
			return 0, err
		}
		return int64(int16(binary.BigEndian.Uint16(s))), nil
	case 'l':
		s, err := d.take(4)
		if err != nil {
			return 0, err
		}
		return int64(int32(binary.BigEndian.Uint32(s))), nil
	case 'L':
		s, err := d.take(8)
		if err != nil {
			return 0, err
		}
		return int64(binary.BigEndian.Uint64(s)), nil
	}
	return 0, fmt.Errorf("marker %q is not an integer type", m)
}

func (d *ubReader) value(m byte) (interface{}, error) {
	switch m {
	case 'i', 'U', 'I', 'l', 'L':
		return d.integer(m)
	case 'C':
		s, err := d.take(1)
		if err != nil {
			return nil, err
		}
		if s[0] > 127 {
			return nil, fmt.Errorf("invalid char 0x%02x at offset %d: UBJSON draft 12 char must not be larger than 127", s[0], d.pos-1)
		}
		return char(s[0]), nil
	case '[':
		typ, count := byte(0), int64(-1)
		if d.pos < len(d.b) && d.b[d.pos] == '$' {
			s, err := d.take(2)
			if err != nil {
				return nil, err
			}
			typ = s[1]
			if d.pos >= len(d.b) || d.b[d.pos] != '#' {
				return nil, fmt.Errorf("type without count")
			}
		}
		if d.pos < len(d.b) && d.b[d.pos] == '#' {
			d.pos++
			m, err := d.take(1)
			if err != nil {
				return nil, err
			}
			if count, err = d.integer(m[0]); err != nil || count < 0 {
				return nil, fmt.Errorf("bad count: %v", err)
			}
		}
		arr := []interface{}{}
		for i := int64(0); count < 0 || i < count; i++ {
			em := typ
			if count < 0 {
				s, err := d.take(1)
				if err != nil {
					return nil, err
				}
				if s[0] == ']' {
					break
				}
				em = s[0]
			} else if typ == 0 {
				s, err := d.take(1)
				if err != nil {
					return nil, err
				}
				em = s[0]
			}
			v, err := d.value(em)
			if err != nil {
				return nil, err
			}
			arr = append(arr, v)
		}
		return arr, nil
	}
	return nil, fmt.Errorf("marker 0x%02x not supported by this test reader", m)
}

func readUBJSON(b []byte) (interface{}, error) {
	d := &ubReader{b: b}
	m, err := d.take(1)
	if err != nil {
		return nil, err
	}
	v, err := d.value(m[0])
	if err == nil && d.pos != len(b) {
		err = fmt.Errorf("trailing bytes")
	}
	return v, err
}

// A single OnByte event with a value above 127: the document is not valid UBJSON.
func TestFinding1_OnByteAbove127(t *testing.T) {
	for _, b := range []byte{128, 200, 255} {
		var buf bytes.Buffer
		if err := ubjson.NewVisitor(&buf).OnByte(b); err != nil {
			t.Fatal(err)
		}
		v, err := readUBJSON(buf.Bytes())
		if err != nil {
			t.Errorf("OnByte(%d) => % x: not a valid UBJSON draft 12 document: %v", b, buf.Bytes(), err)
			continue
		}
		if n, ok := v.(int64); !ok || n != int64(b) {
			t.Errorf("OnByte(%d) => % x: read back %T %v, want the number %d", b, buf.Bytes(), v, v, b)
		}
	}
}

// Below 128 the document is valid, but an independent decoder reads a
// character, while the json and cborl encoders write the number for the very
// same event.
func TestFinding1_OnByteReadsBackAsChar(t *testing.T) {
	var jbuf, ubuf bytes.Buffer
	if err := json.NewVisitor(&jbuf).OnByte(65); err != nil {
		t.Fatal(err)
	}
	if err := ubjson.NewVisitor(&ubuf).OnByte(65); err != nil {
		t.Fatal(err)
	}
	if jbuf.String() != "65" {
		t.Fatalf("json: %q", jbuf.String())
	}
	v, err := readUBJSON(ubuf.Bytes())
	if err != nil {
		t.Fatal(err)
	}
	if n, ok := v.(int64); !ok || n != 65 {
		t.Errorf("OnByte(65): json writes %s, ubjson writes %q which reads back as %T %v (the character %q), want the number 65",
			jbuf.String(), ubuf.Bytes(), v, v, string(rune(ubuf.Bytes()[1])))
	}
}

// The event stream is one that the library produces itself: the cborl parser
// reports a CBOR byte string as OnArrayStart(len, ByteType), OnByte..., OnArrayFinished.
// Transcoding the valid CBOR document 0x42 C8 FF (h'C8FF') to UBJSON gives an invalid document.
func TestFinding1_TranscodeCBORByteString(t *testing.T) {
	src := []byte{0x42, 0xC8, 0xFF}
	var buf bytes.Buffer
	if err := cborl.Parse(src, ubjson.NewVisitor(&buf)); err != nil {
		t.Fatal(err)
	}
	v, err := readUBJSON(buf.Bytes())
	if err != nil {
		t.Fatalf("cbor h'C8FF' => ubjson %q: not a valid UBJSON draft 12 document: %v", buf.Bytes(), err)
	}
	want := []interface{}{int64(0xC8), int64(0xFF)}
	if fmt.Sprint(v) != fmt.Sprint(want) {
		t.Errorf("read back %v, want %v", v, want)
	}
}

// Same through the generic fallback for visitors without typed array support:
// structform's extArrVisitor.OnBytes replays a []byte as OnByte events.
type basicOnly struct{ structform.Visitor }

func TestFinding1_OnBytesFallback(t *testing.T) {
	var buf bytes.Buffer
	vs := structform.EnsureExtVisitor(basicOnly{ubjson.NewVisitor(&buf)})
	if err := vs.OnBytes([]byte{1, 200}); err != nil {
		t.Fatal(err)
	}
	if _, err := readUBJSON(buf.Bytes()); err != nil {
		t.Errorf("OnBytes([1 200]) via basic visitor => %q: %v", buf.Bytes(), err)
	}
}
