// Place in: <repo>/json/ (package json_test, external test package; file name e.g. json/finding1_test.go)
//
// BORDERLINE-SCOPE finding (option boundary, not an input boundary): with a read
// buffer size of 0, json.NewDecoder(...).Next() never returns for any non-empty
// valid JSON text, so the text is never accepted/reported.
package json_test

import (
	"strings"
	"testing"
	"time"

	"github.com/elastic/go-structform/json"
	"github.com/elastic/go-structform/visitors"
)

func TestFinding1DecoderZeroBufferNeverAccepts(t *testing.T) {
	done := make(chan error, 1)
	go func() {
		dec := json.NewDecoder(strings.NewReader(`[1]`), 0, visitors.NilVisitor())
		done <- dec.Next()
	}()
	select {
	case err := <-done:
		if err != nil {
			t.Fatalf("valid document `[1]` not accepted: %v", err)
		}
	case <-time.After(3 * time.Second):
		t.Fatal("json.NewDecoder(r, 0, vs).Next() did not return within 3s for the valid document `[1]` (busy loop: Read into a zero-length buffer returns 0,nil forever)")
	}
}
