// Place in: cborl/ (package cborl_test, external test package; file name finding2_test.go)
// Run:      go test ./cborl/ -run TestFinding2 -v
//
// The item 0x3b ff ff ff ff ff ff ff ff is the negative integer -2^64, which is
// outside the supported subset. The first Decoder.Next refuses it with an
// error, but the parser does not enter its fail state (stFail is never set) and
// the decoder does not advance its buffer. The next call to Next therefore
// re-reads the bytes "3b ff ff ff ff ff ff ff" as the ARGUMENT of the pending
// negative integer and reports the item as OnInt64(-4323455642275676160),
// returning nil.  The refused item is reported as some other value.
//
// Same with Parser.Write: after Write(3b ff*8) failed, Write(01 02 .. 08)
// reports OnInt64(-72623859790382857) instead of failing.
package cborl_test

import (
	"fmt"
	"testing"

	structform "github.com/elastic/go-structform"
	"github.com/elastic/go-structform/cborl"
	"github.com/elastic/go-structform/visitors"
)

type finding2Rec struct {
	structform.Visitor
	events []string
}

func (r *finding2Rec) OnInt8(v int8) error {
	r.events = append(r.events, fmt.Sprint("int8:", v))
	return nil
}
func (r *finding2Rec) OnInt16(v int16) error {
	r.events = append(r.events, fmt.Sprint("int16:", v))
	return nil
}
func (r *finding2Rec) OnInt32(v int32) error {
	r.events = append(r.events, fmt.Sprint("int32:", v))
	return nil
}
func (r *finding2Rec) OnInt64(v int64) error {
	r.events = append(r.events, fmt.Sprint("int64:", v))
	return nil
}
func (r *finding2Rec) OnUint8(v uint8) error {
	r.events = append(r.events, fmt.Sprint("uint8:", v))
	return nil
}
func (r *finding2Rec) OnUint64(v uint64) error {
	r.events = append(r.events, fmt.Sprint("uint64:", v))
	return nil
}

func TestFinding2RefusedNegIntReportedOnNextCall(t *testing.T) {
	in := []byte{0x3b, 0xff, 0xff, 0xff, 0xff, 0xff, 0xff, 0xff, 0xff} // -2^64

	r := &finding2Rec{Visitor: visitors.NilVisitor()}
	dec := cborl.NewBytesDecoder(in, r)
	if err := dec.Next(); err == nil {
		t.Fatalf("-2^64 must be refused, got no error (events %v)", r.events)
	}
	err := dec.Next()
	if err == nil || len(r.events) != 0 {
		t.Errorf("Decoder: refused item -2^64 was reported as another value by the following Next: err=%v events=%v", err, r.events)
	}

	r = &finding2Rec{Visitor: visitors.NilVisitor()}
	p := cborl.NewParser(r)
	if _, err := p.Write(in); err == nil {
		t.Fatalf("-2^64 must be refused, got no error (events %v)", r.events)
	}
	_, err = p.Write([]byte{1, 2, 3, 4, 5, 6, 7, 8}) // eight well-formed items: 1,2,...,8
	if err == nil || len(r.events) != 0 {
		t.Errorf("Parser: after the refusal the parser keeps the half-read item and reports garbage: err=%v events=%v", err, r.events)
	}
}
