// Place in: cborl/ (package cborl_test, external test package; file name finding3_test.go)
// Run:      GOARCH=386 go test ./cborl/ -run TestFinding3 -v      (any platform with a 32 bit int;
//
//	the test passes on 64 bit platforms, 386 binaries run fine on a linux/amd64 host)
//
// The parser keeps lengths as int64 but converts them with int(...) before
// using them (parse.go stepBytes/stepText/stepKey and the OnArrayStart /
// OnObjectStart calls). With a 32 bit int, well-formed items whose length
// argument is >= 2^31 are misread although byte strings and arrays are
// streamed and never need to be held in memory:
//
//	5a 80 00 00 00 <2 GiB of data>   byte string of 2^31 bytes -> panic: slice bounds out of range [:-2147483648]
//	5a ff ff ff ff <data>            byte string of 2^32-1 bytes -> panic: slice bounds out of range [:-1]
//	5b 00 00 00 01 00 00 00 00 <data> byte string of 2^32 bytes -> reported as EMPTY byte string,
//	                                 the content bytes are then parsed as independent items
//
// Only the header and the first 4 content bytes are fed; a correct streaming
// parser must have reported OnArrayStart(.., ByteType) followed by 4 OnByte
// calls and must still be inside the byte string.
package cborl_test

import (
	"fmt"
	"strings"
	"testing"

	structform "github.com/elastic/go-structform"
	"github.com/elastic/go-structform/cborl"
	"github.com/elastic/go-structform/visitors"
)

type finding3Rec struct {
	structform.Visitor
	events []string
}

func (r *finding3Rec) add(s string) error { r.events = append(r.events, s); return nil }
func (r *finding3Rec) OnArrayStart(l int, bt structform.BaseType) error {
	return r.add(fmt.Sprintf("arraystart(base=%d)", bt)) // the length is not representable in a 32 bit int, ignore it
}
func (r *finding3Rec) OnArrayFinished() error { return r.add("arrayend") }
func (r *finding3Rec) OnByte(b byte) error    { return r.add(fmt.Sprintf("byte:%02x", b)) }
func (r *finding3Rec) OnUint8(v uint8) error  { return r.add(fmt.Sprintf("uint8:%d", v)) }

func TestFinding3LengthTruncatedTo32Bit(t *testing.T) {
	headers := [][]byte{
		{0x5a, 0x80, 0x00, 0x00, 0x00},
		{0x5a, 0xff, 0xff, 0xff, 0xff},
		{0x5b, 0x00, 0x00, 0x00, 0x01, 0x00, 0x00, 0x00, 0x00},
	}
	want := fmt.Sprintf("arraystart(base=%d) byte:00 byte:00 byte:00 byte:00", structform.ByteType)

	for _, hdr := range headers {
		func() {
			r := &finding3Rec{Visitor: visitors.NilVisitor()}
			defer func() {
				if x := recover(); x != nil {
					t.Errorf("header % x: panic: %v", hdr, x)
				}
			}()
			p := cborl.NewParser(r)
			if _, err := p.Write(hdr); err != nil {
				t.Errorf("header % x: %v", hdr, err)
				return
			}
			if _, err := p.Write([]byte{0, 0, 0, 0}); err != nil {
				t.Errorf("header % x: content: %v", hdr, err)
				return
			}
			if got := strings.Join(r.events, " "); got != want {
				t.Errorf("header % x:\n got  %s\n want %s", hdr, got, want)
			}
		}()
	}
}
