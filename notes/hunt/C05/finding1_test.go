// Place in: cborl/ (package cborl_test, external test package; file name finding1_test.go)
// Run:      go test ./cborl/ -run TestFinding1 -v
//
// A well-formed CBOR item consisting of ~8 million nested definite-length
// one-element arrays (0x81 0x81 ... 0x81 0x00, an 8 MB input) kills the whole
// process with "fatal error: stack overflow" (not recoverable), because the
// parser closes nested definite-length containers recursively
// (onValue -> arrayHandleLen -> popState -> onValue ...). The very same nesting
// depth expressed with indefinite-length arrays (0x9f ... 0x00 0xff ...) parses
// fine, which is used as control.
//
// The parse runs in a child process (re-exec of the test binary), so the
// failure is reported as a regular test failure instead of killing `go test`.
package cborl_test

import (
	"bytes"
	"fmt"
	"os"
	"os/exec"
	"strings"
	"testing"

	structform "github.com/elastic/go-structform"
	"github.com/elastic/go-structform/cborl"
	"github.com/elastic/go-structform/visitors"
)

const finding1Depth = 8000000

type finding1Counter struct {
	structform.Visitor
	starts, ends, values int
}

func (c *finding1Counter) OnArrayStart(int, structform.BaseType) error { c.starts++; return nil }
func (c *finding1Counter) OnArrayFinished() error                      { c.ends++; return nil }
func (c *finding1Counter) OnUint8(uint8) error                         { c.values++; return nil }

func finding1Child(kind string) {
	var in []byte
	switch kind {
	case "definite": // [[[...[0]...]]] every array has the definite length 1
		in = append(bytes.Repeat([]byte{0x81}, finding1Depth), 0x00)
	case "indefinite": // same value, every array of indefinite length
		in = append(bytes.Repeat([]byte{0x9f}, finding1Depth), 0x00)
		in = append(in, bytes.Repeat([]byte{0xff}, finding1Depth)...)
	}
	c := &finding1Counter{Visitor: visitors.NilVisitor()}
	err := cborl.Parse(in, c)
	fmt.Printf("RESULT err=%v starts=%d ends=%d values=%d\n", err, c.starts, c.ends, c.values)
	os.Exit(0)
}

func TestFinding1DeepDefiniteNesting(t *testing.T) {
	if kind := os.Getenv("FINDING1_CHILD"); kind != "" {
		finding1Child(kind)
	}

	want := fmt.Sprintf("RESULT err=<nil> starts=%d ends=%d values=1", finding1Depth, finding1Depth)
	for _, kind := range []string{"indefinite", "definite"} {
		cmd := exec.Command(os.Args[0], "-test.run=^TestFinding1DeepDefiniteNesting$")
		cmd.Env = append(os.Environ(), "FINDING1_CHILD="+kind)
		out, err := cmd.CombinedOutput()
		s := string(out)
		if len(s) > 600 {
			s = s[:600] + "..."
		}
		if err != nil || !strings.Contains(string(out), want) {
			t.Errorf("%s nesting, depth %d: child failed: %v\n%s", kind, finding1Depth, err, s)
		} else {
			t.Logf("%s nesting, depth %d: ok", kind, finding1Depth)
		}
	}
}
