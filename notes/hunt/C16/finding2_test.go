// Place this file in the repository root directory (next to visitor.go), it
// uses the external test package structform_test:
//
//	cp finding2_test.go <repo>/finding2_test.go && go test -run TestFinding2 .
//
// Finding 2 (C16): json.Parser and cborl.Parser used as io.Writer (push
// parsing, the mode ParseReader is built on) do not enter their fail state
// when the visitor returns an error. ubjson.Parser.Write does
// (p.state.current = state{stFail, stStart}); json (failedState) and cborl
// (stFail) have the state and the `case` returning the stored p.err, but never
// enter it. If the remaining bytes of the document are written, the parser
// carries on in the middle of the document and delivers the remaining events
// of the very document the visitor rejected - and the second Write even
// returns nil, i.e. the error is gone.
package structform_test

import (
	"errors"
	"fmt"
	"io"
	"testing"

	structform "github.com/elastic/go-structform"
	"github.com/elastic/go-structform/cborl"
	"github.com/elastic/go-structform/json"
	"github.com/elastic/go-structform/ubjson"
)

var errF2Injected = errors.New("injected visitor failure")

type f2Visitor struct {
	failAt int
	n      int
	failed bool
	after  []string
}

func (f *f2Visitor) ev(s string) error {
	idx := f.n
	f.n++
	if f.failed {
		f.after = append(f.after, s)
		return nil
	}
	if idx == f.failAt {
		f.failed = true
		return errF2Injected
	}
	return nil
}

func (f *f2Visitor) OnObjectStart(int, structform.BaseType) error { return f.ev("{") }
func (f *f2Visitor) OnObjectFinished() error                      { return f.ev("}") }
func (f *f2Visitor) OnKey(s string) error                         { return f.ev("key:" + s) }
func (f *f2Visitor) OnArrayStart(int, structform.BaseType) error  { return f.ev("[") }
func (f *f2Visitor) OnArrayFinished() error                       { return f.ev("]") }
func (f *f2Visitor) OnNil() error                                 { return f.ev("nil") }
func (f *f2Visitor) OnBool(b bool) error                          { return f.ev(fmt.Sprint("bool:", b)) }
func (f *f2Visitor) OnString(s string) error                      { return f.ev("str:" + s) }
func (f *f2Visitor) OnInt8(i int8) error                          { return f.ev(fmt.Sprint("int:", i)) }
func (f *f2Visitor) OnInt16(i int16) error                        { return f.ev(fmt.Sprint("int:", i)) }
func (f *f2Visitor) OnInt32(i int32) error                        { return f.ev(fmt.Sprint("int:", i)) }
func (f *f2Visitor) OnInt64(i int64) error                        { return f.ev(fmt.Sprint("int:", i)) }
func (f *f2Visitor) OnInt(i int) error                            { return f.ev(fmt.Sprint("int:", i)) }
func (f *f2Visitor) OnByte(i byte) error                          { return f.ev(fmt.Sprint("int:", i)) }
func (f *f2Visitor) OnUint8(i uint8) error                        { return f.ev(fmt.Sprint("int:", i)) }
func (f *f2Visitor) OnUint16(i uint16) error                      { return f.ev(fmt.Sprint("int:", i)) }
func (f *f2Visitor) OnUint32(i uint32) error                      { return f.ev(fmt.Sprint("int:", i)) }
func (f *f2Visitor) OnUint64(i uint64) error                      { return f.ev(fmt.Sprint("int:", i)) }
func (f *f2Visitor) OnUint(i uint) error                          { return f.ev(fmt.Sprint("int:", i)) }
func (f *f2Visitor) OnFloat32(x float32) error                    { return f.ev(fmt.Sprint("float:", x)) }
func (f *f2Visitor) OnFloat64(x float64) error                    { return f.ev(fmt.Sprint("float:", x)) }

func TestFinding2_ParserWriteAfterVisitorError(t *testing.T) {
	cases := []struct {
		format string
		mk     func(vs structform.Visitor) io.Writer
		chunk1 []byte // visitor fails at OnArrayStart while this chunk is parsed
		chunk2 []byte // rest of the same document
	}{
		// the document is [1,2] in all three formats
		{"json", func(vs structform.Visitor) io.Writer { return json.NewParser(vs) }, []byte(`[1,`), []byte(`2]`)},
		{"cborl", func(vs structform.Visitor) io.Writer { return cborl.NewParser(vs) }, []byte("\x82\x01"), []byte("\x02")},
		{"ubjson", func(vs structform.Visitor) io.Writer { return ubjson.NewParser(vs) }, []byte("[i\x01"), []byte("i\x02]")},
	}

	for _, c := range cases {
		t.Run(c.format, func(t *testing.T) {
			vs := &f2Visitor{failAt: 0}
			p := c.mk(vs)

			if _, err := p.Write(c.chunk1); err != errF2Injected {
				t.Fatalf("Write(chunk1) = %v, want the visitor's error", err)
			}
			if len(vs.after) != 0 {
				t.Fatalf("events after the error in the same Write: %v", vs.after)
			}

			_, err := p.Write(c.chunk2)
			if len(vs.after) != 0 {
				t.Errorf("Write(chunk2) delivered further events of the rejected document: %v", vs.after)
			}
			if err == nil {
				t.Errorf("Write(chunk2) = nil after the parser failed; the visitor's error is lost")
			}
		})
	}
}
