// Place this file in the repository root directory (next to visitor.go), it
// uses the external test package structform_test:
//
//	cp finding1_test.go <repo>/finding1_test.go && go test -run TestFinding1 .
//
// Finding 1 (C16): json/ubjson/cborl Decoder.Next does not advance its input
// buffer (and does not enter a failed state) when the visitor returns an
// error. The parser state machine has already advanced, the bytes have not.
// The next call to Next() feeds the same bytes again: events of the document
// whose processing was aborted by the visitor error are delivered again
// (duplicated, or decoded from the wrong offset, producing values that are not
// in the input at all).
package structform_test

import (
	"bytes"
	"errors"
	"fmt"
	"io"
	"reflect"
	"testing"

	structform "github.com/elastic/go-structform"
	"github.com/elastic/go-structform/cborl"
	"github.com/elastic/go-structform/json"
	"github.com/elastic/go-structform/ubjson"
)

var errF1Injected = errors.New("injected visitor failure")

// f1Visitor fails exactly once, at event number failAt (0-based). All events
// seen after the failure has been returned are recorded in after.
type f1Visitor struct {
	failAt int
	n      int
	failed bool
	log    []string
	after  []string
}

func (f *f1Visitor) ev(s string) error {
	idx := f.n
	f.n++
	f.log = append(f.log, s)
	if f.failed {
		f.after = append(f.after, s)
		return nil
	}
	if idx == f.failAt {
		f.failed = true
		return errF1Injected
	}
	return nil
}

func (f *f1Visitor) OnObjectStart(int, structform.BaseType) error { return f.ev("{") }
func (f *f1Visitor) OnObjectFinished() error                      { return f.ev("}") }
func (f *f1Visitor) OnKey(s string) error                         { return f.ev("key:" + s) }
func (f *f1Visitor) OnArrayStart(int, structform.BaseType) error  { return f.ev("[") }
func (f *f1Visitor) OnArrayFinished() error                       { return f.ev("]") }
func (f *f1Visitor) OnNil() error                                 { return f.ev("nil") }
func (f *f1Visitor) OnBool(b bool) error                          { return f.ev(fmt.Sprint("bool:", b)) }
func (f *f1Visitor) OnString(s string) error                      { return f.ev("str:" + s) }
func (f *f1Visitor) OnInt8(i int8) error                          { return f.ev(fmt.Sprint("int:", i)) }
func (f *f1Visitor) OnInt16(i int16) error                        { return f.ev(fmt.Sprint("int:", i)) }
func (f *f1Visitor) OnInt32(i int32) error                        { return f.ev(fmt.Sprint("int:", i)) }
func (f *f1Visitor) OnInt64(i int64) error                        { return f.ev(fmt.Sprint("int:", i)) }
func (f *f1Visitor) OnInt(i int) error                            { return f.ev(fmt.Sprint("int:", i)) }
func (f *f1Visitor) OnByte(i byte) error                          { return f.ev(fmt.Sprint("int:", i)) }
func (f *f1Visitor) OnUint8(i uint8) error                        { return f.ev(fmt.Sprint("int:", i)) }
func (f *f1Visitor) OnUint16(i uint16) error                      { return f.ev(fmt.Sprint("int:", i)) }
func (f *f1Visitor) OnUint32(i uint32) error                      { return f.ev(fmt.Sprint("int:", i)) }
func (f *f1Visitor) OnUint64(i uint64) error                      { return f.ev(fmt.Sprint("int:", i)) }
func (f *f1Visitor) OnUint(i uint) error                          { return f.ev(fmt.Sprint("int:", i)) }
func (f *f1Visitor) OnFloat32(x float32) error                    { return f.ev(fmt.Sprint("float:", x)) }
func (f *f1Visitor) OnFloat64(x float64) error                    { return f.ev(fmt.Sprint("float:", x)) }

type f1Decoder interface{ Next() error }

func TestFinding1_DecoderNextAfterVisitorError(t *testing.T) {
	type tc struct {
		name   string
		input  []byte // two concatenated documents
		failAt int    // event of the FIRST document at which the visitor fails
		doc2   []string
	}

	// Most inputs are a stream of two documents: doc1 = [1,2] or 7, doc2 = "x".
	// The visitor fails (once) in an event of doc1.
	formats := []struct {
		name  string
		mk    func(in io.Reader, vs structform.Visitor) f1Decoder
		mkB   func(b []byte, vs structform.Visitor) f1Decoder
		cases []tc
	}{
		{
			name: "json",
			mk:   func(in io.Reader, vs structform.Visitor) f1Decoder { return json.NewDecoder(in, 4096, vs) },
			mkB:  func(b []byte, vs structform.Visitor) f1Decoder { return json.NewBytesDecoder(b, vs) },
			cases: []tc{
				{"scalar/fail at the only event of doc1", []byte(`7 "x"`), 0, []string{"str:x"}},
				{"array/fail at OnArrayStart", []byte(`[1,2] "x"`), 0, []string{"str:x"}},
				{"array/fail at first element", []byte(`[1,2] "x"`), 1, []string{"str:x"}},
				{"array/fail at OnArrayFinished", []byte(`[1,2] "x"`), 3, []string{"str:x"}},
				{"trailing number reported at EOF", []byte(`7`), 0, nil},
			},
		},
		{
			name: "ubjson",
			mk:   func(in io.Reader, vs structform.Visitor) f1Decoder { return ubjson.NewDecoder(in, 4096, vs) },
			mkB:  func(b []byte, vs structform.Visitor) f1Decoder { return ubjson.NewBytesDecoder(b, vs) },
			cases: []tc{
				{"scalar/fail at the only event of doc1", []byte("i\x07Si\x01x"), 0, []string{"str:x"}},
				{"array/fail at OnArrayStart", []byte("[i\x01i\x02]Si\x01x"), 0, []string{"str:x"}},
				{"array/fail at first element", []byte("[i\x01i\x02]Si\x01x"), 1, []string{"str:x"}},
				{"array/fail at OnArrayFinished", []byte("[i\x01i\x02]Si\x01x"), 3, []string{"str:x"}},
				{"counted empty array completed at EOF", []byte("[#i\x00"), 0, nil},
			},
		},
		{
			name: "cborl",
			mk:   func(in io.Reader, vs structform.Visitor) f1Decoder { return cborl.NewDecoder(in, 4096, vs) },
			mkB:  func(b []byte, vs structform.Visitor) f1Decoder { return cborl.NewBytesDecoder(b, vs) },
			cases: []tc{
				{"scalar/fail at the only event of doc1", []byte("\x07\x61x"), 0, []string{"str:x"}},
				{"array/fail at OnArrayStart", []byte("\x82\x01\x02\x61x"), 0, []string{"str:x"}},
				{"array/fail at first element", []byte("\x82\x01\x02\x61x"), 1, []string{"str:x"}},
				{"array/fail at OnArrayFinished", []byte("\x82\x01\x02\x61x"), 3, []string{"str:x"}},
			},
		},
	}

	for _, f := range formats {
		for _, c := range f.cases {
			for _, mode := range []string{"reader", "bytes"} {
				t.Run(f.name+"/"+c.name+"/"+mode, func(t *testing.T) {
					vs := &f1Visitor{failAt: c.failAt}
					var dec f1Decoder
					if mode == "reader" {
						dec = f.mk(bytes.NewReader(c.input), vs)
					} else {
						dec = f.mkB(c.input, vs)
					}

					// first document: the visitor's error must be returned unchanged
					var err error
					for i := 0; i < 4 && err == nil; i++ {
						err = dec.Next()
					}
					if err != errF1Injected {
						t.Fatalf("Next() = %v, want the visitor's error", err)
					}
					if len(vs.after) != 0 {
						t.Fatalf("events delivered after the error within the same call: %v", vs.after)
					}

					// The caller goes on with the stream. Whatever the decoder does
					// now (keep failing, or continue with the second document), it
					// must not deliver any further event of the first document.
					for i := 0; i < 8; i++ {
						if err := dec.Next(); err != nil {
							break
						}
					}

					ok := len(vs.after) == 0 || reflect.DeepEqual(vs.after, c.doc2)
					if !ok {
						t.Errorf("input %q, visitor failed at event %d of the first document.\n"+
							"events delivered by later Next() calls: %v\n"+
							"want none, or only the events of the second document %v\n"+
							"(all events: %v)",
							c.input, c.failAt, vs.after, c.doc2, vs.log)
					}
				})
			}
		}
	}
}
