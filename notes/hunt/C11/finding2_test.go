// Place this file in directory: gotype/   (package gotype, internal test)
// Run: go test ./gotype/ -run TestFinding2 -v
//
// The float32 value with bit pattern 0x15ae43fd (7.038531e-26) and its negation
// 0x95ae43fd do not survive Fold -> JSON encoder -> JSON parser -> Unfold into a
// float32 target: the result is the neighbouring float32 0x15ae43fe
// (7.0385313e-26). An exhaustive run over all 2^32 float32 bit patterns shows
// that these are the only two finite float32 values affected.
package gotype

import (
	"bytes"
	"math"
	"testing"

	"github.com/elastic/go-structform/json"
)

func TestFinding2_Float32ViaJSON(t *testing.T) {
	for _, bits := range []uint32{0x15ae43fd, 0x95ae43fd} {
		in := math.Float32frombits(bits)

		var buf bytes.Buffer
		if err := Fold(in, json.NewVisitor(&buf)); err != nil {
			t.Fatal(err)
		}

		var out float32
		u, err := NewUnfolder(&out)
		if err != nil {
			t.Fatal(err)
		}
		if err := json.Parse(buf.Bytes(), u); err != nil {
			t.Fatal(err)
		}

		if in != out {
			t.Errorf("float32 %v (0x%08x) -> json %q -> float32 %v (0x%08x)",
				in, bits, buf.String(), out, math.Float32bits(out))
		}
	}
}

func TestFinding2_Float32InContainersViaJSON(t *testing.T) {
	type T struct {
		A []float32
		B map[string]float32
		C *float32
	}
	f := math.Float32frombits(0x15ae43fd)
	in := T{A: []float32{f}, B: map[string]float32{"k": -f}, C: &f}

	var buf bytes.Buffer
	if err := Fold(in, json.NewVisitor(&buf)); err != nil {
		t.Fatal(err)
	}
	var out T
	u, err := NewUnfolder(&out)
	if err != nil {
		t.Fatal(err)
	}
	if err := json.Parse(buf.Bytes(), u); err != nil {
		t.Fatal(err)
	}
	if out.A[0] != f || out.B["k"] != -f || *out.C != f {
		t.Errorf("json %s: got A=%v B=%v C=%v, want %v", buf.String(), out.A[0], out.B["k"], *out.C, f)
	}
}
