// Place this file in directory: gotype/   (package gotype, internal test)
// Run: go test ./gotype/ -run TestFinding1 -v
//
// Fold of a struct with an inline (squash) interface{} field crashes the whole
// process with an unrecoverable "fatal error: stack overflow" as soon as the
// inlined value (directly or deeper down) contains another struct that has an
// inline interface{} field as well. Neither type is self-referential.
package gotype

import (
	"bytes"
	"runtime/debug"
	"testing"

	"github.com/elastic/go-structform/json"
)

type f1Outer struct {
	N int
	X interface{} `struct:",inline"`
}

type f1Inner struct {
	M int
	Y interface{} `struct:",inline"`
}

func TestFinding1_NestedInlineInterfaceFoldCrashes(t *testing.T) {
	// fail fast (the crash is a fatal runtime error, it can not be recovered)
	debug.SetMaxStack(8 << 20)

	v := f1Outer{
		N: 1,
		X: f1Inner{M: 2, Y: map[string]interface{}{"a": 1}},
	}

	var buf bytes.Buffer
	err := Fold(v, json.NewVisitor(&buf)) // <- fatal error: stack overflow
	if err != nil {
		// refusing the value with an error would be fine
		t.Logf("refused with error: %v", err)
		return
	}

	const want = `{"n":1,"m":2,"a":1}`
	if got := buf.String(); got != want {
		t.Fatalf("unexpected encoding\n got: %s\nwant: %s", got, want)
	}
}

// Same defect, inline interface holding a map that holds the second struct.
func TestFinding1_NestedInlineInterfaceViaMap(t *testing.T) {
	debug.SetMaxStack(8 << 20)

	v := f1Outer{N: 1, X: map[string]interface{}{
		"inner": f1Outer{N: 2, X: map[string]interface{}{"a": 1}},
	}}

	var buf bytes.Buffer
	err := Fold(v, json.NewVisitor(&buf)) // <- fatal error: stack overflow
	if err != nil {
		t.Logf("refused with error: %v", err)
		return
	}
	const want = `{"n":1,"inner":{"n":2,"a":1}}`
	if got := buf.String(); got != want {
		t.Fatalf("unexpected encoding\n got: %s\nwant: %s", got, want)
	}
}
