// Place in: gotype/ (package gotype_test, i.e. /tmp/hunt/C12/gotype/finding1_test.go)
//
// Finding 1: a struct with an `inline` interface{} field can not be folded if
// the inlined value (transitively) contains another struct with an `inline`
// interface{} field. All inline interface{} fields of one Iterator share one
// single ExpectObjVisitor instance (embeddObjReFold, cached per type in the
// fold registry). The nested use re-targets that shared visitor to itself:
//   - non-empty inner inline value: infinite recursion, fatal "stack overflow"
//     (kills the process, not recoverable)
//   - empty inner inline value: the outer fold is left with active == nil and
//     panics with a nil pointer dereference (or produces unbalanced events).
package gotype_test

import (
	"fmt"
	"os"
	"os/exec"
	"strings"
	"testing"

	structform "github.com/elastic/go-structform"
	"github.com/elastic/go-structform/gotype"
)

type f1Rec struct{ ev []string }

func (r *f1Rec) add(s string) error                           { r.ev = append(r.ev, s); return nil }
func (r *f1Rec) OnObjectStart(int, structform.BaseType) error { return r.add("{") }
func (r *f1Rec) OnObjectFinished() error                      { return r.add("}") }
func (r *f1Rec) OnKey(s string) error                         { return r.add(s + ":") }
func (r *f1Rec) OnArrayStart(int, structform.BaseType) error  { return r.add("[") }
func (r *f1Rec) OnArrayFinished() error                       { return r.add("]") }
func (r *f1Rec) OnNil() error                                 { return r.add("null") }
func (r *f1Rec) OnBool(b bool) error                          { return r.add(fmt.Sprint(b)) }
func (r *f1Rec) OnString(s string) error                      { return r.add(fmt.Sprintf("%q", s)) }
func (r *f1Rec) OnInt8(i int8) error                          { return r.add(fmt.Sprint(i)) }
func (r *f1Rec) OnInt16(i int16) error                        { return r.add(fmt.Sprint(i)) }
func (r *f1Rec) OnInt32(i int32) error                        { return r.add(fmt.Sprint(i)) }
func (r *f1Rec) OnInt64(i int64) error                        { return r.add(fmt.Sprint(i)) }
func (r *f1Rec) OnInt(i int) error                            { return r.add(fmt.Sprint(i)) }
func (r *f1Rec) OnByte(i byte) error                          { return r.add(fmt.Sprint(i)) }
func (r *f1Rec) OnUint8(i uint8) error                        { return r.add(fmt.Sprint(i)) }
func (r *f1Rec) OnUint16(i uint16) error                      { return r.add(fmt.Sprint(i)) }
func (r *f1Rec) OnUint32(i uint32) error                      { return r.add(fmt.Sprint(i)) }
func (r *f1Rec) OnUint64(i uint64) error                      { return r.add(fmt.Sprint(i)) }
func (r *f1Rec) OnUint(i uint) error                          { return r.add(fmt.Sprint(i)) }
func (r *f1Rec) OnFloat32(f float32) error                    { return r.add(fmt.Sprint(f)) }
func (r *f1Rec) OnFloat64(f float64) error                    { return r.add(fmt.Sprint(f)) }

type f1Outer struct {
	A int
	X interface{} `struct:",inline"`
	B int
}

type f1Inner struct {
	Y interface{} `struct:",inline"`
}

func f1Fold(v interface{}) (out string, err error) {
	defer func() {
		if r := recover(); r != nil {
			err = fmt.Errorf("PANIC: %v", r)
		}
	}()
	rec := &f1Rec{}
	err = gotype.Fold(v, rec)
	return strings.Join(rec.ev, " "), err
}

// Recoverable variant: the nested struct's inline value is an EMPTY map.
func TestFinding1_NestedInlineInterface_EmptyInner(t *testing.T) {
	v := f1Outer{
		A: 1,
		X: map[string]interface{}{
			"in": f1Inner{Y: map[string]interface{}{}},
		},
		B: 2,
	}
	want := `{ a: 1 in: { } b: 2 }`
	got, err := f1Fold(v)
	if err != nil || got != want {
		t.Fatalf("fold of nested inline interface{} values\n want: %s\n got:  %s\n err:  %v", want, got, err)
	}
}

// Fatal variant: the nested struct's inline value is NOT empty. The fold never
// returns: unbounded recursion in ExpectObjVisitor.OnKey -> fatal stack
// overflow. Run in a child process, so the failure can be reported.
func TestFinding1_NestedInlineInterface_StackOverflow(t *testing.T) {
	v := f1Outer{
		A: 1,
		X: map[string]interface{}{
			"in": f1Inner{Y: map[string]interface{}{"k": 3}},
		},
		B: 2,
	}

	if os.Getenv("FINDING1_CHILD") == "1" {
		got, err := f1Fold(v)
		fmt.Printf("RESULT: %s err=%v\n", got, err)
		return
	}

	cmd := exec.Command(os.Args[0], "-test.run=^TestFinding1_NestedInlineInterface_StackOverflow$")
	cmd.Env = append(os.Environ(), "FINDING1_CHILD=1")
	out, err := cmd.CombinedOutput()
	want := `RESULT: { a: 1 in: { k: 3 } b: 2 } err=<nil>`
	if err != nil || !strings.Contains(string(out), want) {
		s := string(out)
		if len(s) > 600 {
			s = s[:600] + "..."
		}
		t.Fatalf("child process folding nested inline interface{} values failed: %v\n want output: %s\n got output:\n%s", err, want, s)
	}
}
