// Place in: gotype/ (package gotype_test, i.e. /tmp/hunt/C12/gotype/finding2_test.go)
//
// Finding 2: a folder registered with gotype.Folders for a "pointer shaped"
// Go type (named map type, struct with a single pointer/map field, ...) is
// called with a bogus pointer whenever the value is not stored indirectly in
// the reflect.Value / interface (top level value, value held by an
// interface{}, map element, field of a pointer shaped struct).
// liftUserValueFn (gotype/fold_user.go) passes stunsafe.ReflValuePtr(v), i.e.
// the data word of the reflect.Value. For pointer shaped types that word IS
// the value (the map header pointer / the contained pointer), not a pointer
// to the value, so the user function receives e.g. the *hmap reinterpreted
// as *map[string]string and reads foreign memory (here: crashes).
package gotype_test

import (
	"fmt"
	"testing"

	structform "github.com/elastic/go-structform"
	"github.com/elastic/go-structform/gotype"
)

type f2Rec struct {
	f2Nop
	got []string
}

func (r *f2Rec) OnInt(i int) error       { r.got = append(r.got, fmt.Sprint(i)); return nil }
func (r *f2Rec) OnInt64(i int64) error   { r.got = append(r.got, fmt.Sprint(i)); return nil }
func (r *f2Rec) OnKey(s string) error    { r.got = append(r.got, s+":"); return nil }
func (r *f2Rec) OnString(s string) error { r.got = append(r.got, s); return nil }

type f2Nop struct{}

func (f2Nop) OnObjectStart(int, structform.BaseType) error { return nil }
func (f2Nop) OnObjectFinished() error                      { return nil }
func (f2Nop) OnArrayStart(int, structform.BaseType) error  { return nil }
func (f2Nop) OnArrayFinished() error                       { return nil }
func (f2Nop) OnNil() error                                 { return nil }
func (f2Nop) OnBool(bool) error                            { return nil }
func (f2Nop) OnInt8(int8) error                            { return nil }
func (f2Nop) OnInt16(int16) error                          { return nil }
func (f2Nop) OnInt32(int32) error                          { return nil }
func (f2Nop) OnByte(byte) error                            { return nil }
func (f2Nop) OnUint8(uint8) error                          { return nil }
func (f2Nop) OnUint16(uint16) error                        { return nil }
func (f2Nop) OnUint32(uint32) error                        { return nil }
func (f2Nop) OnUint64(uint64) error                        { return nil }
func (f2Nop) OnUint(uint) error                            { return nil }
func (f2Nop) OnFloat32(float32) error                      { return nil }
func (f2Nop) OnFloat64(float64) error                      { return nil }

// named map type: pointer shaped
type f2Labels map[string]string

func f2FoldLabels(in *f2Labels, v structform.ExtVisitor) error {
	return v.OnInt(len(*in))
}

// struct with a single pointer field: pointer shaped
type f2Ref struct{ Target *int }

func f2FoldRef(in *f2Ref, v structform.ExtVisitor) error {
	return v.OnInt(*in.Target)
}

func f2Fold(v interface{}, folder interface{}) (out string, err error) {
	defer func() {
		if r := recover(); r != nil {
			err = fmt.Errorf("PANIC: %v", r)
		}
	}()
	rec := &f2Rec{}
	err = gotype.Fold(v, rec, gotype.Folders(folder))
	return fmt.Sprint(rec.got), err
}

func TestFinding2_UserFolderPointerShapedTypes(t *testing.T) {
	x := 42
	cases := []struct {
		name   string
		v      interface{}
		folder interface{}
		want   string
	}{
		// control: works, value is addressed via pointer
		{"*Labels (control)", &f2Labels{"a": "b"}, f2FoldLabels, "[1]"},
		{"*Ref (control)", &f2Ref{&x}, f2FoldRef, "[42]"},

		{"Labels top level", f2Labels{"a": "b"}, f2FoldLabels, "[1]"},
		{"Labels in interface{}", map[string]interface{}{"l": f2Labels{"a": "b"}}, f2FoldLabels, "[l: 1]"},
		{"Labels as only struct field", struct{ L f2Labels }{f2Labels{"a": "b"}}, f2FoldLabels, "[l: 1]"},
		{"Labels as map element", map[string]f2Labels{"l": {"a": "b"}}, f2FoldLabels, "[l: 1]"},
		{"Ref top level", f2Ref{&x}, f2FoldRef, "[42]"},
		{"Ref as map element", map[string]f2Ref{"r": {&x}}, f2FoldRef, "[r: 42]"},
	}
	for _, c := range cases {
		got, err := f2Fold(c.v, c.folder)
		if err != nil || got != c.want {
			t.Errorf("%s: want %s, got %s, err=%v", c.name, c.want, got, err)
		}
	}
}
