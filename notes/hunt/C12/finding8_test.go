// Place in: gotype/ (package gotype_test, i.e. /tmp/hunt/C12/gotype/finding8_test.go)
//
// Finding 8 (minor): gotype.Fold swallows the error of NewIterator
// (gotype/fold.go:58-63: `if it, err := NewIterator(..); err == nil {..}; return nil`).
// With an invalid option (e.g. a folder function with an unsupported
// signature) Fold reports NO events at all and returns a nil error, i.e. the
// value is silently dropped, while NewIterator reports the problem.
package gotype_test

import (
	"testing"
	"time"

	structform "github.com/elastic/go-structform"
	"github.com/elastic/go-structform/gotype"
	"github.com/elastic/go-structform/visitors"
)

type f8Count struct {
	structform.ExtVisitor
	n int
}

func (c *f8Count) OnString(s string) error { c.n++; return nil }
func (c *f8Count) OnInt64(i int64) error   { c.n++; return nil }

func TestFinding8_FoldSwallowsOptionError(t *testing.T) {
	// value parameter instead of pointer parameter: rejected by Folders
	bad := func(d time.Duration, v structform.ExtVisitor) error { return v.OnString(d.String()) }

	if _, err := gotype.NewIterator(visitors.NilVisitor(), gotype.Folders(bad)); err == nil {
		t.Fatal("precondition: NewIterator is expected to reject the folder")
	}

	vs := &f8Count{ExtVisitor: structform.EnsureExtVisitor(visitors.NilVisitor())}
	err := gotype.Fold(5*time.Minute, vs, gotype.Folders(bad))
	if err == nil && vs.n == 0 {
		t.Fatalf("Fold returned nil error, but did not report any event for the value")
	}
}
