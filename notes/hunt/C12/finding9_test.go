// Place in: gotype/ (package gotype_test, i.e. /tmp/hunt/C12/gotype/finding9_test.go)
//
// Finding 9 (low severity): a folder registered via gotype.Folders for a
// builtin primitive type (float64, string, int, ...) is applied to values of
// that type at the top level, in struct fields, in interfaces, in arrays
// ([1]float64) and in []interface{} - but silently bypassed for the elements
// of []T and map[string]T (top level, struct field, inline), because those go
// through the typed fast paths (getFoldGoTypes in gotype/fold.go,
// _reflPrimitivesMapping / getMapInlineByPrimitiveElem) which never consult
// the registry for the element type.
package gotype_test

import (
	"fmt"
	"math"
	"strings"
	"testing"

	structform "github.com/elastic/go-structform"
	"github.com/elastic/go-structform/gotype"
)

type f9Rec struct{ ev []string }

func (r *f9Rec) add(s string) error                           { r.ev = append(r.ev, s); return nil }
func (r *f9Rec) OnObjectStart(int, structform.BaseType) error { return r.add("{") }
func (r *f9Rec) OnObjectFinished() error                      { return r.add("}") }
func (r *f9Rec) OnKey(s string) error                         { return r.add(s + ":") }
func (r *f9Rec) OnArrayStart(int, structform.BaseType) error  { return r.add("[") }
func (r *f9Rec) OnArrayFinished() error                       { return r.add("]") }
func (r *f9Rec) OnNil() error                                 { return r.add("null") }
func (r *f9Rec) OnBool(b bool) error                          { return r.add(fmt.Sprint(b)) }
func (r *f9Rec) OnString(s string) error                      { return r.add(fmt.Sprintf("%q", s)) }
func (r *f9Rec) OnInt8(i int8) error                          { return r.add(fmt.Sprint(i)) }
func (r *f9Rec) OnInt16(i int16) error                        { return r.add(fmt.Sprint(i)) }
func (r *f9Rec) OnInt32(i int32) error                        { return r.add(fmt.Sprint(i)) }
func (r *f9Rec) OnInt64(i int64) error                        { return r.add(fmt.Sprint(i)) }
func (r *f9Rec) OnInt(i int) error                            { return r.add(fmt.Sprint(i)) }
func (r *f9Rec) OnByte(i byte) error                          { return r.add(fmt.Sprint(i)) }
func (r *f9Rec) OnUint8(i uint8) error                        { return r.add(fmt.Sprint(i)) }
func (r *f9Rec) OnUint16(i uint16) error                      { return r.add(fmt.Sprint(i)) }
func (r *f9Rec) OnUint32(i uint32) error                      { return r.add(fmt.Sprint(i)) }
func (r *f9Rec) OnUint64(i uint64) error                      { return r.add(fmt.Sprint(i)) }
func (r *f9Rec) OnUint(i uint) error                          { return r.add(fmt.Sprint(i)) }
func (r *f9Rec) OnFloat32(f float32) error                    { return r.add(fmt.Sprint(f)) }
func (r *f9Rec) OnFloat64(f float64) error                    { return r.add(fmt.Sprint(f)) }

// report NaN as null (JSON has no NaN)
func f9FoldFloat(f *float64, v structform.ExtVisitor) error {
	if math.IsNaN(*f) {
		return v.OnNil()
	}
	return v.OnFloat64(*f)
}

func f9Fold(v interface{}) (string, error) {
	rec := &f9Rec{}
	err := gotype.Fold(v, rec, gotype.Folders(f9FoldFloat))
	return strings.Join(rec.ev, " "), err
}

func TestFinding9_FolderForPrimitiveBypassedInTypedContainers(t *testing.T) {
	nan := math.NaN()
	cases := []struct {
		name string
		v    interface{}
		want string
	}{
		{"top level (control)", nan, `null`},
		{"field (control)", struct{ F float64 }{nan}, `{ f: null }`},
		{"[1]float64 (control)", [1]float64{nan}, `[ null ]`},
		{"[]interface{} (control)", []interface{}{nan}, `[ null ]`},
		{"map[string]interface{} (control)", map[string]interface{}{"k": nan}, `{ k: null }`},

		{"[]float64", []float64{nan}, `[ null ]`},
		{"map[string]float64", map[string]float64{"k": nan}, `{ k: null }`},
		{"field []float64", struct{ F []float64 }{[]float64{nan}}, `{ f: [ null ] }`},
		{"field map[string]float64", struct{ F map[string]float64 }{map[string]float64{"k": nan}}, `{ f: { k: null } }`},
		{"inline map[string]float64", struct {
			F map[string]float64 `struct:",inline"`
		}{map[string]float64{"k": nan}}, `{ k: null }`},
	}
	for _, c := range cases {
		got, err := f9Fold(c.v)
		if err != nil || got != c.want {
			t.Errorf("%s:\n want %s\n got  %s\n err  %v", c.name, c.want, got, err)
		}
	}
}
