// Place in: gotype/ (package gotype_test, i.e. /tmp/hunt/C12/gotype/finding4_test.go)
//
// Finding 4: `omitempty` ignores the IsZero() method of custom types whose
// kind is string, slice, array or map (also behind pointers / interfaces).
// The documented rule (gotype/tags.go, README, property): a field tagged
// omitempty is not reported if it is empty; custom types implementing
// `IsZero() bool` are empty if IsZero() returns true.
//
// makeResolveNonEmptyValue (gotype/fold_reflect.go:~395) only consults
// IsZeroer in the `default:` branch of the kind switch. For
// Map/String/Slice/Array kinds only `v.Len() > 0` is checked, so a value with
// IsZero()==true but Len()>0 is reported.
package gotype_test

import (
	"fmt"
	"strings"
	"testing"

	structform "github.com/elastic/go-structform"
	"github.com/elastic/go-structform/gotype"
)

type f4Rec struct{ ev []string }

func (r *f4Rec) add(s string) error                           { r.ev = append(r.ev, s); return nil }
func (r *f4Rec) OnObjectStart(int, structform.BaseType) error { return r.add("{") }
func (r *f4Rec) OnObjectFinished() error                      { return r.add("}") }
func (r *f4Rec) OnKey(s string) error                         { return r.add(s + ":") }
func (r *f4Rec) OnArrayStart(int, structform.BaseType) error  { return r.add("[") }
func (r *f4Rec) OnArrayFinished() error                       { return r.add("]") }
func (r *f4Rec) OnNil() error                                 { return r.add("null") }
func (r *f4Rec) OnBool(b bool) error                          { return r.add(fmt.Sprint(b)) }
func (r *f4Rec) OnString(s string) error                      { return r.add(fmt.Sprintf("%q", s)) }
func (r *f4Rec) OnInt8(i int8) error                          { return r.add(fmt.Sprint(i)) }
func (r *f4Rec) OnInt16(i int16) error                        { return r.add(fmt.Sprint(i)) }
func (r *f4Rec) OnInt32(i int32) error                        { return r.add(fmt.Sprint(i)) }
func (r *f4Rec) OnInt64(i int64) error                        { return r.add(fmt.Sprint(i)) }
func (r *f4Rec) OnInt(i int) error                            { return r.add(fmt.Sprint(i)) }
func (r *f4Rec) OnByte(i byte) error                          { return r.add(fmt.Sprint(i)) }
func (r *f4Rec) OnUint8(i uint8) error                        { return r.add(fmt.Sprint(i)) }
func (r *f4Rec) OnUint16(i uint16) error                      { return r.add(fmt.Sprint(i)) }
func (r *f4Rec) OnUint32(i uint32) error                      { return r.add(fmt.Sprint(i)) }
func (r *f4Rec) OnUint64(i uint64) error                      { return r.add(fmt.Sprint(i)) }
func (r *f4Rec) OnUint(i uint) error                          { return r.add(fmt.Sprint(i)) }
func (r *f4Rec) OnFloat32(f float32) error                    { return r.add(fmt.Sprint(f)) }
func (r *f4Rec) OnFloat64(f float64) error                    { return r.add(fmt.Sprint(f)) }

// int kind: honoured (control)
type f4Num int

func (n f4Num) IsZero() bool { return n == -1 }

// string kind
type f4Level string

func (l f4Level) IsZero() bool { return l == "" || l == "none" }

// slice kind (e.g. an IP address: all zero bytes is the zero address)
type f4Addr []byte

func (a f4Addr) IsZero() bool {
	for _, b := range a {
		if b != 0 {
			return false
		}
	}
	return true
}

// array kind (e.g. an ID / UUID)
type f4ID [2]byte

func (id f4ID) IsZero() bool { return id == f4ID{} }

// map kind, pointer receiver
type f4Set map[string]bool

func (s *f4Set) IsZero() bool {
	for _, v := range *s {
		if v {
			return false
		}
	}
	return true
}

func f4Fold(v interface{}) (string, error) {
	rec := &f4Rec{}
	err := gotype.Fold(v, rec)
	return strings.Join(rec.ev, " "), err
}

func TestFinding4_OmitEmptyIsZeroOnLenKinds(t *testing.T) {
	cases := []struct {
		name string
		v    interface{}
		want string
	}{
		{"int kind (control)", struct {
			A int
			N f4Num `struct:",omitempty"`
		}{1, -1}, `{ a: 1 }`},
		{"string kind", struct {
			A int
			L f4Level `struct:",omitempty"`
		}{1, "none"}, `{ a: 1 }`},
		{"slice kind", struct {
			A int
			L f4Addr `struct:",omitempty"`
		}{1, f4Addr{0, 0, 0, 0}}, `{ a: 1 }`},
		{"array kind", struct {
			A int
			L f4ID `struct:",omitempty"`
		}{1, f4ID{}}, `{ a: 1 }`},
		{"map kind, pointer receiver", struct {
			A int
			L f4Set `struct:",omitempty"`
		}{1, f4Set{"x": false}}, `{ a: 1 }`},
		{"pointer to string kind", struct {
			A int
			L *f4Level `struct:",omitempty"`
		}{1, func() *f4Level { l := f4Level("none"); return &l }()}, `{ a: 1 }`},
		{"interface holding string kind", struct {
			A int
			L interface{} `struct:",omitempty"`
		}{1, f4Level("none")}, `{ a: 1 }`},
	}
	for _, c := range cases {
		got, err := f4Fold(c.v)
		if err != nil || got != c.want {
			t.Errorf("%s:\n want %s\n got  %s\n err  %v", c.name, c.want, got, err)
		}
	}
}
