// Place in: gotype/ (package gotype_test, i.e. /tmp/hunt/C12/gotype/finding7_test.go)
//
// Finding 7 (lower severity): an `inline` field of interface type holding a
// typed nil pointer (e.g. (*S)(nil)) aborts the fold with
// "inline object is no object", after the enclosing object has been started.
// A nil pointer FIELD tagged inline reports nothing (commit 43085b3,
// makeInlinePointerFold), a nil interface reports nothing, a nil map in the
// interface reports nothing - but a nil pointer inside the interface is
// folded with the regular pointer folder (OnNil) into the ExpectObjVisitor.
package gotype_test

import (
	"fmt"
	"strings"
	"testing"

	structform "github.com/elastic/go-structform"
	"github.com/elastic/go-structform/gotype"
)

type f7Rec struct{ ev []string }

func (r *f7Rec) add(s string) error                           { r.ev = append(r.ev, s); return nil }
func (r *f7Rec) OnObjectStart(int, structform.BaseType) error { return r.add("{") }
func (r *f7Rec) OnObjectFinished() error                      { return r.add("}") }
func (r *f7Rec) OnKey(s string) error                         { return r.add(s + ":") }
func (r *f7Rec) OnArrayStart(int, structform.BaseType) error  { return r.add("[") }
func (r *f7Rec) OnArrayFinished() error                       { return r.add("]") }
func (r *f7Rec) OnNil() error                                 { return r.add("null") }
func (r *f7Rec) OnBool(b bool) error                          { return r.add(fmt.Sprint(b)) }
func (r *f7Rec) OnString(s string) error                      { return r.add(fmt.Sprintf("%q", s)) }
func (r *f7Rec) OnInt8(i int8) error                          { return r.add(fmt.Sprint(i)) }
func (r *f7Rec) OnInt16(i int16) error                        { return r.add(fmt.Sprint(i)) }
func (r *f7Rec) OnInt32(i int32) error                        { return r.add(fmt.Sprint(i)) }
func (r *f7Rec) OnInt64(i int64) error                        { return r.add(fmt.Sprint(i)) }
func (r *f7Rec) OnInt(i int) error                            { return r.add(fmt.Sprint(i)) }
func (r *f7Rec) OnByte(i byte) error                          { return r.add(fmt.Sprint(i)) }
func (r *f7Rec) OnUint8(i uint8) error                        { return r.add(fmt.Sprint(i)) }
func (r *f7Rec) OnUint16(i uint16) error                      { return r.add(fmt.Sprint(i)) }
func (r *f7Rec) OnUint32(i uint32) error                      { return r.add(fmt.Sprint(i)) }
func (r *f7Rec) OnUint64(i uint64) error                      { return r.add(fmt.Sprint(i)) }
func (r *f7Rec) OnUint(i uint) error                          { return r.add(fmt.Sprint(i)) }
func (r *f7Rec) OnFloat32(f float32) error                    { return r.add(fmt.Sprint(f)) }
func (r *f7Rec) OnFloat64(f float64) error                    { return r.add(fmt.Sprint(f)) }

type f7Extra struct{ Q int }

type f7Doc struct {
	A int
	X interface{} `struct:",inline"`
	B int
}

type f7DocPtr struct {
	A int
	X *f7Extra `struct:",inline"`
	B int
}

func f7Fold(v interface{}) (string, error) {
	rec := &f7Rec{}
	err := gotype.Fold(v, rec)
	return strings.Join(rec.ev, " "), err
}

func TestFinding7_InlineInterfaceHoldingNilPointer(t *testing.T) {
	cases := []struct {
		name string
		v    interface{}
		want string
	}{
		{"inline *S field, nil (control)", f7DocPtr{A: 1, B: 2}, `{ a: 1 b: 2 }`},
		{"inline interface, nil (control)", f7Doc{A: 1, B: 2}, `{ a: 1 b: 2 }`},
		{"inline interface, nil map (control)", f7Doc{A: 1, X: map[string]int(nil), B: 2}, `{ a: 1 b: 2 }`},
		{"inline interface, *S (control)", f7Doc{A: 1, X: &f7Extra{3}, B: 2}, `{ a: 1 q: 3 b: 2 }`},

		{"inline interface, nil *S", f7Doc{A: 1, X: (*f7Extra)(nil), B: 2}, `{ a: 1 b: 2 }`},
		{"inline interface, nil *map", f7Doc{A: 1, X: (*map[string]int)(nil), B: 2}, `{ a: 1 b: 2 }`},
	}
	for _, c := range cases {
		got, err := f7Fold(c.v)
		if err != nil || got != c.want {
			t.Errorf("%s:\n want %s\n got  %s\n err  %v", c.name, c.want, got, err)
		}
	}
}
