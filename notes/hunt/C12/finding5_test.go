// Place in: gotype/ (package gotype_test, i.e. /tmp/hunt/C12/gotype/finding5_test.go)
//
// Finding 5: a field tagged `omit` must never be reported, whatever other
// options it carries. buildFieldFold (gotype/fold_reflect.go:~262) tests
// `squash && omitEmpty` BEFORE it tests `omit`, so the option combination
// `omit,inline,omitempty` makes the fold of the whole struct fail with
// "inline and omitempty must not be set at the same time" instead of leaving
// the field out. (`struct:"-,inline,omitempty"` works, because parseTags
// returns early for "-"; hasDynamicFields in the same file gives `omit`
// precedence, too.)
package gotype_test

import (
	"fmt"
	"strings"
	"testing"

	structform "github.com/elastic/go-structform"
	"github.com/elastic/go-structform/gotype"
)

type f5Rec struct{ ev []string }

func (r *f5Rec) add(s string) error                           { r.ev = append(r.ev, s); return nil }
func (r *f5Rec) OnObjectStart(int, structform.BaseType) error { return r.add("{") }
func (r *f5Rec) OnObjectFinished() error                      { return r.add("}") }
func (r *f5Rec) OnKey(s string) error                         { return r.add(s + ":") }
func (r *f5Rec) OnArrayStart(int, structform.BaseType) error  { return r.add("[") }
func (r *f5Rec) OnArrayFinished() error                       { return r.add("]") }
func (r *f5Rec) OnNil() error                                 { return r.add("null") }
func (r *f5Rec) OnBool(b bool) error                          { return r.add(fmt.Sprint(b)) }
func (r *f5Rec) OnString(s string) error                      { return r.add(fmt.Sprintf("%q", s)) }
func (r *f5Rec) OnInt8(i int8) error                          { return r.add(fmt.Sprint(i)) }
func (r *f5Rec) OnInt16(i int16) error                        { return r.add(fmt.Sprint(i)) }
func (r *f5Rec) OnInt32(i int32) error                        { return r.add(fmt.Sprint(i)) }
func (r *f5Rec) OnInt64(i int64) error                        { return r.add(fmt.Sprint(i)) }
func (r *f5Rec) OnInt(i int) error                            { return r.add(fmt.Sprint(i)) }
func (r *f5Rec) OnByte(i byte) error                          { return r.add(fmt.Sprint(i)) }
func (r *f5Rec) OnUint8(i uint8) error                        { return r.add(fmt.Sprint(i)) }
func (r *f5Rec) OnUint16(i uint16) error                      { return r.add(fmt.Sprint(i)) }
func (r *f5Rec) OnUint32(i uint32) error                      { return r.add(fmt.Sprint(i)) }
func (r *f5Rec) OnUint64(i uint64) error                      { return r.add(fmt.Sprint(i)) }
func (r *f5Rec) OnUint(i uint) error                          { return r.add(fmt.Sprint(i)) }
func (r *f5Rec) OnFloat32(f float32) error                    { return r.add(fmt.Sprint(f)) }
func (r *f5Rec) OnFloat64(f float64) error                    { return r.add(fmt.Sprint(f)) }

func f5Fold(v interface{}) (string, error) {
	rec := &f5Rec{}
	err := gotype.Fold(v, rec)
	return strings.Join(rec.ev, " "), err
}

func TestFinding5_OmitWinsOverInlineOmitEmpty(t *testing.T) {
	cases := []struct {
		name string
		v    interface{}
		want string
	}{
		{"-,inline,omitempty (control)", struct {
			A int
			M map[string]int `struct:"-,inline,omitempty"`
		}{1, map[string]int{"x": 1}}, `{ a: 1 }`},
		{"omit,inline (control)", struct {
			A int
			M map[string]int `struct:",omit,inline"`
		}{1, map[string]int{"x": 1}}, `{ a: 1 }`},
		{"omit,omitempty (control)", struct {
			A int
			M map[string]int `struct:",omit,omitempty"`
		}{1, map[string]int{"x": 1}}, `{ a: 1 }`},

		{"omit,inline,omitempty", struct {
			A int
			M map[string]int `struct:",omit,inline,omitempty"`
		}{1, map[string]int{"x": 1}}, `{ a: 1 }`},
		{"inline,omitempty,omit on int", struct {
			A int
			M int `struct:"m,inline,omitempty,omit"`
		}{1, 2}, `{ a: 1 }`},
	}
	for _, c := range cases {
		got, err := f5Fold(c.v)
		if err != nil || got != c.want {
			t.Errorf("%s:\n want %s\n got  %s\n err  %v", c.name, c.want, got, err)
		}
	}
}
