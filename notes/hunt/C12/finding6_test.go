// Place in: gotype/ (package gotype_test, i.e. /tmp/hunt/C12/gotype/finding6_test.go)
//
// Finding 6 (judgement call, lower confidence than 1-5): a nil pointer to a
// type with a folder registered via gotype.Folders is not folded as null; the
// user function is invoked with a nil argument instead (liftUserPtrFn,
// gotype/fold_user.go:58: `if v.IsNil() { return f(nil, c.visitor) }`).
// Registered folders always take a pointer (it is the calling convention, also
// for plain values), so an ordinary folder - e.g. foldDuration from the README
// - dereferences nil and panics for `struct{ D *time.Duration }{}`.
// Behaviour is also inconsistent: **T with a nil inner pointer, and nil *T
// tagged inline, never call the folder (null / nothing is reported).
package gotype_test

import (
	"fmt"
	"strings"
	"testing"
	"time"

	structform "github.com/elastic/go-structform"
	"github.com/elastic/go-structform/gotype"
)

type f6Rec struct{ ev []string }

func (r *f6Rec) add(s string) error                           { r.ev = append(r.ev, s); return nil }
func (r *f6Rec) OnObjectStart(int, structform.BaseType) error { return r.add("{") }
func (r *f6Rec) OnObjectFinished() error                      { return r.add("}") }
func (r *f6Rec) OnKey(s string) error                         { return r.add(s + ":") }
func (r *f6Rec) OnArrayStart(int, structform.BaseType) error  { return r.add("[") }
func (r *f6Rec) OnArrayFinished() error                       { return r.add("]") }
func (r *f6Rec) OnNil() error                                 { return r.add("null") }
func (r *f6Rec) OnBool(b bool) error                          { return r.add(fmt.Sprint(b)) }
func (r *f6Rec) OnString(s string) error                      { return r.add(fmt.Sprintf("%q", s)) }
func (r *f6Rec) OnInt8(i int8) error                          { return r.add(fmt.Sprint(i)) }
func (r *f6Rec) OnInt16(i int16) error                        { return r.add(fmt.Sprint(i)) }
func (r *f6Rec) OnInt32(i int32) error                        { return r.add(fmt.Sprint(i)) }
func (r *f6Rec) OnInt64(i int64) error                        { return r.add(fmt.Sprint(i)) }
func (r *f6Rec) OnInt(i int) error                            { return r.add(fmt.Sprint(i)) }
func (r *f6Rec) OnByte(i byte) error                          { return r.add(fmt.Sprint(i)) }
func (r *f6Rec) OnUint8(i uint8) error                        { return r.add(fmt.Sprint(i)) }
func (r *f6Rec) OnUint16(i uint16) error                      { return r.add(fmt.Sprint(i)) }
func (r *f6Rec) OnUint32(i uint32) error                      { return r.add(fmt.Sprint(i)) }
func (r *f6Rec) OnUint64(i uint64) error                      { return r.add(fmt.Sprint(i)) }
func (r *f6Rec) OnUint(i uint) error                          { return r.add(fmt.Sprint(i)) }
func (r *f6Rec) OnFloat32(f float32) error                    { return r.add(fmt.Sprint(f)) }
func (r *f6Rec) OnFloat64(f float64) error                    { return r.add(fmt.Sprint(f)) }

// verbatim from README.md
func f6FoldDuration(in *time.Duration, v structform.ExtVisitor) error {
	return v.OnString(in.String())
}

func f6Fold(v interface{}) (out string, err error) {
	rec := &f6Rec{}
	defer func() {
		out = strings.Join(rec.ev, " ")
		if r := recover(); r != nil {
			err = fmt.Errorf("PANIC: %v", r)
		}
	}()
	err = gotype.Fold(v, rec, gotype.Folders(f6FoldDuration))
	return
}

func TestFinding6_NilPointerToTypeWithRegisteredFolder(t *testing.T) {
	d := 5 * time.Minute
	var nilD *time.Duration
	cases := []struct {
		name string
		v    interface{}
		want string
	}{
		{"value (control)", struct{ D time.Duration }{d}, `{ d: "5m0s" }`},
		{"pointer (control)", struct{ D *time.Duration }{&d}, `{ d: "5m0s" }`},
		{"**T with nil inner (control)", struct{ D **time.Duration }{&nilD}, `{ d: null }`},

		{"nil *T field", struct{ D *time.Duration }{nil}, `{ d: null }`},
		{"nil *T top level", nilD, `null`},
		{"nil *T slice element", []*time.Duration{&d, nil}, `[ "5m0s" null ]`},
	}
	for _, c := range cases {
		got, err := f6Fold(c.v)
		if err != nil || got != c.want {
			t.Errorf("%s:\n want %s\n got  %s\n err  %v", c.name, c.want, got, err)
		}
	}
}
