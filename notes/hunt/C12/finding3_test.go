// Place in: gotype/ (package gotype_test, i.e. /tmp/hunt/C12/gotype/finding3_test.go)
//
// Finding 3: a struct field / slice element / map element whose STATIC type is
// an interface type that contains the Fold method (gotype.Folder itself, or
// any interface embedding it) panics when the interface is nil, or when it
// holds a nil pointer to a type with a value receiver Fold method. The
// documented mapping is: "interfaces fold as their target or as null when nil".
//
// getReflectFold (gotype/fold_reflect.go:56) selects reFoldFolderIfc for every
// type that Implements(Folder) - this includes interface types - before the
// `case reflect.Interface` branch is reached. reFoldFolderIfc
// (gotype/fold_primitives.go:58) only guards `v.Kind() == reflect.Ptr`, so for
// a value of Kind Interface it executes v.Interface().(Folder) on a nil
// interface -> "interface conversion: interface is nil, not gotype.Folder".
package gotype_test

import (
	"fmt"
	"strings"
	"testing"

	structform "github.com/elastic/go-structform"
	"github.com/elastic/go-structform/gotype"
)

type f3Rec struct{ ev []string }

func (r *f3Rec) add(s string) error                           { r.ev = append(r.ev, s); return nil }
func (r *f3Rec) OnObjectStart(int, structform.BaseType) error { return r.add("{") }
func (r *f3Rec) OnObjectFinished() error                      { return r.add("}") }
func (r *f3Rec) OnKey(s string) error                         { return r.add(s + ":") }
func (r *f3Rec) OnArrayStart(int, structform.BaseType) error  { return r.add("[") }
func (r *f3Rec) OnArrayFinished() error                       { return r.add("]") }
func (r *f3Rec) OnNil() error                                 { return r.add("null") }
func (r *f3Rec) OnBool(b bool) error                          { return r.add(fmt.Sprint(b)) }
func (r *f3Rec) OnString(s string) error                      { return r.add(fmt.Sprintf("%q", s)) }
func (r *f3Rec) OnInt8(i int8) error                          { return r.add(fmt.Sprint(i)) }
func (r *f3Rec) OnInt16(i int16) error                        { return r.add(fmt.Sprint(i)) }
func (r *f3Rec) OnInt32(i int32) error                        { return r.add(fmt.Sprint(i)) }
func (r *f3Rec) OnInt64(i int64) error                        { return r.add(fmt.Sprint(i)) }
func (r *f3Rec) OnInt(i int) error                            { return r.add(fmt.Sprint(i)) }
func (r *f3Rec) OnByte(i byte) error                          { return r.add(fmt.Sprint(i)) }
func (r *f3Rec) OnUint8(i uint8) error                        { return r.add(fmt.Sprint(i)) }
func (r *f3Rec) OnUint16(i uint16) error                      { return r.add(fmt.Sprint(i)) }
func (r *f3Rec) OnUint32(i uint32) error                      { return r.add(fmt.Sprint(i)) }
func (r *f3Rec) OnUint64(i uint64) error                      { return r.add(fmt.Sprint(i)) }
func (r *f3Rec) OnUint(i uint) error                          { return r.add(fmt.Sprint(i)) }
func (r *f3Rec) OnFloat32(f float32) error                    { return r.add(fmt.Sprint(f)) }
func (r *f3Rec) OnFloat64(f float64) error                    { return r.add(fmt.Sprint(f)) }

// value receiver folder
type f3Level int

func (l f3Level) Fold(v structform.ExtVisitor) error { return v.OnString(fmt.Sprintf("L%d", int(l))) }

// an application interface embedding the Folder interface
type f3Value interface {
	gotype.Folder
	Describe() string
}

func (l f3Level) Describe() string { return "level" }

func f3Fold(v interface{}) (out string, err error) {
	rec := &f3Rec{}
	defer func() {
		out = strings.Join(rec.ev, " ")
		if r := recover(); r != nil {
			err = fmt.Errorf("PANIC: %v", r)
		}
	}()
	err = gotype.Fold(v, rec)
	return
}

func TestFinding3_NilFolderInterface(t *testing.T) {
	cases := []struct {
		name string
		v    interface{}
		want string
	}{
		// controls
		{"Folder field holding value (control)", struct{ F gotype.Folder }{f3Level(1)}, `{ f: "L1" }`},
		{"interface{} field nil (control)", struct{ F interface{} }{nil}, `{ f: null }`},
		{"interface{} field holding nil *Level (control)", struct{ F interface{} }{(*f3Level)(nil)}, `{ f: null }`},
		{"*Level field nil (control)", struct{ F *f3Level }{nil}, `{ f: null }`},

		{"nil Folder field", struct{ F gotype.Folder }{nil}, `{ f: null }`},
		{"nil f3Value field", struct{ F f3Value }{nil}, `{ f: null }`},
		{"nil Folder slice element", []gotype.Folder{f3Level(1), nil}, `[ "L1" null ]`},
		{"nil Folder map element", map[string]gotype.Folder{"k": nil}, `{ k: null }`},
		{"Folder field holding nil *Level", struct{ F gotype.Folder }{(*f3Level)(nil)}, `{ f: null }`},
	}
	for _, c := range cases {
		got, err := f3Fold(c.v)
		if err != nil || got != c.want {
			t.Errorf("%s:\n want %s\n got  %s\n err  %v", c.name, c.want, got, err)
		}
	}
}
