//go:build linux

// Place this file in: gotype/   (package gotype, e.g. gotype/finding1_test.go)
//
// C20 finding 1: Unfolder.EnableKeyCache(n) pre-allocates a Go map sized for n
// entries (gotype/symbols.go:36, make(map[string]*symbol, max)).  The capacity
// is only an upper bound for the number of cached keys, but it is turned into
// an eager allocation of ~56 bytes per slot:
//
//   - EnableKeyCache(1<<22)           allocates ~220 MiB before any key is seen
//   - EnableKeyCache(math.MaxInt32)   kills the process:
//                                     "fatal error: runtime: out of memory"
//                                     (not recoverable; ~110 GiB requested)
//   - EnableKeyCache(math.MaxInt64)   works (the runtime ignores overflowing hints)
//
// Without the cache the same one-key document unfolds fine, so "enabling the
// key cache with any capacity leaves every unfolding result identical" does not
// hold for large capacities.
package gotype

import (
	"fmt"
	"math"
	"os"
	"os/exec"
	"reflect"
	"runtime"
	"strings"
	"syscall"
	"testing"

	"github.com/elastic/go-structform/json"
)

func finding1Unfold(capacity int, enable bool) (map[string]int, error) {
	var m map[string]int
	u, err := NewUnfolder(&m)
	if err != nil {
		return nil, err
	}
	if enable {
		u.EnableKeyCache(capacity)
	}
	err = json.NewParser(u).Parse([]byte(`{"a":1,"b":2,"a":3}`))
	return m, err
}

// In-process, non-lethal variant: a capacity of 4M keys must not cost hundreds
// of MiB when only two distinct keys are ever seen.
func TestFinding1KeyCacheCapacityIsPreallocated(t *testing.T) {
	want, err := finding1Unfold(0, false)
	if err != nil {
		t.Fatal(err)
	}

	var before, after runtime.MemStats
	runtime.GC()
	runtime.ReadMemStats(&before)
	got, err := finding1Unfold(1<<22, true)
	runtime.ReadMemStats(&after)
	if err != nil {
		t.Fatal(err)
	}
	if !reflect.DeepEqual(want, got) {
		t.Fatalf("result differs: %v vs %v", want, got)
	}

	allocated := after.TotalAlloc - before.TotalAlloc
	t.Logf("bytes allocated with EnableKeyCache(1<<22) for a 2-key document: %d MiB", allocated>>20)
	if allocated > 16<<20 {
		t.Fatalf("EnableKeyCache(1<<22) allocated %d MiB up front for a document with 2 distinct keys; the capacity is a limit, not an allocation request", allocated>>20)
	}
}

// Lethal variant, run in a child process: capacity math.MaxInt32.
func TestFinding1KeyCacheHugeCapacityKillsProcess(t *testing.T) {
	if os.Getenv("FINDING1_CHILD") == "1" {
		// keep the experiment from disturbing the host: 32 GiB address space
		lim := syscall.Rlimit{Cur: 32 << 30, Max: 32 << 30}
		_ = syscall.Setrlimit(syscall.RLIMIT_AS, &lim)

		m, err := finding1Unfold(math.MaxInt32, true)
		fmt.Printf("RESULT %v %v\n", m, err)
		return
	}

	want, err := finding1Unfold(0, false)
	if err != nil {
		t.Fatal(err)
	}

	cmd := exec.Command(os.Args[0], "-test.run", "^TestFinding1KeyCacheHugeCapacityKillsProcess$")
	cmd.Env = append(os.Environ(), "FINDING1_CHILD=1")
	out, err := cmd.CombinedOutput()
	expect := fmt.Sprintf("RESULT %v %v\n", want, nil)
	if err != nil || !strings.Contains(string(out), expect) {
		head := string(out)
		if len(head) > 400 {
			head = head[:400]
		}
		t.Fatalf("unfolding with EnableKeyCache(math.MaxInt32) did not produce %q; child: err=%v output:\n%s", expect, err, head)
	}
}
