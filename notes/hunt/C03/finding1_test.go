// Place this file in the directory cborl/ of the library (package cborl):
//
//	cp finding1_test.go <repo>/cborl/finding1_test.go
//	go test ./cborl -run TestFinding1 -v
//
// Finding 1 (C03): the cborl parser closes nested definite-length arrays/maps
// by mutual recursion (popState -> onValue -> arrayHandleLen/mapHandleLen ->
// popState -> ...). The recursion depth equals the nesting depth, that is one
// level per input byte for the input 0x81 0x81 ... 0x81 0x00. About 8 MB of
// such input overflow the 1 GB goroutine stack limit: the Go runtime kills the
// process with "fatal error: stack overflow" (not recoverable).
//
// TestFinding1RecursionDepth is cheap: it measures the call stack depth at the
// moment the outermost container is finished and fails if the depth grows with
// the nesting depth.
//
// TestFinding1Crash demonstrates the real crash. It needs ~1.5 GB of memory
// and a few seconds, so it only runs with FINDING1_CRASH=1. It runs the parser
// in a child process and fails if the child dies with a stack overflow.
package cborl

import (
	"bytes"
	"io"
	"os"
	"os/exec"
	"runtime"
	"strings"
	"testing"

	structform "github.com/elastic/go-structform"
)

type f1Visitor struct {
	finished int // number of containers finished so far
	want     int // measure the stack depth when the want-th container finishes
	depth    int // measured number of stack frames
}

func (v *f1Visitor) closed() error {
	v.finished++
	if v.finished == v.want {
		pcs := make([]uintptr, 1<<22)
		v.depth = runtime.Callers(0, pcs)
	}
	return nil
}

func (v *f1Visitor) OnObjectStart(int, structform.BaseType) error { return nil }
func (v *f1Visitor) OnObjectFinished() error                      { return v.closed() }
func (v *f1Visitor) OnKey(string) error                           { return nil }
func (v *f1Visitor) OnArrayStart(int, structform.BaseType) error  { return nil }
func (v *f1Visitor) OnArrayFinished() error                       { return v.closed() }
func (v *f1Visitor) OnNil() error                                 { return nil }
func (v *f1Visitor) OnBool(bool) error                            { return nil }
func (v *f1Visitor) OnString(string) error                        { return nil }
func (v *f1Visitor) OnInt8(int8) error                            { return nil }
func (v *f1Visitor) OnInt16(int16) error                          { return nil }
func (v *f1Visitor) OnInt32(int32) error                          { return nil }
func (v *f1Visitor) OnInt64(int64) error                          { return nil }
func (v *f1Visitor) OnInt(int) error                              { return nil }
func (v *f1Visitor) OnByte(byte) error                            { return nil }
func (v *f1Visitor) OnUint8(uint8) error                          { return nil }
func (v *f1Visitor) OnUint16(uint16) error                        { return nil }
func (v *f1Visitor) OnUint32(uint32) error                        { return nil }
func (v *f1Visitor) OnUint64(uint64) error                        { return nil }
func (v *f1Visitor) OnUint(uint) error                            { return nil }
func (v *f1Visitor) OnFloat32(float32) error                      { return nil }
func (v *f1Visitor) OnFloat64(float64) error                      { return nil }

// nestedArrays returns n arrays of length 1 nested into each other, the
// innermost holding the integer 0: 0x81 0x81 ... 0x81 0x00 (n+1 bytes).
func f1NestedArrays(n int) []byte {
	return append(bytes.Repeat([]byte{0x81}, n), 0x00)
}

// nestedMaps returns n maps with the single key "" nested into each other:
// 0xa1 0x60 0xa1 0x60 ... 0xf6 (2n+1 bytes).
func f1NestedMaps(n int) []byte {
	return append(bytes.Repeat([]byte{0xa1, 0x60}, n), 0xf6)
}

func TestFinding1RecursionDepth(t *testing.T) {
	const nesting = 100000
	const maxFrames = 1000 // generous: the parser needs ~10 frames

	inputs := map[string][]byte{
		"arrays": f1NestedArrays(nesting),
		"maps":   f1NestedMaps(nesting),
	}
	modes := map[string]func(in []byte, vs structform.Visitor) error{
		"Parse": func(in []byte, vs structform.Visitor) error { return Parse(in, vs) },
		"Write1": func(in []byte, vs structform.Visitor) error { // byte-wise delivery
			p := NewParser(vs)
			for i := range in {
				if _, err := p.Write(in[i : i+1]); err != nil {
					return err
				}
			}
			return nil
		},
		"Decoder": func(in []byte, vs structform.Visitor) error {
			dec := NewDecoder(bytes.NewReader(in), 4096, vs)
			for {
				if err := dec.Next(); err != nil {
					if err == io.EOF {
						return nil
					}
					return err
				}
			}
		},
	}

	for name, in := range inputs {
		for mode, run := range modes {
			v := &f1Visitor{want: nesting}
			if err := run(in, v); err != nil {
				t.Fatalf("%v/%v: well-formed input failed: %v", name, mode, err)
			}
			if v.finished != nesting {
				t.Fatalf("%v/%v: %v containers finished, want %v", name, mode, v.finished, nesting)
			}
			if v.depth > maxFrames {
				t.Errorf("%v/%v: %v stack frames when the outermost of %v nested containers finishes "+
					"(%v input bytes): call depth grows with the nesting depth of the input",
					name, mode, v.depth, nesting, len(in))
			}
		}
	}
}

func TestFinding1Crash(t *testing.T) {
	const nesting = 9 << 20 // 9 MiB of input

	if os.Getenv("FINDING1_CHILD") == "1" {
		err := Parse(f1NestedArrays(nesting), &f1Visitor{})
		if err != nil {
			os.Stdout.WriteString("child: error: " + err.Error() + "\n")
		}
		os.Stdout.WriteString("child: survived\n")
		return
	}
	if os.Getenv("FINDING1_CRASH") != "1" {
		t.Skip("set FINDING1_CRASH=1 to run (needs ~1.5 GB memory)")
	}

	cmd := exec.Command(os.Args[0], "-test.run", "^TestFinding1Crash$", "-test.v")
	cmd.Env = append(os.Environ(), "FINDING1_CHILD=1")
	out, err := cmd.CombinedOutput()
	s := string(out)
	if len(s) > 600 {
		s = s[:600]
	}
	if err != nil || !strings.Contains(string(out), "child: survived") {
		t.Fatalf("parsing %v nested arrays (%v bytes) killed the process: %v\n%s", nesting, nesting+1, err, s)
	}
}
