// Place this file in the ROOT directory of the library (next to visitor.go);
// it is an external test of package structform:
//
//	cp finding2_test.go <repo>/finding2_test.go
//	go test . -run TestFinding2 -v
//
// Finding 2 (C03, minor): a pull decoder created with a read buffer size of 0
// (json/ubjson/cborl.NewDecoder(in, 0, vs)) never returns from Next: the
// decoder calls in.Read with an empty slice, gets (0, nil) back, and retries
// forever without consuming input (100% CPU). The test fails after a timeout.
// NOTE: on failure the spinning goroutines are leaked until the test binary
// exits.
package structform_test

import (
	"bytes"
	"strings"
	"testing"
	"time"

	structform "github.com/elastic/go-structform"
	"github.com/elastic/go-structform/cborl"
	"github.com/elastic/go-structform/json"
	"github.com/elastic/go-structform/ubjson"
)

type f2Visitor struct{}

func (f2Visitor) OnObjectStart(int, structform.BaseType) error { return nil }
func (f2Visitor) OnObjectFinished() error                      { return nil }
func (f2Visitor) OnKey(string) error                           { return nil }
func (f2Visitor) OnArrayStart(int, structform.BaseType) error  { return nil }
func (f2Visitor) OnArrayFinished() error                       { return nil }
func (f2Visitor) OnNil() error                                 { return nil }
func (f2Visitor) OnBool(bool) error                            { return nil }
func (f2Visitor) OnString(string) error                        { return nil }
func (f2Visitor) OnInt8(int8) error                            { return nil }
func (f2Visitor) OnInt16(int16) error                          { return nil }
func (f2Visitor) OnInt32(int32) error                          { return nil }
func (f2Visitor) OnInt64(int64) error                          { return nil }
func (f2Visitor) OnInt(int) error                              { return nil }
func (f2Visitor) OnByte(byte) error                            { return nil }
func (f2Visitor) OnUint8(uint8) error                          { return nil }
func (f2Visitor) OnUint16(uint16) error                        { return nil }
func (f2Visitor) OnUint32(uint32) error                        { return nil }
func (f2Visitor) OnUint64(uint64) error                        { return nil }
func (f2Visitor) OnUint(uint) error                            { return nil }
func (f2Visitor) OnFloat32(float32) error                      { return nil }
func (f2Visitor) OnFloat64(float64) error                      { return nil }

func TestFinding2(t *testing.T) {
	type next interface{ Next() error }
	decoders := []struct {
		name string
		dec  next
	}{
		{"json bytes.Reader", json.NewDecoder(bytes.NewReader([]byte(`{"a":1}`)), 0, f2Visitor{})},
		{"json strings.Reader", json.NewDecoder(strings.NewReader(`{"a":1}`), 0, f2Visitor{})},
		{"ubjson bytes.Reader", ubjson.NewDecoder(bytes.NewReader([]byte("{U\x01aZ}")), 0, f2Visitor{})},
		{"cborl bytes.Reader", cborl.NewDecoder(bytes.NewReader([]byte("\xa1\x61a\x01")), 0, f2Visitor{})},
		{"cborl bytes.Buffer", cborl.NewDecoder(bytes.NewBuffer([]byte("\xa1\x61a\x01")), 0, f2Visitor{})},
	}

	for _, d := range decoders {
		d := d
		done := make(chan error, 1)
		go func() { done <- d.dec.Next() }()
		select {
		case err := <-done:
			// any verdict is fine (value decoded or an error), as long as Next returns
			t.Logf("%v: Next returned: %v", d.name, err)
		case <-time.After(2 * time.Second):
			t.Errorf("%v: Decoder.Next did not return within 2s (busy loop, no input consumed)", d.name)
		}
	}
}
