// Place this file in the ROOT directory of the library (next to visitor.go);
// it is an external test of package structform:
//
//	cp finding3_test.go <repo>/finding3_test.go
//	GOARCH=386 go test . -run TestFinding3 -v      (any 32-bit GOARCH: 386, arm, mips, ...)
//
// Finding 3 (C03): on platforms with a 32-bit int the ubjson and cborl parsers
// convert the 64-bit length read from the input with int(L) without a range
// check. A length in [2^31, 2^32) becomes negative and is used as a slice
// bound: the parser panics with "slice bounds out of range [-1:]". A length of
// 2^32 becomes 0: the truncated input "string of 4 GiB, no data" is accepted.
//
// The test is skipped where int has 64 bits (the conversions are lossless
// there), it fails with GOARCH=386.
package structform_test

import (
	"fmt"
	"io"
	"strconv"
	"testing"

	structform "github.com/elastic/go-structform"
	"github.com/elastic/go-structform/cborl"
	"github.com/elastic/go-structform/ubjson"
)

type f3Visitor struct{ events []string }

func (v *f3Visitor) add(s string) error { v.events = append(v.events, s); return nil }
func (v *f3Visitor) OnObjectStart(l int, _ structform.BaseType) error {
	return v.add(fmt.Sprint("{", l))
}
func (v *f3Visitor) OnObjectFinished() error { return v.add("}") }
func (v *f3Visitor) OnKey(s string) error    { return v.add(fmt.Sprintf("key %q", s)) }
func (v *f3Visitor) OnArrayStart(l int, _ structform.BaseType) error {
	return v.add(fmt.Sprint("[", l))
}
func (v *f3Visitor) OnArrayFinished() error  { return v.add("]") }
func (v *f3Visitor) OnNil() error            { return v.add("nil") }
func (v *f3Visitor) OnBool(bool) error       { return v.add("bool") }
func (v *f3Visitor) OnString(s string) error { return v.add(fmt.Sprintf("str %q", s)) }
func (v *f3Visitor) OnInt8(int8) error       { return v.add("num") }
func (v *f3Visitor) OnInt16(int16) error     { return v.add("num") }
func (v *f3Visitor) OnInt32(int32) error     { return v.add("num") }
func (v *f3Visitor) OnInt64(int64) error     { return v.add("num") }
func (v *f3Visitor) OnInt(int) error         { return v.add("num") }
func (v *f3Visitor) OnByte(byte) error       { return v.add("byte") }
func (v *f3Visitor) OnUint8(uint8) error     { return v.add("num") }
func (v *f3Visitor) OnUint16(uint16) error   { return v.add("num") }
func (v *f3Visitor) OnUint32(uint32) error   { return v.add("num") }
func (v *f3Visitor) OnUint64(uint64) error   { return v.add("num") }
func (v *f3Visitor) OnUint(uint) error       { return v.add("num") }
func (v *f3Visitor) OnFloat32(float32) error { return v.add("num") }
func (v *f3Visitor) OnFloat64(float64) error { return v.add("num") }

func TestFinding3(t *testing.T) {
	if strconv.IntSize != 32 {
		t.Skip("int has 64 bits here; run with GOARCH=386")
	}

	type next interface{ Next() error }
	drain := func(d next) error {
		for {
			if err := d.Next(); err != nil {
				if err == io.EOF {
					return nil
				}
				return err
			}
		}
	}
	entry := map[string]map[string]func(in string, vs structform.Visitor) error{
		"ubjson": {
			"Parse":   func(in string, vs structform.Visitor) error { return ubjson.Parse([]byte(in), vs) },
			"Decoder": func(in string, vs structform.Visitor) error { return drain(ubjson.NewBytesDecoder([]byte(in), vs)) },
		},
		"cborl": {
			"Parse":   func(in string, vs structform.Visitor) error { return cborl.Parse([]byte(in), vs) },
			"Decoder": func(in string, vs structform.Visitor) error { return drain(cborl.NewBytesDecoder([]byte(in), vs)) },
		},
	}

	// every input announces far more data than it holds: all are truncated and
	// must be answered with an error (no panic, no success)
	cases := []struct{ format, name, in string }{
		{"ubjson", "string, length 2^32-1", "SL\x00\x00\x00\x00\xff\xff\xff\xffabc"},
		{"ubjson", "string, length 2^31", "SL\x00\x00\x00\x00\x80\x00\x00\x00abc"},
		{"ubjson", "high precision number, length 2^32-1", "HL\x00\x00\x00\x00\xff\xff\xff\xff123"},
		{"ubjson", "object key, length 2^32-1", "{L\x00\x00\x00\x00\xff\xff\xff\xffabc"},
		{"ubjson", "string, length 2^32", "SL\x00\x00\x00\x01\x00\x00\x00\x00"},
		{"cborl", "text, length 2^32-1", "\x7a\xff\xff\xff\xffabc"},
		{"cborl", "text, length 2^31", "\x7a\x80\x00\x00\x00abc"},
		{"cborl", "bytes, length 2^32-1", "\x5a\xff\xff\xff\xffabc"},
		{"cborl", "map key, length 2^32-1", "\xa1\x7a\xff\xff\xff\xffabc"},
		{"cborl", "text, length 2^32", "\x7b\x00\x00\x00\x01\x00\x00\x00\x00"},
	}

	for _, c := range cases {
		for mode, run := range entry[c.format] {
			func() {
				v := &f3Visitor{}
				defer func() {
					if r := recover(); r != nil {
						t.Errorf("%v/%v %v (%q): PANIC: %v", c.format, mode, c.name, c.in, r)
					}
				}()
				if err := run(c.in, v); err == nil {
					t.Errorf("%v/%v %v (%q): truncated input accepted, events: %q", c.format, mode, c.name, c.in, v.events)
				}
			}()
		}
	}
}
