// Place this file in the directory gotype/ of the library (package gotype).
// Public API only; run with:  go test -run TestFinding3 ./gotype
//
// C14 finding 3 (low severity): NewUnfolder/SetTarget accept a typed nil
// pointer ((*T)(nil)) as target. The type is supported, the value can not be
// written to; instead of refusing the target (errNilInput exists in error.go
// but is never used) the first event method that touches the target panics.
package gotype

import (
	"testing"
)

type f3S struct{ A int }

func TestFinding3TypedNilTargetPanics(t *testing.T) {
	obj := func(u *Unfolder) error {
		if err := u.OnObjectStart(1, 0); err != nil {
			return err
		}
		if err := u.OnKey("a"); err != nil {
			return err
		}
		return u.OnInt(1)
	}
	arr := func(u *Unfolder) error { return u.OnArrayStart(1, 0) }
	num := func(u *Unfolder) error { return u.OnInt(1) }

	cases := []struct {
		name string
		to   interface{}
		feed func(u *Unfolder) error
	}{
		{"*int", (*int)(nil), num},
		{"*interface{}", (*interface{})(nil), num},
		{"**int", (**int)(nil), num},
		{"*[]int", (*[]int)(nil), arr},
		{"*[]struct", (*[]f3S)(nil), arr},
		{"*map[string]int", (*map[string]int)(nil), obj},
		{"*map[string]struct", (*map[string]f3S)(nil), obj},
		{"*struct", (*f3S)(nil), obj},
	}

	for _, c := range cases {
		c := c
		t.Run(c.name, func(t *testing.T) {
			defer func() {
				if p := recover(); p != nil {
					t.Fatalf("panic instead of an error: %v", p)
				}
			}()
			u, err := NewUnfolder(c.to)
			if err != nil {
				return // refusing the target is the expected behaviour
			}
			if err := c.feed(u); err == nil {
				t.Fatalf("unfolding into a nil pointer neither failed nor panicked?")
			}
		})
	}
}
