// Place this file in the directory gotype/ of the library (package gotype),
// TOGETHER WITH finding1_test.go (it uses f1Int and f1Unfolder from there).
// Run alone with:  go test -run TestFinding1ForgedPointerKillsTheProcess ./gotype
//
// Severity demonstration for C14 finding 1: the integer stored into the
// pointer slot comes from the document. If it is an address inside the Go heap
// that is currently not allocated, the next garbage collection aborts the whole
// process with the unrecoverable
//     fatal error: found bad pointer in Go heap (incorrect use of unsafe or cgo?)
// This test therefore KILLS the test binary on the defective tree (exit status 2)
// and passes once the defect is repaired.
package gotype

import (
	"runtime"
	"runtime/debug"
	"strconv"
	"testing"
	"unsafe"
)

var f1Sink []byte

func TestFinding1ForgedPointerKillsTheProcess(t *testing.T) {
	// find an address in the heap arena which is not allocated any more
	f1Sink = make([]byte, 64<<20)
	addr := uintptr(unsafe.Pointer(&f1Sink[0])) + 32<<20
	f1Sink = nil
	runtime.GC()
	debug.FreeOSMemory()
	runtime.GC()

	var to []*f1Int
	u, err := NewUnfolder(&to, f1Unfolder())
	if err != nil {
		t.Fatal(err)
	}
	// document: ["<addr>"]
	if err := u.OnArrayStart(1, 0); err != nil {
		return
	}
	if err := u.OnString(strconv.FormatUint(uint64(addr), 10)); err != nil {
		return
	}
	if err := u.OnArrayFinished(); err != nil {
		return
	}

	runtime.GC() // fatal error: found bad pointer in Go heap
	runtime.GC()
	if len(to) != 1 || to[0] == nil || uint64(*to[0]) != uint64(addr) {
		t.Fatalf("unexpected result %v", to)
	}
	runtime.KeepAlive(to)
}
