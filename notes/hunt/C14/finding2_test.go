// Place this file in the directory gotype/ of the library (package gotype).
// Public API only; run with:  go test -run TestFinding2 ./gotype
//
// C14 finding 2: a processing unfolder (gotype.Unfolders, signature
// func(to *T) (cell interface{}, process func(to *T, cell interface{}) error))
// whose cell is not a pointer is neither refused nor reported through the
// prepared "failing unfolder" (unfolderUserFailing). The cell type is passed to
// lookupReflUnfolder, which assumes a pointer type:
//   - a map cell (a reference type, so an easy mistake) is treated as a pointer
//     to its element type: the decoded value is written over the runtime map
//     header -> silent memory corruption, no error;
//   - a scalar cell panics inside reflect ("Elem of invalid type int").
package gotype

import (
	"testing"
)

type f2T struct{ N int }

func f2Feed(u *Unfolder) error {
	// well-formed stream {"a": 1}
	for _, step := range []func() error{
		func() error { return u.OnObjectStart(1, 0) },
		func() error { return u.OnKey("a") },
		func() error { return u.OnInt(1) },
		func() error { return u.OnObjectFinished() },
	} {
		if err := step(); err != nil {
			return err
		}
	}
	return nil
}

func TestFinding2MapCellCorruptsMapHeader(t *testing.T) {
	var to f2T
	u, err := NewUnfolder(&to, Unfolders(
		func(to *f2T) (interface{}, func(*f2T, interface{}) error) {
			cell := map[string]interface{}{} // reference type, but not a pointer
			return cell, func(to *f2T, c interface{}) error {
				to.N = len(c.(map[string]interface{}))
				return nil
			}
		}))
	if err != nil {
		t.Skipf("refused up front (fine): %v", err)
	}

	defer func() {
		if p := recover(); p != nil {
			t.Fatalf("unfolding panicked: %v", p)
		}
	}()

	if err := f2Feed(u); err != nil {
		t.Logf("unfold reported an error (acceptable): %v", err)
		return
	}
	// Unfolding "succeeded": the cell must now be {"a": 1}.
	if to.N != 1 {
		t.Fatalf("unfolding succeeded, but len(cell) = %d (want 1): the map header of the cell was overwritten", to.N)
	}
}

func TestFinding2ScalarCellPanics(t *testing.T) {
	defer func() {
		if p := recover(); p != nil {
			t.Fatalf("NewUnfolder/SetTarget/event method panicked instead of returning an error: %v", p)
		}
	}()

	var to f2T
	u, err := NewUnfolder(&to, Unfolders(
		func(to *f2T) (interface{}, func(*f2T, interface{}) error) {
			return 0, func(to *f2T, c interface{}) error { return nil }
		}))
	if err != nil {
		t.Skipf("refused up front (fine): %v", err)
	}

	if err := u.OnInt(1); err != nil {
		t.Logf("unfold reported an error (acceptable): %v", err)
	}
}
