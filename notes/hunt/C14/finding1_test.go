// Place this file in the directory gotype/ of the library (package gotype).
// It only uses the public API; run with:  go test -run TestFinding1 ./gotype
//
// C14 finding 1: a user unfolder registered for *T (gotype.Unfolders) is applied
// with the wrong pointer level to the elements of []*T and map[string]*T
// targets. The callback receives the address of the *T slot (a **T) disguised
// as *T and overwrites the pointer slot itself with the decoded integer: the
// target ends up holding forged pointers (memory corruption); dereferencing the
// result faults.
package gotype

import (
	"runtime/debug"
	"strconv"
	"testing"
	"unsafe"

	"github.com/elastic/go-structform/json"
)

type f1Int int

func f1Unfolder() UnfoldOption {
	// documented "primitive unfolder": func(to *Target, from P) error
	return Unfolders(func(to *f1Int, s string) error {
		i, err := strconv.Atoi(s)
		*to = f1Int(i)
		return err
	})
}

func f1Deref(t *testing.T, p *f1Int) (v f1Int, fault interface{}) {
	old := debug.SetPanicOnFault(true)
	defer debug.SetPanicOnFault(old)
	defer func() { fault = recover() }()
	return *p, nil
}

func TestFinding1SliceOfPointerToUserType(t *testing.T) {
	var to []*f1Int
	u, err := NewUnfolder(&to, f1Unfolder())
	if err != nil {
		t.Fatal(err)
	}

	// well-formed stream, matching the target: ["12345"]
	if err := json.NewParser(u).ParseString(`["12345"]`); err != nil {
		// an error would be acceptable for C14, corruption is not
		t.Logf("unfold reported: %v", err)
		return
	}

	if len(to) != 1 {
		t.Fatalf("want 1 element, got %d", len(to))
	}
	t.Logf("to[0] = %p", to[0])
	if to[0] == nil {
		t.Fatalf("element is nil although unfolding succeeded")
	}
	if uintptr(unsafe.Pointer(to[0])) == 12345 {
		t.Errorf("forged pointer: the decoded integer 12345 was stored into the *f1Int slot itself (to[0] = %p)", to[0])
	}
	v, fault := f1Deref(t, to[0])
	if fault != nil {
		t.Fatalf("dereferencing the unfolded element faults: %v", fault)
	}
	if v != 12345 {
		t.Fatalf("want *to[0] == 12345, got %d", v)
	}
}

func TestFinding1MapOfPointerToUserType(t *testing.T) {
	var to map[string]*f1Int
	u, err := NewUnfolder(&to, f1Unfolder())
	if err != nil {
		t.Fatal(err)
	}

	// plain event stream: {"a": "777"}
	if err := u.OnObjectStart(1, 0); err != nil {
		t.Logf("unfold reported: %v", err)
		return
	}
	if err := u.OnKey("a"); err != nil {
		t.Logf("unfold reported: %v", err)
		return
	}
	if err := u.OnString("777"); err != nil {
		t.Logf("unfold reported: %v", err)
		return
	}
	if err := u.OnObjectFinished(); err != nil {
		t.Logf("unfold reported: %v", err)
		return
	}

	p := to["a"]
	t.Logf(`to["a"] = %p`, p)
	if p == nil {
		t.Fatalf("element is nil although unfolding succeeded")
	}
	if uintptr(unsafe.Pointer(p)) == 777 {
		t.Errorf(`forged pointer: the decoded integer 777 was stored into the *f1Int slot itself (to["a"] = %p)`, p)
	}
	v, fault := f1Deref(t, p)
	if fault != nil {
		t.Fatalf("dereferencing the unfolded element faults: %v", fault)
	}
	if v != 777 {
		t.Fatalf(`want *to["a"] == 777, got %d`, v)
	}
}

type f1Big struct{ A, B uintptr }

// The callback believes it got a *f1Big (16 bytes) but it got the address of an
// 8 byte pointer slot: writing the second field clobbers the neighbouring slice
// element (with a slice of length 1 the write goes past the backing array).
func TestFinding1WritesPastTheElementSlot(t *testing.T) {
	var to []*f1Big
	u, err := NewUnfolder(&to, Unfolders(func(to *f1Big, s string) error {
		to.A = 1
		to.B = 0xdead
		return nil
	}))
	if err != nil {
		t.Fatal(err)
	}

	// ["x", null] with the exact length announced (as the ubjson and cborl
	// parsers and gotype.Fold do): both slots are allocated up front.
	// Without announced length the slice grows one element at a time and the
	// write to element 0 goes past the end of the 8 byte backing array instead.
	for _, step := range []func() error{
		func() error { return u.OnArrayStart(2, 0) },
		func() error { return u.OnString("x") },
		func() error { return u.OnNil() },
		func() error { return u.OnArrayFinished() },
	} {
		if err := step(); err != nil {
			t.Logf("unfold reported: %v", err)
			return
		}
	}
	if len(to) != 2 {
		t.Fatalf("want 2 elements, got %d", len(to))
	}
	if uintptr(unsafe.Pointer(to[1])) == 0xdead {
		t.Fatalf("unfolding element 0 overwrote element 1 with 0xdead (to = [%p %p]); element 1 was null in the document", to[0], to[1])
	}
	if to[1] != nil {
		t.Fatalf("want to[1] == nil, got %p", to[1])
	}
}
