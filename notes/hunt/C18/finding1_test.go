// Place this file in a NEW directory inside the module, e.g. <repo>/c18hunt/finding1_test.go
// (package c18hunt, uses only the public API of cborl and ubjson).
//
// The defect only shows on platforms where Go's int is 32 bits wide. Run with:
//
//	GOARCH=386 go test ./c18hunt -run TestFinding1 -v
//
// (linux/amd64 kernels execute the 386 test binary directly; no cgo needed).
// On 64-bit platforms the test skips itself.
//
// Defect: ubjson and cborl keep announced lengths as int64 but convert them with
// int(...) when collecting the payload of strings / byte strings / object keys.
// With a 32-bit int the length is truncated:
//   - lengths in [2^31, 2^32) become negative -> slice-bounds PANIC inside Next
//   - lengths >= 2^32 lose their upper bits   -> a string that announces
//     2^32+1 bytes is delivered after 1 byte; a stream that ends inside that
//     value is reported as ONE SUCCESSFUL VALUE followed by a clean io.EOF, and
//     in a longer stream the remaining payload bytes are framed as further
//     top-level values.
package c18hunt

import (
	"fmt"
	"io"
	"strconv"
	"testing"

	structform "github.com/elastic/go-structform"
	"github.com/elastic/go-structform/cborl"
	"github.com/elastic/go-structform/ubjson"
)

type nexter interface{ Next() error }

// lazyReader delivers head followed by n filler bytes without allocating them.
type lazyReader struct {
	head []byte
	n    int64
}

func (l *lazyReader) Read(p []byte) (int, error) {
	if len(l.head) > 0 {
		n := copy(p, l.head)
		l.head = l.head[n:]
		return n, nil
	}
	if l.n == 0 {
		return 0, io.EOF
	}
	n := int64(len(p))
	if n > l.n {
		n = l.n
	}
	for i := range p[:n] {
		p[i] = 'a'
	}
	l.n -= n
	return int(n), nil
}

func TestFinding1_LengthTruncatedToInt32(t *testing.T) {
	if strconv.IntSize != 32 {
		t.Skip("needs a platform with 32-bit int: run with GOARCH=386")
	}

	mk := map[string]func(b []byte, v structform.Visitor) nexter{
		"cborl":  func(b []byte, v structform.Visitor) nexter { return cborl.NewBytesDecoder(b, v) },
		"ubjson": func(b []byte, v structform.Visitor) nexter { return ubjson.NewBytesDecoder(b, v) },
	}

	// (A) streams that END INSIDE a value (announced length 2^32+1 or 2^31,
	// one payload byte present): property demands an error distinct from io.EOF.
	truncated := []struct{ format, data, what string }{
		{"cborl", "\x7b\x00\x00\x00\x01\x00\x00\x00\x01a", "text string, len 2^32+1"},
		{"cborl", "\x5b\x00\x00\x00\x01\x00\x00\x00\x01a", "byte string, len 2^32+1"},
		{"cborl", "\xa1\x7b\x00\x00\x00\x01\x00\x00\x00\x01a\x01", "map key, len 2^32+1 (then value 1)"},
		{"ubjson", "SL\x00\x00\x00\x01\x00\x00\x00\x01a", "string, len 2^32+1"},
		{"ubjson", "SL\x00\x00\x00\x01\x00\x00\x00\x00", "string, len 2^32, no payload at all"},
		{"ubjson", "{L\x00\x00\x00\x01\x00\x00\x00\x01aZ}", "object key, len 2^32+1"},
		{"cborl", "\x7a\x80\x00\x00\x00a", "text string, len 2^31"},
		{"cborl", "\x5a\x80\x00\x00\x00a", "byte string, len 2^31"},
		{"cborl", "\x7a\xff\xff\xff\xffa", "text string, len 2^32-1"},
		{"ubjson", "SL\x00\x00\x00\x00\x80\x00\x00\x00a", "string, len 2^31"},
		{"ubjson", "{L\x00\x00\x00\x00\x80\x00\x00\x00a", "object key, len 2^31"},
	}
	for _, c := range truncated {
		c := c
		t.Run(fmt.Sprintf("truncated/%s/%s", c.format, c.what), func(t *testing.T) {
			defer func() {
				if r := recover(); r != nil {
					t.Errorf("%s %q: Next PANICKED: %v", c.format, c.data, r)
				}
			}()
			var ev events
			dec := mk[c.format]([]byte(c.data), &ev)
			err := dec.Next()
			if err == nil {
				err2 := dec.Next()
				t.Errorf("%s %q (%s): stream ends inside the value, but Next succeeded with events %v (following Next: %v)",
					c.format, c.data, c.what, ev.list, err2)
			} else if err == io.EOF {
				t.Errorf("%s %q (%s): truncated value reported as clean io.EOF", c.format, c.data, c.what)
			}
		})
	}

	// (B) a COMPLETE stream read from an io.Reader: one CBOR byte string of 2^31
	// bytes (cborl streams byte strings element-wise, it does not have to buffer
	// them, so the value is decodable on a 32-bit machine). The decoder panics
	// on the first chunk. Rejecting the value with an error is tolerated here
	// (the length is not representable as the int passed to OnArrayStart); a
	// panic or a clean io.EOF is not.
	t.Run("complete/cborl/byte string of 2^31 bytes from reader", func(t *testing.T) {
		defer func() {
			if r := recover(); r != nil {
				t.Errorf("cborl: Next PANICKED on a complete stream: %v", r)
			}
		}()
		var ev countOnly
		dec := cborl.NewDecoder(&lazyReader{head: []byte("\x5a\x80\x00\x00\x00"), n: 1 << 31}, 4096, &ev)
		err := dec.Next()
		if err == io.EOF {
			t.Errorf("cborl: complete stream with one value reported as empty (io.EOF)")
		} else if err != nil {
			t.Logf("cborl: value rejected with error: %v", err)
		} else if ev.n != 1<<31+2 {
			t.Errorf("cborl: value delivered with %d events, want %d", ev.n, int64(1<<31+2))
		}
	})
}

// ---- visitors ----

type events struct{ list []string }

func (e *events) add(s string) error { e.list = append(e.list, s); return nil }
func (e *events) OnObjectStart(l int, t structform.BaseType) error {
	return e.add(fmt.Sprintf("{%d", l))
}
func (e *events) OnObjectFinished() error { return e.add("}") }
func (e *events) OnKey(s string) error    { return e.add("key:" + strconv.Quote(s)) }
func (e *events) OnArrayStart(l int, t structform.BaseType) error {
	return e.add(fmt.Sprintf("[%d", l))
}
func (e *events) OnArrayFinished() error    { return e.add("]") }
func (e *events) OnNil() error              { return e.add("nil") }
func (e *events) OnBool(b bool) error       { return e.add(fmt.Sprint(b)) }
func (e *events) OnString(s string) error   { return e.add("str:" + strconv.Quote(s)) }
func (e *events) OnInt8(i int8) error       { return e.add(fmt.Sprint(i)) }
func (e *events) OnInt16(i int16) error     { return e.add(fmt.Sprint(i)) }
func (e *events) OnInt32(i int32) error     { return e.add(fmt.Sprint(i)) }
func (e *events) OnInt64(i int64) error     { return e.add(fmt.Sprint(i)) }
func (e *events) OnInt(i int) error         { return e.add(fmt.Sprint(i)) }
func (e *events) OnByte(i byte) error       { return e.add(fmt.Sprint(i)) }
func (e *events) OnUint8(i uint8) error     { return e.add(fmt.Sprint(i)) }
func (e *events) OnUint16(i uint16) error   { return e.add(fmt.Sprint(i)) }
func (e *events) OnUint32(i uint32) error   { return e.add(fmt.Sprint(i)) }
func (e *events) OnUint64(i uint64) error   { return e.add(fmt.Sprint(i)) }
func (e *events) OnUint(i uint) error       { return e.add(fmt.Sprint(i)) }
func (e *events) OnFloat32(f float32) error { return e.add(fmt.Sprint(f)) }
func (e *events) OnFloat64(f float64) error { return e.add(fmt.Sprint(f)) }

// countOnly counts events without storing them.
type countOnly struct{ n int64 }

func (e *countOnly) OnObjectStart(l int, t structform.BaseType) error { e.n++; return nil }
func (e *countOnly) OnObjectFinished() error                          { e.n++; return nil }
func (e *countOnly) OnKey(s string) error                             { e.n++; return nil }
func (e *countOnly) OnArrayStart(l int, t structform.BaseType) error  { e.n++; return nil }
func (e *countOnly) OnArrayFinished() error                           { e.n++; return nil }
func (e *countOnly) OnNil() error                                     { e.n++; return nil }
func (e *countOnly) OnBool(b bool) error                              { e.n++; return nil }
func (e *countOnly) OnString(s string) error                          { e.n++; return nil }
func (e *countOnly) OnInt8(i int8) error                              { e.n++; return nil }
func (e *countOnly) OnInt16(i int16) error                            { e.n++; return nil }
func (e *countOnly) OnInt32(i int32) error                            { e.n++; return nil }
func (e *countOnly) OnInt64(i int64) error                            { e.n++; return nil }
func (e *countOnly) OnInt(i int) error                                { e.n++; return nil }
func (e *countOnly) OnByte(i byte) error                              { e.n++; return nil }
func (e *countOnly) OnUint8(i uint8) error                            { e.n++; return nil }
func (e *countOnly) OnUint16(i uint16) error                          { e.n++; return nil }
func (e *countOnly) OnUint32(i uint32) error                          { e.n++; return nil }
func (e *countOnly) OnUint64(i uint64) error                          { e.n++; return nil }
func (e *countOnly) OnUint(i uint) error                              { e.n++; return nil }
func (e *countOnly) OnFloat32(f float32) error                        { e.n++; return nil }
func (e *countOnly) OnFloat64(f float64) error                        { e.n++; return nil }
