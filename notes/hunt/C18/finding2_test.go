// Place this file in a NEW directory inside the module next to finding1_test.go,
// e.g. <repo>/c18hunt/finding2_test.go (package c18hunt; it re-uses the
// `events` visitor and the `nexter` interface declared in finding1_test.go).
//
//	go test ./c18hunt -run TestFinding2 -v
//
// Defect (boundary "buffer size 0"): json/ubjson/cborl NewDecoder(in, 0, vs)
// allocates a zero-length read buffer. Every conforming io.Reader answers
// Read(p) with len(p)==0 by (0, nil) while it still has data, so Next spins
// forever in its `continue` branch: for a stream of k>=1 complete values not a
// single Next call ever returns (no value, no error, no io.EOF).
package c18hunt

import (
	"bytes"
	"io"
	"testing"
	"time"

	structform "github.com/elastic/go-structform"
	"github.com/elastic/go-structform/cborl"
	"github.com/elastic/go-structform/json"
	"github.com/elastic/go-structform/ubjson"
)

func TestFinding2_BufferSizeZeroHangs(t *testing.T) {
	cases := []struct {
		name  string
		input []byte
		mk    func(in io.Reader, vs structform.Visitor) nexter
	}{
		{"json", []byte("1 2"), func(in io.Reader, vs structform.Visitor) nexter { return json.NewDecoder(in, 0, vs) }},
		{"ubjson", []byte("TF"), func(in io.Reader, vs structform.Visitor) nexter { return ubjson.NewDecoder(in, 0, vs) }},
		{"cborl", []byte{0x01, 0x02}, func(in io.Reader, vs structform.Visitor) nexter { return cborl.NewDecoder(in, 0, vs) }},
	}
	for _, c := range cases {
		c := c
		t.Run(c.name, func(t *testing.T) {
			type result struct {
				oks int
				err error
			}
			done := make(chan result, 1)
			go func() {
				var ev events
				dec := c.mk(bytes.NewReader(c.input), &ev)
				var r result
				for {
					if r.err = dec.Next(); r.err != nil {
						break
					}
					r.oks++
				}
				done <- r
			}()
			select {
			case r := <-done:
				if r.oks != 2 || r.err != io.EOF {
					t.Errorf("%s: got %d values and final error %v, want 2 values and io.EOF", c.name, r.oks, r.err)
				}
			case <-time.After(3 * time.Second):
				t.Errorf("%s: NewDecoder(in, 0, vs).Next() does not return (busy loop on zero-length reads)", c.name)
			}
		})
	}
}
