// Place in: gotype/ (package gotype_test), e.g. gotype/finding1_test.go
//
// Finding 1: a signed `int` event (OnInt) is handed to user defined unfold
// states (types implementing gotype.Expander / states registered via
// gotype.Unfolders) through UnfoldState.OnUint(uint64(v)) instead of
// UnfoldState.OnInt(int64(v)). Negative values arrive as huge unsigned values.
//
// OnInt events are produced by gotype.Fold for []int and map[string]int values
// (OnIntArray/OnIntObject -> OnArrayStart(len, IntType) + OnInt...).
package gotype_test

import (
	"testing"

	structform "github.com/elastic/go-structform"
	"github.com/elastic/go-structform/gotype"
)

type f1Num struct {
	kind string // callback used by the unfolder
	i    int64
	u    uint64
}

type f1State struct {
	gotype.BaseUnfoldState
	to *f1Num
}

func (n *f1Num) Expand() gotype.UnfoldState { return &f1State{to: n} }

func (s *f1State) OnInt(ctx gotype.UnfoldCtx, v int64) error {
	s.to.kind, s.to.i = "OnInt", v
	ctx.Done()
	return nil
}

func (s *f1State) OnUint(ctx gotype.UnfoldCtx, v uint64) error {
	s.to.kind, s.to.u = "OnUint", v
	ctx.Done()
	return nil
}

func TestFinding1ExpanderIntFromFolder(t *testing.T) {
	// stream produced by the folder: {"a": int(-1)} with element type hint
	var to struct{ A f1Num }
	u, err := gotype.NewUnfolder(&to)
	if err != nil {
		t.Fatal(err)
	}
	if err := gotype.Fold(map[string]int{"a": -1}, u); err != nil {
		t.Fatal(err)
	}
	if to.A.kind != "OnInt" || to.A.i != -1 {
		t.Errorf("map[string]int{a:-1}: value delivered via %v: int=%v uint=%v, want OnInt(-1)",
			to.A.kind, to.A.i, to.A.u)
	}

	// stream produced by the folder: [-5]
	var arr []f1Num
	u, err = gotype.NewUnfolder(&arr)
	if err != nil {
		t.Fatal(err)
	}
	if err := gotype.Fold([]int{-5}, u); err != nil {
		t.Fatal(err)
	}
	if len(arr) != 1 || arr[0].kind != "OnInt" || arr[0].i != -5 {
		t.Errorf("[]int{-5}: got %+v, want OnInt(-5)", arr)
	}
}

func TestFinding1ExpanderIntAllWidths(t *testing.T) {
	// all signed widths carry -1; only OnInt is misrouted
	send := map[string]func(v structform.Visitor) error{
		"OnInt8":  func(v structform.Visitor) error { return v.OnInt8(-1) },
		"OnInt16": func(v structform.Visitor) error { return v.OnInt16(-1) },
		"OnInt32": func(v structform.Visitor) error { return v.OnInt32(-1) },
		"OnInt64": func(v structform.Visitor) error { return v.OnInt64(-1) },
		"OnInt":   func(v structform.Visitor) error { return v.OnInt(-1) },
	}
	for name, fn := range send {
		var to f1Num
		u, err := gotype.NewUnfolder(&to)
		if err != nil {
			t.Fatal(err)
		}
		if err := fn(u); err != nil {
			t.Fatal(err)
		}
		if to.kind != "OnInt" || to.i != -1 {
			t.Errorf("%s(-1): delivered via %v: int=%v uint=%v", name, to.kind, to.i, to.u)
		}
	}
}
