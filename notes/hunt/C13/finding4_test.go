// Place in: gotype/ (package gotype_test), e.g. gotype/finding4_test.go
//
// Finding 4 (lower confidence, see findings.md): a struct reached through a
// pointer (field *S, []*S element, **S target) is always replaced by a freshly
// allocated zero struct. Fields of the existing pointee that the stream does
// not mention are lost, while the same struct embedded by value keeps them.
package gotype_test

import (
	"testing"

	"github.com/elastic/go-structform/gotype"
)

func TestFinding4PointerStructFieldsNotKept(t *testing.T) {
	type S struct{ X, Y int }
	type T struct {
		V S  // by value
		P *S // by pointer
	}
	to := T{V: S{X: 1, Y: 2}, P: &S{X: 1, Y: 2}}

	u, err := gotype.NewUnfolder(&to)
	if err != nil {
		t.Fatal(err)
	}
	// the stream mentions v.x and p.x only
	err = gotype.Fold(map[string]interface{}{
		"v": map[string]interface{}{"x": 5},
		"p": map[string]interface{}{"x": 5},
	}, u)
	if err != nil {
		t.Fatal(err)
	}

	if to.V != (S{X: 5, Y: 2}) {
		t.Fatalf("V = %+v", to.V)
	}
	if *to.P != (S{X: 5, Y: 2}) {
		t.Errorf("P = %+v, want {X:5 Y:2}: field p.y is not mentioned by the stream but was reset", *to.P)
	}
}
