// Place in: gotype/ (package gotype_test), e.g. gotype/finding2_test.go
//
// Finding 2: a null element in an array that is unfolded into a slice handled
// by the reflection based slice unfolder ([]*T, []struct, []map, [][]T, ...)
// is not assigned at all: the element keeps whatever the target slice held at
// that index. Everywhere else null is assigned (pointer field -> nil, map
// element -> zero value, []int element -> 0, []interface{} element -> nil).
package gotype_test

import (
	"testing"

	structform "github.com/elastic/go-structform"
	"github.com/elastic/go-structform/gotype"
)

func TestFinding2NullSliceElementNotAssigned(t *testing.T) {
	one := 1
	type T struct {
		P []*int          // reflection based slice unfolder
		Q *int            // pointer field
		M map[string]*int // reflection based map unfolder
		I []int           // primitive slice unfolder
	}
	to := T{
		P: []*int{&one},
		Q: &one,
		M: map[string]*int{"k": &one},
		I: []int{7},
	}

	u, err := gotype.NewUnfolder(&to)
	if err != nil {
		t.Fatal(err)
	}

	// {"p":[null], "q":null, "m":{"k":null}, "i":[null]}
	events := []func() error{
		func() error { return u.OnObjectStart(4, structform.AnyType) },
		func() error { return u.OnKey("p") },
		func() error { return u.OnArrayStart(1, structform.AnyType) },
		func() error { return u.OnNil() },
		func() error { return u.OnArrayFinished() },
		func() error { return u.OnKey("q") },
		func() error { return u.OnNil() },
		func() error { return u.OnKey("m") },
		func() error { return u.OnObjectStart(1, structform.AnyType) },
		func() error { return u.OnKey("k") },
		func() error { return u.OnNil() },
		func() error { return u.OnObjectFinished() },
		func() error { return u.OnKey("i") },
		func() error { return u.OnArrayStart(1, structform.AnyType) },
		func() error { return u.OnNil() },
		func() error { return u.OnArrayFinished() },
		func() error { return u.OnObjectFinished() },
	}
	for i, ev := range events {
		if err := ev(); err != nil {
			t.Fatalf("event %d: %v", i, err)
		}
	}

	if to.Q != nil || to.M["k"] != nil || to.I[0] != 0 {
		t.Fatalf("unexpected: Q=%v M[k]=%v I=%v", to.Q, to.M["k"], to.I)
	}
	if len(to.P) != 1 {
		t.Fatalf("len(P) = %d", len(to.P))
	}
	if to.P[0] != nil {
		t.Errorf("stream element p[0] is null, but P[0] still points to %v (old value kept)", *to.P[0])
	}
}

func TestFinding2NullStructElementNotAssigned(t *testing.T) {
	type E struct{ A int }
	to := []E{{A: 1}, {A: 2}}
	u, err := gotype.NewUnfolder(&to)
	if err != nil {
		t.Fatal(err)
	}
	// [null, {"a": 5}]
	u.OnArrayStart(2, structform.AnyType)
	if err := u.OnNil(); err != nil {
		t.Fatal(err)
	}
	u.OnObjectStart(1, structform.AnyType)
	u.OnKey("a")
	u.OnInt(5)
	u.OnObjectFinished()
	if err := u.OnArrayFinished(); err != nil {
		t.Fatal(err)
	}
	if to[0].A != 0 || to[1].A != 5 {
		t.Errorf("got %+v, want [{A:0} {A:5}] (a fresh target yields exactly this)", to)
	}
}
