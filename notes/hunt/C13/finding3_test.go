// Place in: gotype/ (package gotype_test), e.g. gotype/finding3_test.go
//
// Finding 3 (lower confidence, see findings.md): when the target slice of the
// reflection based slice unfolder has spare capacity, new elements are created
// by re-slicing into the capacity (SetLen) without clearing them. Whatever the
// backing array holds behind len() is merged into the result: fields/keys the
// stream does not contain show up in elements that did not exist in the target.
package gotype_test

import (
	"reflect"
	"testing"

	"github.com/elastic/go-structform/gotype"
)

func TestFinding3StaleCapacityLeaksIntoResult(t *testing.T) {
	type E struct {
		A int
		B string
	}
	type T struct {
		L []E
		M []map[string]int
	}

	// first document
	var to T
	u, err := gotype.NewUnfolder(&to)
	if err != nil {
		t.Fatal(err)
	}
	doc1 := map[string]interface{}{
		"l": []interface{}{map[string]interface{}{"a": 1, "b": "first"}},
		"m": []interface{}{map[string]interface{}{"old": 1}},
	}
	if err := gotype.Fold(doc1, u); err != nil {
		t.Fatal(err)
	}

	// common re-use pattern: keep the memory, drop the contents
	to.L, to.M = to.L[:0], to.M[:0]

	// second document does not mention "b" / "old"
	if err := u.SetTarget(&to); err != nil {
		t.Fatal(err)
	}
	doc2 := map[string]interface{}{
		"l": []interface{}{map[string]interface{}{"a": 2}},
		"m": []interface{}{map[string]interface{}{"new": 2}},
	}
	if err := gotype.Fold(doc2, u); err != nil {
		t.Fatal(err)
	}

	want := T{
		L: []E{{A: 2}},
		M: []map[string]int{{"new": 2}},
	}
	if !reflect.DeepEqual(to, want) {
		t.Errorf("empty target slices (len 0) after unfolding doc2:\n got  %+v\n want %+v", to, want)
	}
}
