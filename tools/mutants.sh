#!/bin/bash
# Runs the hand-written patches of /verif/mutants against the quick checks:
#   E* = semantically equivalent changes -> every listed check must stay silent (exit 0)
#   M* = breaking changes               -> at least one listed check must fire (exit 1 + VIOLATION)
# Usage: tools/mutants.sh [name-prefix ...]
set -u
ROOT="$(cd "$(dirname "$0")/.." && pwd)"
WT=/tmp/verif-mutants/repo
LOG="$ROOT/work/mutants.log"; mkdir -p "$ROOT/work"; : > "$LOG"
ok=0; bad=0
while read -r name kind checks; do
  case "$name" in ''|\#*) continue;; esac
  if [ $# -gt 0 ]; then m=0; for pre in "$@"; do case "$name" in $pre*) m=1;; esac; done; [ $m -eq 1 ] || continue; fi
  rm -rf /tmp/verif-mutants; mkdir -p /tmp/verif-mutants; git -C /repo worktree prune
  git -C /repo worktree add -q --detach "$WT" HEAD || exit 2
  if ! git -C "$WT" apply "$ROOT/mutants/$name.diff"; then echo "STALE $name (patch no longer applies)" | tee -a "$LOG"; bad=$((bad+1)); git -C /repo worktree remove --force "$WT"; continue; fi
  fired=""; alarms=""
  for p in $checks; do
    out=$(VERIF_REPO="$WT" VERIF_OUT="$(dirname "$WT")/out" "$ROOT/check" "$p" quick 2>&1); rc=$?
    if [ $rc -eq 1 ]; then fired="$fired $p"; alarms="$alarms
$(echo "$out" | grep -a -A2 '^VIOLATION' | head -6 | cut -c1-300)"; [ "$kind" = fires ] && break; fi
    if [ $rc -ne 0 ] && [ $rc -ne 1 ]; then alarms="$alarms
$p exit $rc: $(echo "$out" | grep -a 'INCONCLUSIVE' | head -2)"; fi
  done
  if [ "$kind" = silent ]; then
    if [ -z "$fired" ]; then echo "OK    $name silent on: $checks" | tee -a "$LOG"; ok=$((ok+1)); else echo "ALARM $name (equivalent change) fired:$fired$alarms" | tee -a "$LOG"; bad=$((bad+1)); fi
  else
    if [ -n "$fired" ]; then echo "OK    $name caught by:$fired" | tee -a "$LOG"; ok=$((ok+1)); else echo "MISS  $name not caught by: $checks$alarms" | tee -a "$LOG"; bad=$((bad+1)); fi
  fi
  git -C /repo worktree remove --force "$WT"
done < "$ROOT/mutants/EXPECT.txt"
rm -rf /tmp/verif-mutants
"$ROOT/check" build >/dev/null 2>&1
find "$ROOT/replays" -name 'C*.json' -newer "$LOG" -delete 2>/dev/null
echo "mutants: ok=$ok bad=$bad" | tee -a "$LOG"
[ $bad -eq 0 ]
