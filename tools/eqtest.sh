#!/bin/bash
# Evaluates one behaviour-preserving patch: every quick check must stay silent.
# Usage: tools/eqtest.sh <patch.diff> [checks...]     (default: all 20)
# Uses its own scratch worktree, binaries, evidence and replay directories
# (VERIF_REPO + VERIF_OUT), so several instances can run side by side and
# nothing under /verif/bin, /verif/evidence or /verif/replays is touched.
set -u
ROOT="$(cd "$(dirname "$0")/.." && pwd)"
PATCH="$(cd "$(dirname "$1")" && pwd)/$(basename "$1")"; shift
NAME="$(basename "$(dirname "$PATCH")")-$(basename "$PATCH" .diff)"
CHECKS="${*:-C01 C02 C03 C04 C05 C06 C07 C08 C09 C10 C11 C12 C13 C14 C15 C16 C17 C18 C19 C20}"
BASE=/tmp/verif-eq/$NAME
export GOFLAGS=-mod=mod GOPROXY=off GOSUMDB=off GOTOOLCHAIN=local
rm -rf "$BASE"; mkdir -p "$BASE/out"; git -C /repo worktree prune
git -C /repo worktree add -q --detach "$BASE/repo" HEAD || exit 2
trap 'git -C /repo worktree remove --force "$BASE/repo" 2>/dev/null; rm -rf "$BASE"' EXIT
if ! git -C "$BASE/repo" apply "$PATCH" 2>/dev/null && ! git -C "$BASE/repo" apply --3way "$PATCH" >/dev/null 2>&1; then echo "EQ $NAME: STALE (patch does not apply)"; exit 2; fi
if ! (cd "$BASE/repo" && go build ./... && go vet -tags verif ./json ./ubjson ./cborl ./gotype >/dev/null 2>&1 || true; cd "$BASE/repo" && go test -count=1 ./... >"$BASE/test.log" 2>&1); then
  echo "EQ $NAME: repository tests fail with the patch"; tail -5 "$BASE/test.log"; exit 2
fi
bad=0
for p in $CHECKS; do
  out=$(VERIF_REPO="$BASE/repo" VERIF_OUT="$BASE/out" "$ROOT/check" "$p" quick 2>&1); rc=$?
  if [ $rc -ne 0 ]; then
    bad=$((bad+1))
    echo "EQ $NAME: $p exit $rc"
    echo "$out" | grep -a -A3 '^VIOLATION\|^INCONCLUSIVE\|build with hooks failed' | cut -c1-600 | head -24
  fi
done
echo "EQ $NAME: done, $bad of $(echo $CHECKS | wc -w) checks not silent"
[ $bad -eq 0 ]
