#!/usr/bin/env python3
"""Regenerates /verif/MANIFEST.json from the table below (kept in one place so
that the manifest stays valid while checks are added)."""
import json, subprocess, os

ROOT = os.path.dirname(os.path.dirname(os.path.abspath(__file__)))

def hook_commits():
    out = subprocess.run(["git", "-C", "/repo", "log", "--format=%h %s"], capture_output=True, text=True).stdout
    return [l.split()[0] for l in out.splitlines() if l.split(" ", 1)[1].startswith("verif hooks")]

CHECKS = {
 "C01": ("exploration", "differential: own encoder -> own parser vs harness value model",
   "Generated and exhaustive-scalar event streams are encoded and re-parsed by the real code in every codec/option combination; an independent value model decides equality. Exploration is the right level: the input space is unbounded, the oracle is exact, and reach comes from boundary-biased generation plus exhaustive 8/16-bit integers and all <=2-byte strings.",
   "Trusts the harness value model / normalisation rules (val package) and that width, announced length, by-ref delivery are not part of the value.", "4.C01"),
 "C02": ("exploration", "self-differential over chunk schedules (all cut sets for short documents)",
   "Every schedule of a document (all 2^(n-1) cut sets for n<=11/14, systematic and random ones beyond) through ParseReader and Write*+end is compared event-by-event with the whole-buffer parse of the real parser.",
   "Write*+end needs the verif hook VerifFinalize; by-ref vs by-value delivery normalised; rejected documents compared by verdict only.", "4.C02"),
 "C03": ("exploration", "hostile-input monitoring: panic guard, loop-progress hook, CPU watchdog, alloc and event budgets, truncation verdict vs reference decoder",
   "Hostile byte strings (exhaustive tiny inputs, all prefixes, all bit flips, stacked mutations, unbacked length fields, random) are fed to every entry point in several chunkings while monitors watch for panics, idle loops, runaway allocation, event amplification and accepted truncation.",
   "Loop progress is observed through the verif step hook (CPU-time watchdog as backstop); truncation is classified by the harness' reference decoders; budgets are generous linear bounds. Suite scaling (64 KiB..2 MiB extreme shapes, 13 delivery modes, 32 MiB goroutine stack limit) decides proportional time/memory/stack; the lengths, tiny and mutants suites also run as a GOARCH=386 build (32-bit int).", "4.C03"),
 "C04": ("exploration", "differential against encoding/json (token stream, UseNumber) on grammar-generated texts and structural mutants",
   "The real JSON parser is compared with an independent RFC 8259 decoder on generated texts, the repository's corpora and structure-violating token sequences.",
   "Trusts encoding/json and strconv as reference; numeric equality (not event kind) is compared. Every accepted document is also read through a pull decoder and through ONE long-lived parser per worker process (same events demanded); suite escapes enumerates all sequences of <= 3 escape fragments.", "4.C04"),
 "C05": ("exploration", "differential against an independent RFC 7049 decoder (all argument widths exhaustively for 0..65552)",
   "Foreign CBOR items over the subset, every width for every small value, and items with one injected unsupported feature are parsed by the real parser and compared with the harness' own RFC 7049 decoder.",
   "Trusts the harness' refcbor decoder (cross-checked against an independent generator). Accepted items are also read through a pull decoder and one long-lived parser; a refusal must stand on the caller's next calls.", "4.C05"),
 "C06": ("exploration", "differential against an independent UBJSON draft-12 decoder",
   "Foreign UBJSON values with every marker, every length marker and nested optimized containers are parsed by the real parser and compared with the harness' own draft-12 decoder.",
   "Trusts the harness' refubj decoder; no-ops are generated at value positions and between object members; counts of 2^31..2^63-1 zero-width elements are delivered to a visitor that stops after 40 events (suite huge-counts).", "4.C06"),
 "C07": ("exploration", "differential: real encoders vs independent reference decoders + byte-level JSON scanners",
   "Streams with every extended event, every byte value in strings, all integer boundaries and float classes are written by the real encoders under every option; independent decoders must read back exactly the stream's value and byte-level scanners check the JSON-specific obligations.",
   "Trusts the reference decoders and the harness' JSON token scanner.", "4.C07"),
 "C08": ("exploration", "end-to-end differential over all 9 parser->encoder pipes, chunked readers and decoder loops, contract monitor in the pipe",
   "Foreign and own source documents (single and concatenated streams) are piped through the real parser and encoder of every pair under varied read schedules; reference decoders on both ends decide equality, also against decode-then-re-encode and the library's own target parser.",
   "Trusts the reference decoders on both sides; skips sources outside the common subset (covered by C04-C06).", "4.C08"),
 "C09": ("exploration", "online trace checker (push-down contract automaton) behind parsers, Fold and the expansion adapters",
   "An online contract automaton observes every event the real producers emit for accepted parser inputs (incl. accepted hostile inputs), generated (type,value) folds and adapter expansions; any flag is a violation with the trace prefix as witness.",
   "Trusts the automaton's reading of the Visitor contract (visitor.go comments); OnByte/OnUint8 both accepted for byte element types.", "4.C09"),
 "C10": ("exploration", "differential on twin consumers: extended call vs expansion; hook-observed stack depths",
   "Each extended event in generated contexts is passed to one fresh consumer as extended call and to a twin as its documented expansion; decoded values, delivered basic events and (via hooks) nesting-stack depths must agree, including everything written afterwards.",
   "Needs the verif depth accessors for the state comparison (value comparison works without); map member order not compared.", "4.C10"),
 "C11": ("exploration", "round-trip differential: Fold -> (codec) -> Unfold vs original, deep structural comparator; process-isolated refusal probes",
   "Generated Go (type,value) programs are folded and unfolded by the real code directly and through each codec; a structural comparator decides equality; unsupported and self-referential types are probed in processes of their own (a stack overflow is fatal).",
   "Trusts the harness comparator (nil==empty, pointer chains ending in nil == nil, interface positions at value level); two recorded known findings.", "4.C11"),
 "C12": ("exploration", "differential against an independent executable model of the documented fold rules",
   "The value recorded from the real Fold of generated and swept (type,value) pairs is compared with an independent ~300-line model of the tag rules (tags.go/README).",
   "Trusts the model; where the documentation is silent the model copies observed behaviour (listed in the evidence assumptions); one recorded known finding (registered folder for a builtin primitive bypassed in typed containers).", "4.C12"),
 "C13": ("exploration", "differential: generic-unfold vs stream value; typed targets with sentinels vs expected merge; number-conversion sweep",
   "Streams with every delivery variant are unfolded into interface{} (value compared with the stream's) and, perturbed (random widths, shuffled members, extra members, by-reference strings), into sentinel-filled typed targets (compared with the expected merge).",
   "Trusts the fold model used to derive streams and the merge rule; suite prefilled covers targets that already hold data (null overwrites, regrown elements are new); one recorded known finding (ubjson uint64).", "4.C13"),
 "C14": ("exploration", "hostile (stream,target) pairs under panic guard, allocation budget, memory canaries, checkptr (race build) and ASan; abandon-at-every-k + Reset + probe differential",
   "Mismatching pairs and unbacked announced lengths are unfolded into canary-guarded targets under plain, race+checkptr and (thorough) ASan builds; every abandon point k is followed by Reset/SetTarget and a probe compared with a brand-new unfolder.",
   "Canaries see only writes near the target; sanitizers only executed paths; allocation budget is a generous linear bound. A sixth of the abandon cases configure the unfolder with user unfolders (differential against a new unfolder of the same configuration); suite nil-targets covers typed nil pointer targets.", "4.C14"),
 "C15": ("exploration", "scribble-and-compare aliasing monitor, forced-GC differential, checkptr and ASan builds over the real pipelines",
   "Targets are snapshotted, every reachable buffer is overwritten or reused by same-layout follow-up documents through the same parser/unfolder, and the targets re-compared; pipelines are re-run with GC forced at every event; all pipelines run under race+checkptr and (thorough) ASan.",
   "A stale zero-copy string is visible only if its memory is overwritten afterwards; the harness reaches caller chunks and parser buffers. Suite alias-user-state does the same for key and string values that user unfold states (Expander, registered UnfoldState) keep as handed over.", "4.C15"),
 "C16": ("fault_enumeration", "exhaustive fault-position sweep: failing writer at every write k, failing visitor at every event k",
   "For each stream/document/value the fault position is enumerated over ALL writes (encoders) resp. ALL events (parsers, Fold, adapters) of the fault-free run; the call sequence must report an error / return the visitor's own error and deliver nothing afterwards.",
   "Faults are persistent (as the property states) and injected at the io.Writer / Visitor boundary; after the error the caller's next calls (Next x3, remaining Writes) are made too and must deliver no event.", "4.C16"),
 "C17": ("exploration", "history differential: used instance vs fresh instance on a probe; hook assertion of idle stack depths",
   "Histories of 0..6 (one in 16: 7..40) complete documents through one encoder / parser / decoder / iterator / unfolder are followed by a probe whose output is compared with a new instance's; hooks assert idle nesting stacks after every document.",
   "Needs the verif depth accessors for the idle assertion (output comparison works without). Histories include the key cache, user unfolders (same configuration on both sides), JSON options changed before the probe, Reset() between documents and buffer size 0.", "4.C17"),
 "C18": ("exploration", "offline checker over the recorded history of Next calls vs reference documents, under varied reader schedules",
   "Streams of 0..5 documents are read through byte and reader decoders with read sizes from 1 byte to the buffer size and EOF with/after data; the recorded history of Next results and events is checked against the reference values (one value per call, then io.EOF, truncation != EOF).",
   "Zero-length reads are issued only by way of buffer size 0 (which must not hang); JSON values are whitespace-separated as the property states; in a cut stream every Next that returns nil must have delivered one complete value.", "4.C18"),
 "C19": ("exploration", "Go race detector over barrier-released goroutine rounds + per-goroutine result equality with a sequential run",
   "4..64 goroutines with their own instances share inputs, values and freshly created types (first-use and cached-use) under GOMAXPROCS 2/16 with injected yields; race-log blocks and any deviation from the sequential results are violations; distinct interleavings are counted.",
   "A race is reported only if both accesses occur in explored executions; failpoints are not used (no locks or suspension points to widen). Goroutines use every parser entry point and both pull decoders, differently configured iterators, one shared FoldOption value, values with inline interface fields, and targets filled through user unfold states (Expander / registered state).", "4.C19"),
 "C20": ("exploration", "differential: unfolder with key cache vs without vs document value, keys delivered from scribbled buffers",
   "Key sequences over small alphabets drive hits, misses, evictions and re-insertions for capacities 0..64; each document's target with the cache must equal the target without it and the document's value, with every key's source bytes overwritten after delivery.",
   "Eviction order is observed (hook) but not an oracle; suite capacities runs capacities up to 2^63-1 with an allocation bound on EnableKeyCache itself.", "4.C20"),
}

NOT_YET = {
}

def main():
    checks = []
    for pid in sorted(CHECKS):
        level, tech, text, note, ref = CHECKS[pid]
        checks.append({
            "property_id": pid,
            "quick_cmd": "./check %s quick" % pid,
            "thorough_cmd": "./check %s thorough" % pid,
            "evidence_file": "/verif/evidence/%s.json" % pid,
            "replay_cmd_template": "./check replay {path}",
            "engine": "vcheck",
            "level_claimed": {"category": level, "text": text, "design_ref": "DESIGN.md section " + ref},
            "level_note": note,
            "technique": "runtime monitoring: " + tech,
        })
    props = [json.loads(l)["id"] for l in open(os.path.join(ROOT, "properties.jsonl"))]
    na = []
    for pid in props:
        if pid not in CHECKS:
            na.append({"property_id": pid, "reason": NOT_YET.get(pid, "check under construction in this session: not claimed until its monitor is built and silent on the unchanged tree")})
    man = {
        "version": 1,
        "setup_cmd": "./check build",
        "hooks": {
            "guard": "verif",
            "enable": "go build -tags verif (done by ./check on every invocation; harness module replaces github.com/elastic/go-structform => /repo)",
            "baseline_off_cmd": "cd /repo && GOFLAGS=-mod=mod go test -vet=off -count=1 -timeout 25m ./...",
            "source_commits": hook_commits(),
            "add_only": True,
        },
        "engines": [{"name": "vcheck", "path": "/verif/harness", "serves_properties": sorted(CHECKS), "kind_free_text": "Go harness: deterministic case generators, worker processes with journals, online monitors (contract automaton, progress hook, budgets, fault injectors), independent reference decoders"}],
        "checks": checks,
        "not_applicable": na,
        "notes": "All checks rebuild the harness against /repo's working tree with -tags verif. Exit 0 = held on everything explored; exit 1 + VIOLATION line = violation; exit 3 + INCONCLUSIVE line = monitors could not decide (never folded into the other two). Known findings: /verif/known_findings.json.",
    }
    json.dump(man, open(os.path.join(ROOT, "MANIFEST.json"), "w"), indent=1)
    print("wrote MANIFEST.json with", len(checks), "checks,", len(na), "not claimed")

main()
