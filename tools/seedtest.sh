#!/bin/bash
# Evaluate a seeded breaking change kept under /verif/seeded/<id>/ (or any dir
# with patch.diff + demo_test.go + meta.json/PROPERTY id):
#   tools/seedtest.sh <dir> <property> [more properties...]
# 1. scratch worktree of /repo HEAD + patch  2. library builds, pinned suite passes
# 3. demo fails with / passes without the patch  4. quick checks with VERIF_REPO
set -u
ROOT="$(cd "$(dirname "$0")/.." && pwd)"
DIR="$(cd "$1" && pwd)"; shift
PROPS="$*"
export GOFLAGS=-mod=mod GOPROXY=off GOSUMDB=off GOTOOLCHAIN=local
BASE=/tmp/verif-seedtest-$(basename "$DIR")
WT=$BASE/repo
rm -rf "$BASE"; mkdir -p "$BASE"
git -C /repo worktree prune
git -C /repo worktree add -q --detach "$WT" HEAD || exit 2
cleanup() { git -C /repo worktree remove --force "$WT" 2>/dev/null; rm -rf "$BASE"; }
trap cleanup EXIT
mkdir -p "$WT/demo" && cp "$DIR/demo_test.go" "$WT/demo/demo_test.go"
echo "== demo on the unchanged tree (must pass)"
(cd "$WT" && go test -count=1 ./demo/ 2>&1 | tail -3); base=${PIPESTATUS[0]}
if ! git -C "$WT" apply "$DIR/patch.diff"; then echo "RESULT patch does not apply to current HEAD"; exit 2; fi
echo "== build + pinned suite with the change (must pass)"
(cd "$WT" && go build ./... && go test -vet=off -count=1 $(go list ./... | grep -v /demo) 2>&1 | grep -v "no test files" | tail -8)
echo "== demo with the change (must fail)"
(cd "$WT" && go test -count=1 ./demo/ 2>&1 | tail -5)
rm -rf "$WT/demo"
for p in $PROPS; do
  echo "== check $p quick against the changed tree"
  out=$(VERIF_REPO="$WT" VERIF_OUT="$(dirname "$WT")/out" "$ROOT/check" "$p" quick 2>&1); rc=$?
  echo "$out" | grep -a "^VIOLATION\|held on\|INCONCLUSIVE" | head -4 | cut -c1-300
  echo "$out" | grep -a -A3 "^VIOLATION" | head -8 | cut -c1-400
  if [ $rc -eq 1 ]; then echo "RESULT $p FIRED"; else echo "RESULT $p MISSED (exit $rc)"; fi
done
