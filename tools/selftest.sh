#!/bin/bash
# Monitor self-validation: the inverse of every "fix:" commit in /repo is a
# realistic breaking change (it compiled and passed the suite).  For each one
# a scratch copy of /repo gets the fix reverted and the quick check of the
# property named in known_findings.json must report a VIOLATION.
# Usage: tools/selftest.sh [commit ...]     (default: all fix commits)
set -u
ROOT="$(cd "$(dirname "$0")/.." && pwd)"
WT=/tmp/verif-selftest/repo
LOG="$ROOT/work/selftest.log"
mkdir -p "$ROOT/work" /tmp/verif-selftest
: > "$LOG"
commits="$*"
if [ -z "$commits" ]; then
  commits=$(git -C /repo log --format='%h %s' | grep ' fix:' | awk '{print $1}')
fi
pass=0; fail=0; skipped=0
for h in $commits; do
  line=$(grep -o "fixed: property=C[0-9]* $h [^\"]*" "$ROOT/known_findings.json" | head -1)
  prop=$(echo "$line" | sed -n 's/fixed: property=\(C[0-9]*\).*/\1/p')
  also=$(echo "$line" | grep -o 'also C[0-9, C]*' | grep -o 'C[0-9]*' | tr '\n' ' ')
  if [ -z "$prop" ]; then echo "SKIP $h (not in known_findings.json)" | tee -a "$LOG"; skipped=$((skipped+1)); continue; fi
  rm -rf "$WT"; git -C /repo worktree prune
  git -C /repo worktree add -q --detach "$WT" HEAD 2>>"$LOG" || { echo "SKIP $h (worktree)" | tee -a "$LOG"; skipped=$((skipped+1)); continue; }
  if ! git -C "$WT" revert --no-commit "$h" >>"$LOG" 2>&1; then
    echo "SKIP $h $prop (revert conflicts with later fixes)" | tee -a "$LOG"; skipped=$((skipped+1))
    git -C /repo worktree remove --force "$WT"; continue
  fi
  fired=""
  for p in $prop $also; do
    out=$(VERIF_REPO="$WT" VERIF_OUT="$(dirname "$WT")/out" "$ROOT/check" "$p" quick 2>&1); rc=$?
    if [ $rc -eq 1 ] && echo "$out" | grep -aq "^VIOLATION property=$p"; then fired="$fired $p"; [ "$p" = "$prop" ] && break; fi
    if echo "$out" | grep -aq "harness does not build"; then fired="NOBUILD"; break; fi
  done
  if [ "$fired" = "NOBUILD" ]; then echo "SKIP $h $prop (reverted tree does not build: later fixes depend on it)" | tee -a "$LOG"; skipped=$((skipped+1));
  elif [ -n "$fired" ]; then echo "FIRED $h $prop by:$fired" | tee -a "$LOG"; pass=$((pass+1)); else echo "MISSED $h $prop ($line)" | tee -a "$LOG"; fail=$((fail+1)); fi
  git -C /repo worktree remove --force "$WT"
done
rm -rf /tmp/verif-selftest
# restore the normal build
"$ROOT/check" build >/dev/null 2>&1
find "$ROOT/replays" -name 'C*.json' -newer "$LOG" -delete 2>/dev/null
echo "selftest: fired=$pass missed=$fail skipped=$skipped" | tee -a "$LOG"
[ $fail -eq 0 ]
