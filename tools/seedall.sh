#!/bin/bash
# Re-evaluates every kept seeded change (/verif/seeded/<id>/) against the
# current /repo HEAD and the current checks, 4 side by side.
# A change whose patch no longer applies (the library moved on) is STALE.
ROOT="$(cd "$(dirname "$0")/.." && pwd)"
mkdir -p "$ROOT/work/seed"
ls -d "$ROOT"/seeded/${1:-}*/ | xargs -P 4 -I{} sh -c 'd={}; id=$(basename $d); p=$(python3 -c "import json,sys; print(json.load(open(sys.argv[1]))[\"property\"])" $d/meta.json); '"$ROOT"'/tools/seedtest.sh $d $p > '"$ROOT"'/work/seed/$id.log 2>&1'
for f in "$ROOT"/work/seed/*.log; do echo "$(basename $f .log): $(grep -a "^RESULT" $f | tr '\n' ' ')"; done
