#!/bin/bash
# Runs every behaviour-preserving patch of /verif/equivalents (written by
# sub-agents that were asked for refactorings that keep all 20 properties)
# against all quick checks, 4 patches side by side.  Every check must stay
# silent.  Usage: tools/eqall.sh [name-prefix]
ROOT="$(cd "$(dirname "$0")/.." && pwd)"
mkdir -p "$ROOT/work/eq"
ls "$ROOT"/equivalents/${1:-}*.diff | xargs -P 4 -I{} sh -c 'n=$(basename {} .diff); '"$ROOT"'/tools/eqtest.sh {} > '"$ROOT"'/work/eq/$n.log 2>&1'
grep -ah "^EQ .*done" "$ROOT"/work/eq/*.log
! grep -aq "^EQ .* exit " "$ROOT"/work/eq/*.log
